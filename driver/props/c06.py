"""C06 - LIMIT N returns min(N, matches) rows, and with ORDER BY the true top N."""
ID = "C06"
LEVEL = "model_checking"
JUDGE = "Judge_C06"
RULE = ("TLC enumerates orderings (8 key lists incl. unordered, ties straddling every cut) x N in 0..24 x WHERE on/off x "
        "one root / two roots x bfs/dfs over world W5 (22 entries); per scenario the unlimited and the limited run; "
        "Judge_C06 checks the row count min(N,M), sub-multiset, sortedness and that no excluded row sorts before an "
        "included one; TopN (Mech) is model-checked for all arrival orders. Non-trivial = 1 <= N < M.")
ASSUMPTIONS = ["M is taken from the unlimited run of the same query", "lstat values as ground truth for keys"]


def mech(tier, seed):
    return [dict(module="TopN", cfg="TopN_q" if tier == "quick" else "TopN_t", workers=8,
                 actions=["Insert", "Finish"])]


def generators(tier, seed):
    return [dict(module="MC_C06", cfg="MC_C06_q", workers=4)]
