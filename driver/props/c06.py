"""C06 - LIMIT N returns min(N, matches) rows, and with ORDER BY the true top N."""
ID = "C06"
LEVEL = "model_checking"
JUDGE = "Judge_C06"
RULE = ("TLC enumerates orderings (8 key lists incl. unordered, ties straddling every cut) x N in 0..24 x WHERE on/off x "
        "one root / two roots x bfs/dfs over world W5 (22 entries); per scenario the unlimited and the limited run; "
        "Judge_C06 checks the row count min(N,M), sub-multiset, sortedness and that no excluded row sorts before an "
        "included one; TopN (Mech) is model-checked for all arrival orders. Non-trivial = 1 <= N < M.")
ASSUMPTIONS = ["M is taken from the unlimited run of the same query", "lstat values as ground truth for keys"]


def mech(tier, seed):
    return [dict(module="TopN", cfg="TopN_q" if tier == "quick" else "TopN_t", workers=8,
                 actions=["Insert", "Finish"]),
            # the streamed early exit inside the walk: LIMIT over every world / readdir order (row-count clause)
            dict(module="Walker", cfg="Walker_lim", workers=8, actions=[], coverage=False),
            # the result pipeline: header / separators / footer protocol, row counts per result path, streamed prefix
            dict(module="Pipeline", cfg="Pipeline_q", workers=4, actions=["Header", "Offer", "Plan", "WriteRow", "Footer"])] + (
        # thorough: the count-level abstraction of the pipeline for any number of entries and any limit (Apalache, inductive invariant)
        [] if tier == "quick" else
        [dict(module="PipelineInd", apalache=[("Init=>IndInv", "Init", "IndInv", 0), ("IndInv inductive", "IndInv", "IndInv", 1),
                                              ("IndInv=>Safety", "IndInv", "Safety", 0)])])


def _pipeline_conformance(ctx, tier, seed):
    from driver import pipeline_conf
    return pipeline_conf.run(ctx, tier, seed, 'MC_C06', 'MC_C06_q', 400)


def _walker_limit_conformance(ctx, tier, seed):
    """White-box: the streamed early exit inside the walk.  Unordered, unfiltered LIMIT runs of the C06 scenarios are recorded with
    the hooks on and replayed through Walker's actions (PickOne / LimitBreak / EndOfDir / Dequeue) by Trace_Walker."""
    import json
    import os
    import random
    import time
    from driver import lib, check
    t0 = time.time()
    r = lib.run_tlc("MC_C06", "MC_C06_q", workers=4)
    lib.tlc_ok(r, "MC_C06")
    scs = [x for x in r.replays if not x["keys"] and not x["arch"] and "grouped/" not in x["class"] and "/where" not in x["class"] and "constant-column" not in x["class"] and "second-argument" not in x["class"]]
    random.Random(seed + 4).shuffle(scs)
    if tier == "quick":
        scs = scs[:60]
    recs = []
    for k, scn in enumerate(scs):
        w, snap = ctx.world(scn["world"], None)
        run = [x for x in scn["runs"] if x["tag"] == "lim"][0]
        tf = os.path.join(ctx.scratch, "tracew.%d" % k)
        argv = [check.subst(a, w) for a in run["argv"]]
        lib.run_fselect(argv, w.paths[0], w.home, extra_env={"FSELECT_VERIF_TRACE": tf})
        events = [json.loads(x) for x in open(tf)] if os.path.exists(tf) else []
        recs.append({"id": len(recs) + 1, "world": scn["world"], "roots": [0] if scn["prefix"] else [5, 9], "min": 0, "max": 0,
                     "dfs": "/dfs" in scn["class"], "limit": scn["limit"], "snapshot": snap, "rootino": str(os.stat(w.paths[0]).st_ino),
                     "events": [{"ev": e["ev"], "ino": e.get("ino", ""), "reported": e.get("reported", False),
                                 "descend": e.get("descend", "")} for e in events if e["ev"] in lib.WALK_EVENTS], "argv": argv})
    res = lib.validate_traces(ctx, "Trace_Walker", recs, shards=4)
    res.update({"name": "WalkerLimit", "wall_s": round(time.time() - t0, 1)})
    return res


def conformance(tier, seed):
    # white-box: the writer / accept events of real runs of these scenarios are replayed through Pipeline.tla
    return [dict(name="Pipeline", run=_pipeline_conformance), dict(name="WalkerLimit", run=_walker_limit_conformance)]


def generators(tier, seed):
    return [dict(module="MC_C06", cfg="MC_C06_q", workers=4)]

MANIFEST = dict(
    design_ref='DESIGN.md §5 C06',
    text='TLC enumerates 8 orderings x every N in 0..24 x WHERE x 1/2 roots x bfs/dfs on world W5; the limited run must have min(N,M) rows, be a sub-multiset of the unlimited run and, when ordered, be sorted with no excluded row sorting before an included one (ties at the cut free). The TopN buffer (TopN.tla, implementation-shaped) is model-checked for every arrival order of <= 6 keys x limits 0..8 against the least-N multiset.',
    note="Trusted: TLC, Order/Eval, the unlimited run as definition of M. Archives are covered by C19's generator.",
    technique='TLC enumeration + paired replay + TLA+ judge; TLC model checking of TopN')
