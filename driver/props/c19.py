"""C19 - archive search lists each zip member exactly once and changes nothing else."""
ID = "C19"
LEVEL = "model_checking"
JUDGE = "Judge_C19"
RULE = ("Three scenario kinds built by MC_C19: (members) a tree with .zip/.jar/.war/.ear archives, an empty archive, archive data under "
        "a non-configured extension and a non-archive named .zip, listed with and without `archives` under three clocks (incl. a 31st and a "
        "30th); (query) WHERE x ORDER BY size asc/desc x LIMIT in {0,1,2,3,5,8,13,17,30} over ordinary and member rows; (corrupt) a "
        "three-member archive truncated at every third length (thorough: every length) or with one byte flipped in its last 120 (260) "
        "bytes. Judge_C19 requires exactly one fully correct row per member, unchanged ordinary rows, uniform filter/order/limit, and for "
        "damaged archives all ordinary rows, status 0/1, no crash. Non-trivial = member rows exist / every query and corrupt scenario.")
ASSUMPTIONS = ["zip files are written by Python's zipfile from the abstract member list", "member timestamps are the stored DOS fields read as local time"]
POOL = 10


def generators(tier, seed):
    return [dict(module="MC_C19", cfg="MC_C19_q" if tier == "quick" else "MC_C19_t", workers=4)]

MANIFEST = dict(
    design_ref="DESIGN.md §5 C19",
    text="TLC enumerates member-listing scenarios under several clocks, filter/order/limit variants over ordinary and member rows, and every truncation point / byte flip of a small archive; each is run with and without `archives`; Judge_C19 validates every member row (path, size, directory flag, stored mode string, stored timestamp), the invariance of ordinary rows, the uniform treatment by WHERE/ORDER BY/LIMIT and the survival of ordinary rows next to a damaged archive.",
    note="Trusted: TLC, Eval.tla, Python zipfile as archive writer, the clock shim. Left open: upper-case extensions, member rows of damaged archives, nested archives.",
    technique="TLC enumeration (incl. fault enumeration over truncation points and byte flips) + paired replay + TLA+ judge")
