"""C15 - expressions follow arithmetic rules and each column is evaluated on its own."""
ID = "C15"
LEVEL = "model_checking"
JUDGE = "Judge_C15"
RULE = ("TLC enumerates expression trees in Polish notation: every one-operator tree over six leaves, every two-operator tree "
        "(both shapes) over three leaves, unary minus on numbers / columns / brackets, in minimal and full bracketing; pairs of "
        "columns differing only in operator or only in bracket placement; WHERE <expr> OP literal; five-column lists in two "
        "orders; over world W15 (6 files). Judge_C15 evaluates every cell with Arith!AEval (exact integers; inexact / or "
        "negative % are unconstrained). Non-trivial = some cell defined / the WHERE separates the entries.")
ASSUMPTIONS = ["numbers are compared as decimals (7 = 7.0)", "lstat size/nlink as ground truth"]


def generators(tier, seed):
    return [dict(module="MC_C15", workers=4)]

MANIFEST = dict(
    design_ref="DESIGN.md §5 C15",
    text="TLC enumerates arithmetic expression trees (Polish notation), confusable column pairs, WHERE-on-expression queries and multi-column lists; each is run on world W15 and Judge_C15 recomputes every cell with Arith.tla (structural recursion; precedence and associativity live in the renderer ArithText, so a parser that groups differently yields different values).",
    note="Trusted: TLC, Arith/Eval, lstat values. Only exact divisions and non-negative modulo are judged; trees with at most two binary operators (plus unary minus).",
    technique="TLC expression enumeration + replay + TLA+ judge")
