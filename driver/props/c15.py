"""C15 - expressions follow arithmetic rules and each column is evaluated on its own."""
ID = "C15"
LEVEL = "model_checking"
JUDGE = "Judge_C15"
RULE = ("TLC enumerates expression trees in Polish notation: every one-operator tree over six leaves, every two-operator tree "
        "(both shapes) over three leaves, unary minus on numbers / columns / brackets, in minimal and full bracketing; pairs of "
        "columns differing only in operator or only in bracket placement; WHERE <expr> OP literal; five-column lists in two "
        "orders; over world W15 (6 files). Judge_C15 evaluates every cell with Arith!AEval (exact integers; inexact / or "
        "negative % are unconstrained). Non-trivial = some cell defined / the WHERE separates the entries.")
ASSUMPTIONS = ["numbers are compared as decimals (7 = 7.0)", "lstat size/nlink as ground truth"]


def mech(tier, seed):
    # the per-row value cache: its key (ExprKey!ExprText, the model of `impl Display for Expr`) is injective on the parsed trees of
    # every arithmetic expression of the generator's families (thorough tier: the run takes about half a minute)
    # Mech => Prop for the value computation: Lexer + Parser + ExprEval (get_column_expr_value with its cache) give Arith!AEval's
    # value for every expression of the families on every entry of W15, alone and next to other columns over a shared cache
    evalmech = dict(module="MC_ExprEvalMech", cfg="MC_ExprEvalMech", workers=8, actions=[], coverage=False)
    return [evalmech] if tier == "quick" else [evalmech, dict(module="MC_ExprMemo", cfg="MC_ExprMemo", workers=8, actions=[], coverage=False)]


def _exprkey_conformance(ctx, tier, seed):
    """Model key = real key: `select <expr> into json` prints the Display text of the expression as its single JSON key."""
    import json
    import random
    import time
    from driver import lib, check
    t0 = time.time()
    r = lib.run_tlc("MC_ExprMemo", "MC_ExprMemo_gen", workers=4)
    lib.tlc_ok(r, "MC_ExprMemo")
    scs = [x for x in r.replays if x.get("kind") == "exprkey"]
    random.Random(seed + 5).shuffle(scs)
    if tier == "quick":
        scs = scs[:500]

    def ex(item):
        i, scn = item
        scn = dict(scn, id=i + 1)
        rec = check.default_execute(scn, ctx)
        o = rec["obs"]["q"]
        try:
            rows = json.loads(o.get("text") or "[]")
            keys = list(rows[0].keys()) if rows else []
        except Exception:
            keys = []
        return {"id": i + 1, "class": scn["class"], "key": scn["key"], "runs": scn["runs"],
                "obs": {"q": {"status": o["status"], "timed_out": o["timed_out"], "panic": o["panic"],
                              "jsonkey": list(keys[0]) if len(keys) == 1 else ["?"]}}}
    obs = lib.pmap(ex, list(enumerate(scs)), workers=12)

    class P:
        ID = "C15"
        JUDGE = "Judge_ExprKey"
    verdicts, jstates = check.judge(P, obs, ctx, shards=4)
    bad = [v for v in verdicts if not v["ok"]]
    byid = {o["id"]: o for o in obs}
    drift = ["%s argv=%s real=%s model=%s" % (v["why"], json.dumps(byid[v["id"]]["runs"][0]["argv"])[:160],
                                             "".join(byid[v["id"]]["obs"]["q"]["jsonkey"]), "".join(byid[v["id"]]["key"])) for v in bad[:8]]
    return {"name": "ExprKey", "kind": "replay", "module": "ExprKey", "states": jstates, "validated": len(verdicts) - len(bad),
            "rejected": len(bad), "drift": drift, "wall_s": round(time.time() - t0, 1)}


def _expreval_conformance(ctx, tier, seed):
    """Spec -> implementation replay for Parser!ParseFields + ExprEval: the expression columns the binary prints are the values the
    mechanism models compute from the characters of the query (left to right over one per-row cache)."""
    import json
    import random
    import time
    from driver import lib, check
    t0 = time.time()
    r = lib.run_tlc("MC_C15", None, workers=4)
    lib.tlc_ok(r, "MC_C15")
    scs = [x for x in r.replays if x.get("kind") in ("one", "pairop", "pairbr", "list")]
    random.Random(seed + 6).shuffle(scs)
    if tier == "quick":
        scs = [x for x in scs if x["kind"] == "list"] + [x for x in scs if x["kind"] != "list"][:1500]

    def ex(item):
        i, scn = item
        rec = check.default_execute(dict(scn, id=i + 1), ctx)
        rec["queryc"] = list(scn["runs"][0]["argv"][0])
        return rec
    obs = lib.pmap(ex, list(enumerate(scs)), workers=12)

    class P:
        ID = "C15"
        JUDGE = "Judge_ExprEval"
    verdicts, jstates = check.judge(P, obs, ctx, shards=8)
    bad = [v for v in verdicts if not v["ok"]]
    byid = {o["id"]: o for o in obs}
    drift = ["%s argv=%s" % (v["why"], json.dumps(byid[v["id"]]["runs"][0]["argv"])[:200]) for v in bad[:8]]
    if not any(v.get("nontrivial") for v in verdicts):
        drift.append("vacuous: no scenario was parsed and evaluated by the models")
    return {"name": "ExprEval", "kind": "replay", "module": "ExprEval", "states": jstates, "validated": len(verdicts) - len(bad),
            "rejected": len(bad), "drift": drift, "wall_s": round(time.time() - t0, 1)}


def conformance(tier, seed):
    return [dict(name="ExprKey", run=_exprkey_conformance), dict(name="ExprEval", run=_expreval_conformance)]


def generators(tier, seed):
    return [dict(module="MC_C15", workers=4)]

MANIFEST = dict(
    design_ref="DESIGN.md §5 C15",
    text="TLC enumerates arithmetic expression trees (Polish notation), confusable column pairs, WHERE-on-expression queries and multi-column lists; each is run on world W15 and Judge_C15 recomputes every cell with Arith.tla (structural recursion; precedence and associativity live in the renderer ArithText, so a parser that groups differently yields different values). The Mech models Parser!ParseFields + ExprEval (get_column_expr_value with its per-row cache) are checked against Arith by MC_ExprEvalMech and bound to the binary by Judge_ExprEval (DRIFT).",
    note="Trusted: TLC, Arith/Eval, lstat values. Only exact divisions and non-negative modulo are judged; trees with at most two binary operators (plus unary minus).",
    technique="TLC expression enumeration + replay + TLA+ judge")
