"""C17 - one failing directory, file or reader never spoils the rest of the search."""
ID = "C17"
LEVEL = "fault_enumeration"
JUDGE = "Judge_C17"
RULE = ("Fault enumeration by TLC: every set of at most two of the four directories made unlistable and a root that is a regular file "
        "(searched as uid 65534) x streamed / ordered / aggregate x bfs/dfs; every set of at most two of the five files made unreadable "
        "x metadata / content-derived / aggregate columns; standard output failing with EPIPE after k bytes for every k in 0..3300 step 7 "
        "(thorough: every k in 0..4000) x six formats x four result paths on a 40-file directory (3-5 KB streams). Judge_C17 checks rows "
        "outside the fault, the named path, the exit status, empty content columns, unaffected aggregates, and that the delivered bytes "
        "are a prefix of the fault-free stream with status 0/1 and no crash report. Non-trivial = a fault is actually injected.")
ASSUMPTIONS = ["the LD_PRELOAD shim's EPIPE after k bytes stands for a consumer that closed the pipe", "setpriv drops to uid 65534"]
POOL = 12


def generators(tier, seed):
    return [dict(module="MC_C17", cfg="MC_C17_q" if tier == "quick" else "MC_C17_t", workers=4)]

MANIFEST = dict(
    design_ref="DESIGN.md §5 C17",
    text="TLC enumerates the fault points: sets of unlistable directories and unreadable files (search run unprivileged), a non-directory root, and every close offset of standard output x formats x result paths; each faulty run is recorded next to what is needed to judge it (inode map, stderr mentions, the fault-free byte stream) and Judge_C17 validates isolation: rows outside the fault intact, failing path named, status 1 / 0, content columns empty, aggregates unaffected, delivered bytes a prefix, no crash.",
    note="Trusted: TLC, setpriv, the write-interposing shim. The wording of diagnostics, the status (0 or 1) after a closed pipe and the delivered prefix length are left open; vanished directories (races) are not injected.",
    technique="TLC fault enumeration + replay with injected faults + TLA+ judge")
