"""C11 - documented alternative spellings of a query denote the same query."""
ID = "C11"
LEVEL = "model_checking"
JUDGE = "Judge_C11"
RULE = ("27 base queries written as sequences of slots (alternatives from the documentation tables: operators, columns, functions, "
        "root options, arithmetic words, bracket kinds, optional select / commas / asc / ()); TLC enumerates every single-slot "
        "substitution and every upper / mixed case form of every word token, each passed as one argument, as one argument per token "
        "(thorough: also split at every single boundary); the canonical and the variant rendering are run with debug = true and "
        "Judge_C11 requires identical parsed-query dumps and identical output. Non-trivial = the canonical query prints rows.")
ASSUMPTIONS = ["the binary's Debug dump of the parsed Query identifies the parsed query",
               "a partial split that leaves a multi-token word right after FROM is not generated (root paths with blanks are a lexer feature)"]


def mech(tier, seed):
    # the lexer mechanism: split invariance (with the named root-word deviation) on all symbol strings up to MaxLen
    # (coverage instrumentation of the recursive scanner is very slow: off)
    return [dict(module="MC_Lexer", cfg="MC_Lexer_q", workers=8, actions=[], coverage=False),
            # vacuity guard: without the named root-word deviation the law must fail
            dict(module="MC_Lexer", cfg="MC_Lexer_strict", workers=2, actions=[], coverage=False, expect_violation="SplitInvarianceStrict")]


def conformance(tier, seed):
    # spec -> implementation: every generated string is lexed by the real binary (debug dump) and by Lexer!LexAll
    return [dict(name="Lexer", module="MC_Lexer", cfg="MC_Lexer_gen", judge="Judge_Lexer", workers=6,
                 limit=6000 if tier == "quick" else None)]


def generators(tier, seed):
    return [dict(module="MC_C11", cfg="MC_C11_q" if tier == "quick" else "MC_C11_t", workers=4)]

MANIFEST = dict(
    design_ref="DESIGN.md §5 C11",
    text="TLC enumerates, for 27 base queries, every single alias / optional-token / bracket substitution and every letter-case form of each word token, in one-argument and split renderings; each variant is run next to the canonical rendering with debug = true; Judge_C11 compares the recorded parsed-query dumps and outputs.",
    note="Trusted: TLC, the driver's syntactic extraction of the dbg! block. One substitution at a time (thorough adds every single split point); mp3/exif column aliases are not covered (no sample files in the generated worlds).",
    technique="TLC rendering enumeration + paired replay + TLA+ judge on parsed-query dumps and rows")
