"""C02 - WHERE comparisons mean what the documentation says."""
ID = "C02"
LEVEL = "model_checking"
JUDGE = "Judge_Filter"
RULE = ("TLC enumerates every atom (column, operator, literal) of MC_C02!Atoms over world W2 (14 entries realising the "
        "literal values and their neighbours); each atom is one run `select path from '.' where <atom>`; Judge_Filter "
        "accepts iff Must(atom) <= rows <= Must+May under Eval.tla. Non-trivial = the atom is true of some but not all entries.")
ASSUMPTIONS = ["lstat values recorded by the driver are the entry's real attributes",
               "rows are identified by the path text './'+relative path (root '.' and cwd = world top)"]


def generators(tier, seed):
    return [dict(module="MC_C02", workers=2)]
