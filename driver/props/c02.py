"""C02 - WHERE comparisons mean what the documentation says."""
ID = "C02"
LEVEL = "model_checking"
JUDGE = "Judge_Filter"
RULE = ("TLC enumerates every atom (column, operator, literal) of MC_C02!Atoms over world W2 (14 entries realising the "
        "literal values and their neighbours); each atom is one run `select path from '.' where <atom>`; Judge_Filter "
        "accepts iff Must(atom) <= rows <= Must+May under Eval.tla. Non-trivial = the atom is true of some but not all entries. "
        "A second generator (MC_C02r) draws pseudo-random trees from WorldRnd (quick 2, thorough 24) and compares every int / text / date column with literals taken from that tree's own values and their neighbours v-1, v+1.")
ASSUMPTIONS = ["lstat values recorded by the driver are the entry's real attributes",
               "rows are identified by the path text './'+relative path (root '.' and cwd = world top)"]


def mech(tier, seed):
    # Mech => Prop for the whole WHERE path: Lexer + Parser + Conforms (the evaluator and its literal conversions) compute, for every
    # formula over the atom tables and every entry of W3, the truth value Eval!EvalP gives - wherever both are defined
    return [dict(module="MC_ConformsMech", cfg="MC_ConformsMech_q" if tier == "quick" else "MC_ConformsMech_t",
                 workers=8 if tier == "quick" else 12, actions=[], coverage=False),
            # ... and for every single comparison of MC_C02 over the columns the mechanism models cover, on every entry of W2x
            dict(module="MC_ConformsMech2", cfg="MC_ConformsMech2", workers=8, actions=[], coverage=False)]


def generators(tier, seed):
    # the fixed world W2x with the hand-picked literals, then pseudo-random trees (WorldRnd) with literals drawn from each tree's own
    # attribute values and their neighbours (quick: 2 trees, thorough: 24)
    return [dict(module="MC_C02", workers=2), dict(module="MC_C02r", cfg="MC_C02r_q" if tier == "quick" else "MC_C02r_t", workers=4)]

MANIFEST = dict(
    design_ref='DESIGN.md §5 C02',
    text='TLC enumerates ~1000 atoms (column x operator x literal on the value / neighbour grid, BETWEEN, column-vs-column, quoted keywords) over world W2; each is one run of the real binary; Judge_Filter accepts a run iff Must(atom) <= rows <= Must+May under the typed comparison semantics of Eval.tla (three-valued where the documentation is silent).',
    note='Trusted: TLC, Eval/Match/Civil/Chars, lstat values recorded by the driver (size, uid, gid, nlink, mode, mtime). One fixed world of 14 entries; text patterns kept simple (C12 owns pattern corner cases).',
    technique='TLC atom enumeration + replay + TLA+ judge (Eval.tla reference semantics)')
