"""C01 - traversal is exact (depth window, bfs/dfs order)."""
ID = "C01"
LEVEL = "model_checking"
JUDGE = "Judge_C01"
RULE = ("TLC enumerates every forest (canonical parent order) with <= MaxN nodes over the kinds of the cfg, "
        "every root list (top directory, one sub-directory, two disjoint sub-directories in both orders) and every "
        "mindepth/maxdepth pair in 0..depth+2; each scenario is run in bfs and dfs mode against the real binary and "
        "judged by Judge_C01 (World!Listed + BfsMonotone + DfsContiguous). Non-trivial = the window lists something "
        "but not everything.")
ASSUMPTIONS = ["rows are identified by the inode number the OS reports for the entry (lstat)",
               "the list output format separates cells with NUL"]


def mech(tier, seed):
    acts = ["NextRoot", "PickEntry", "EndOfDir", "Dequeue"]
    if tier == "quick":
        return [dict(module="Walker", cfg="Walker_q", workers=8, actions=acts)]
    return [dict(module="Walker", cfg="Walker_q", workers=10, actions=acts),
            dict(module="Walker", cfg="Walker_t", workers=12, actions=acts)]


def generators(tier, seed):
    if tier == "quick":
        return [dict(module="MC_C01", cfg="MC_C01_q1", workers=4, limit=12000),
                dict(module="MC_C01", cfg="MC_C01_q2", workers=4, limit=12000)]
    return [dict(module="MC_C01", cfg="MC_C01_q1", workers=8),
            dict(module="MC_C01", cfg="MC_C01_q2", workers=8)]

MANIFEST = dict(
    design_ref='DESIGN.md §5 C01',
    text='TLC enumerates every forest / root list / depth window within the bound (MC_C01); each scenario is replayed in bfs and dfs mode against the real binary and every recorded behaviour is validated by the TLA+ trace judge Judge_C01 (exact set, no duplicate, bfs level-monotone, dfs subtree-contiguous, all from World.tla). The walker mechanism (Walker.tla, one action per loop iteration of visit_dir) is model-checked against the same Prop definitions for every readdir order, with termination.',
    note="Trusted: TLC, World.tla, the driver's materialisation, lstat inode numbers as row identity. Bounded: forests of <= 4 nodes over {dir,file,symlink,fifo} and <= 5 nodes over {dir,file}; windows 0..depth+2; quick samples 24 000 of the 153 000 scenarios, thorough runs all.",
    technique='TLC scenario enumeration + replay into the binary + TLA+ trace judge; TLC model checking of the Walker mechanism')
