"""C01 - traversal is exact (depth window, bfs/dfs order)."""
ID = "C01"
LEVEL = "model_checking"
JUDGE = "Judge_C01"
RULE = ("TLC enumerates every forest (canonical parent order) with <= MaxN nodes over the kinds of the cfg, "
        "every root list (top directory, one sub-directory, two disjoint sub-directories in both orders) and every "
        "mindepth/maxdepth pair in 0..depth+2; each scenario is run in bfs and dfs mode against the real binary and "
        "judged by Judge_C01 (World!Listed + BfsMonotone + DfsContiguous). Non-trivial = the window lists something "
        "but not everything.")
ASSUMPTIONS = ["rows are identified by the inode number the OS reports for the entry (lstat)",
               "the list output format separates cells with NUL"]


def mech(tier, seed):
    acts = ["NextRoot", "PickEntry", "EndOfDir", "Dequeue"]
    if tier == "quick":
        return [dict(module="Walker", cfg="Walker_q", workers=8, actions=acts)]
    return [dict(module="Walker", cfg="Walker_q", workers=10, actions=acts),
            dict(module="Walker", cfg="Walker_t", workers=12, actions=acts)]


def generators(tier, seed):
    if tier == "quick":
        return [dict(module="MC_C01b", cfg="MC_C01b", workers=2), dict(module="MC_C01", cfg="MC_C01_q1", workers=4, limit=12000),
                dict(module="MC_C01", cfg="MC_C01_q2", workers=4, limit=12000)]
    return [dict(module="MC_C01b", cfg="MC_C01b", workers=2), dict(module="MC_C01", cfg="MC_C01_q1", workers=8),
            dict(module="MC_C01", cfg="MC_C01_q2", workers=8)]

MANIFEST = dict(
    design_ref='DESIGN.md §5 C01',
    text='TLC enumerates every forest / root list / depth window within the bound (MC_C01); each scenario is replayed in bfs and dfs mode against the real binary and every recorded behaviour is validated by the TLA+ trace judge Judge_C01 (exact set, no duplicate, bfs level-monotone, dfs subtree-contiguous, all from World.tla). The walker mechanism (Walker.tla, one action per loop iteration of visit_dir) is model-checked against the same Prop definitions for every readdir order, with termination.',
    note="Trusted: TLC, World.tla, the driver's materialisation, lstat inode numbers as row identity. Bounded: forests of <= 4 nodes over {dir,file,symlink,fifo} and <= 5 nodes over {dir,file}; windows 0..depth+2; quick samples 24 000 of the 153 000 scenarios, thorough runs all.",
    technique='TLC scenario enumeration + replay into the binary + TLA+ trace judge; TLC model checking of the Walker mechanism')


def _trace_conformance(ctx, tier, seed):
    """White-box trace validation: the real visit_dir (hooks on) logs one event per Walker action; Trace_Walker replays
    every recorded run through the Walker actions (implementation -> specification)."""
    import json
    import os
    import random
    import time
    from driver import lib, check
    t0 = time.time()
    r = lib.run_tlc("MC_C01", "MC_C01_q1", workers=4)
    lib.tlc_ok(r, "MC_C01")
    scs = r.replays
    random.Random(seed + 1).shuffle(scs)
    scs = scs[:300 if tier == "quick" else 3000]
    recs = []
    for k, scn in enumerate(scs):
        w, snap = ctx.world(scn["world"], None)
        for run in scn["runs"]:
            tf = os.path.join(ctx.scratch, "trace.%d.%s" % (k, run["tag"]))
            argv = [check.subst(a, w) for a in run["argv"]]
            lib.run_fselect(argv, w.paths[0], w.home, extra_env={"FSELECT_VERIF_TRACE": tf})
            events = [json.loads(x) for x in open(tf)] if os.path.exists(tf) else []
            recs.append({"id": len(recs) + 1, "world": scn["world"], "roots": scn["roots"], "min": scn["min"], "max": scn["max"],
                         "dfs": run["tag"] == "dfs", "limit": 0, "snapshot": snap, "rootino": str(os.stat(w.paths[0]).st_ino),
                         "events": [{"ev": e["ev"], "ino": e.get("ino", ""), "reported": e.get("reported", False),
                                     "descend": e.get("descend", "")} for e in events if e["ev"] in lib.WALK_EVENTS], "argv": argv})
    res = lib.validate_traces(ctx, "Trace_Walker", recs, shards=8)
    res.update({"name": "Walker", "wall_s": round(time.time() - t0, 1)})
    return res


def conformance(tier, seed):
    return [dict(name="Walker", run=_trace_conformance)]
