"""C05 - ORDER BY output is sorted by the requested keys and loses or invents no row."""
ID = "C05"
LEVEL = "model_checking"
JUDGE = "Judge_C05"
RULE = ("TLC enumerates every key list of length 1..MaxKeys over KeyCols (distinct columns) x directions (implicit asc, "
        "explicit asc, desc) x select style (keys not selected / selected / positional) x WHERE on/off over world W5 "
        "(22 entries, ties, sizes 2/9/10/100, link counts 1/2/12); two runs per scenario (without / with ORDER BY); "
        "Judge_C05 checks permutation and pairwise key order with typed comparison from the world. "
        "Non-trivial = at least 3 rows and the unordered output is not already sorted.")
ASSUMPTIONS = ["lstat size/nlink/mtime as ground truth", "string order = code-point order (ASCII names)"]


def generators(tier, seed):
    if tier == "quick":
        return [dict(module="MC_C05", cfg="MC_C05_q", workers=4)]
    return [dict(module="MC_C05", cfg="MC_C05_t", workers=8)]
