"""C05 - ORDER BY output is sorted by the requested keys and loses or invents no row."""
ID = "C05"
LEVEL = "model_checking"
JUDGE = "Judge_C05"
RULE = ("TLC enumerates every key list of length 1..MaxKeys over KeyCols (distinct columns) x directions (implicit asc, "
        "explicit asc, desc) x select style (keys not selected / selected / positional) x WHERE on/off over world W5 "
        "(22 entries, ties, sizes 2/9/10/100, link counts 1/2/12); two runs per scenario (without / with ORDER BY); "
        "Judge_C05 checks permutation and pairwise key order with typed comparison from the world. "
        "Non-trivial = at least 3 rows and the unordered output is not already sorted. "
        "The key lists of length <= 2 are also run over pseudo-random trees (WorldRnd; quick: 3000 sampled over 2 trees, thorough: 40 000 sampled over 8 trees). Thorough runs a seeded sample of 300 000 of the 1.28 million enumerated key lists.")
ASSUMPTIONS = ["lstat size/nlink/mtime as ground truth", "string order = code-point order (ASCII names)"]


def generators(tier, seed):
    if tier == "quick":
        return [dict(module="MC_C05", cfg="MC_C05_q", workers=4), dict(module="MC_C05", cfg="MC_C05_r", workers=4, limit=3000),
                # lists of three text keys with mixed directions
                dict(module="MC_C05", cfg="MC_C05_3", workers=4, limit=2500)]
    # (pseudo-random trees of WorldRnd next to the fixed world)
    # (1.28 million key lists x styles are enumerated; a seeded sample of them is run - the driver keeps every record in memory)
    return [dict(module="MC_C05", cfg="MC_C05_t", workers=8, limit=300000), dict(module="MC_C05", cfg="MC_C05_rt", workers=8, limit=40000),
            dict(module="MC_C05", cfg="MC_C05_3", workers=4)]

MANIFEST = dict(
    design_ref='DESIGN.md §5 C05',
    text="TLC enumerates key lists (length <= 2 quick / <= 3 thorough) x directions x select style (not selected / selected / positional) x WHERE over world W5 (ties, 9/10/100, link counts 1/2/12); the run with ORDER BY must be a permutation of the run without and pairwise ordered under Order.tla's typed key comparison (keys taken from the world, so they need not be selected).",
    note='Trusted: TLC, Order/Eval, lstat values. Thorough: seeded sample of 300 000 of the 1.28 million enumerated scenarios (memory). One world of 22 entries; ASCII names (code-point order).',
    technique='TLC key-list enumeration + paired replay + TLA+ judge')
