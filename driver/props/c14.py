"""C14 - size literals and size formatting follow the documented unit tables."""
ID = "C14"
LEVEL = "model_checking"
JUDGE = "Judge_C14"
SHARED_WORLD = True
RULE = ("Literals: TLC enumerates every unit spelling (14 units, every letter-case variant) x numbers 1, 2, 1.5, 0.5 x six "
        "operators; the world has sparse files of multiplier*n-1, multiplier*n, multiplier*n+1 (up to 2 TiB + 1); Judge_C14 "
        "compares lstat sizes with the literal's value as BigNat. Formatting: TLC enumerates specifiers (precision x space x "
        "flag set x unit) and every specifier is rendered for 43 sizes (0 .. 2^50, +-1 neighbours); the judge parses each "
        "rendering by the grammar, checks unit family/level/precision/space, closeness within one unit of the last displayed "
        "place and monotonicity along the grid. Non-trivial = the comparison selects some but not all files / any format scenario.")
ASSUMPTIONS = ["sparse files report the intended st_size", "the number of decimals without %.N and the rounding mode are left open"]


def mech(tier, seed):
    # Mech => Prop: the number of bytes parse_filesize (SizeMech: lower-casing, the endings in the order of the code, decimal number,
    # multiplication, rounding) reads out of the characters of every generated literal is the value of the documented unit table
    return [dict(module="MC_SizeMech", cfg="MC_SizeMech", workers=2, actions=[], coverage=False)]


def conformance(tier, seed):
    # spec -> implementation: the rows of the binary against what the Mech model reads out of the characters of each literal
    return [dict(name="SizeMech", module="MC_SizeMech", cfg="MC_SizeMech_gen", judge="Judge_SizeMech", workers=2, shared_world=True, limit=1500 if tier == "quick" else None)]


def generators(tier, seed):
    return [dict(module="MC_C14", cfg="MC_C14_q" if tier == "quick" else "MC_C14_t", workers=4)]

MANIFEST = dict(
    design_ref="DESIGN.md §5 C14",
    text="TLC enumerates unit spellings x numbers x operators (literals) and specifier strings x a size grid (formatting); literal scenarios run against sparse files at multiplier*n-1/0/+1 and are judged with BigNat arithmetic from the documented unit table; each rendering is parsed by the specifier grammar in TLA+ and checked for unit, precision, spacing, closeness and monotonicity.",
    note="Trusted: TLC, BigNat, lstat sizes of sparse files. Left open: decimals without %.N, rounding mode, automatic unit choice; the conventional flag combined with decimal unit names is not generated (undocumented).",
    technique="TLC enumeration + replay + TLA+ judge (BigNat unit arithmetic, rendering grammar)")
