"""C03 - AND / OR / NOT / brackets obey Boolean algebra."""
ID = "C03"
LEVEL = "model_checking"
JUDGE = "Judge_Filter"
RULE = ("TLC enumerates every formula in Polish notation with <= MaxOps connectives (and/or/prefix not) over five leaves "
        "(three atoms plus the documented infix negations `not between` / `not like` or their operator duals) for three atom "
        "tables covering all 13 operator kinds; each formula is rendered with minimal and with full (round/curly) brackets and "
        "run on world W3 (all 8 truth assignments, entries on the comparison boundaries). Judge_Filter evaluates the formula "
        "with three-valued Boolean semantics (Eval!EvalP). Non-trivial = true of some but not all entries. "
        "The formulas with <= 2 connectives are also run over pseudo-random trees (WorldRnd; quick: 3000 sampled over 3 trees, thorough: all over 10 trees).")
ASSUMPTIONS = ["rows are identified by './'+relative path"]


def mech(tier, seed):
    # Mech => Prop for the parser: the AST Parser!ParseWhere builds from the rendered text of every formula has, under every
    # truth assignment of the atoms, the value of the formula (Lexer and Parser models composed; NOT folding, De Morgan, brackets)
    return [dict(module="MC_ParserMech", cfg="MC_ParserMech_q" if tier == "quick" else "MC_ParserMech_t",
                 workers=8 if tier == "quick" else 12, actions=[], coverage=False)]


def generators(tier, seed):
    if tier == "quick":
        return [dict(module="MC_C03L", cfg="MC_C03L", workers=2), dict(module="MC_C03", cfg="MC_C03_q2", workers=4),
                dict(module="MC_C03", cfg="MC_C03_q", workers=4, limit=6000),
                dict(module="MC_C03", cfg="MC_C03_r", workers=4, limit=3000)]         # pseudo-random trees (WorldRnd)
    return [dict(module="MC_C03L", cfg="MC_C03L", workers=2), dict(module="MC_C03", cfg="MC_C03_q", workers=8), dict(module="MC_C03", cfg="MC_C03_rt", workers=8)]

MANIFEST = dict(
    design_ref='DESIGN.md §5 C03',
    text='TLC enumerates every Boolean formula (Polish notation) with <= 3 connectives over five leaves for three atom tables covering all 13 operator kinds, rendered with minimal and with full round/curly brackets; each is run on world W3 (all 8 truth assignments, boundary entries) and judged by Judge_Filter with three-valued Boolean evaluation (Eval!EvalP). MC_C03L adds the laws as relations between the outputs of several queries (complement, double negation, and/or, De Morgan, precedence) over atoms whose meaning Prop leaves open (text ordering, text operators on numbers, boolean ordering, operator words in other letter cases).',
    note='Trusted: TLC, Eval.tla, Lang.tla rendering. Quick: all formulas with <= 2 connectives plus 6000 sampled of the 189 120 with <= 3; thorough: all.',
    technique='TLC formula enumeration + replay + TLA+ judge')


def _parser_conformance(ctx, tier, seed):
    """Spec -> implementation replay for the Lexer + Parser Mech models: every formula of the small generator is parsed by the
    real binary (debug = true dump of the Query) and by Parser!ParseWhere(Lexer!LexAll(..)); the two ASTs must be equal."""
    import random
    import time
    from driver import lib, check, rustdbg
    t0 = time.time()
    r = lib.run_tlc("MC_C03", "MC_C03_q2", workers=4)
    lib.tlc_ok(r, "MC_C03")
    scs = r.replays
    if tier == "quick" and len(scs) > 3000:
        random.Random(seed + 2).shuffle(scs)
        scs = scs[:3000]

    def strip(v):
        """Expr dicts: drop the struct name; absent Expr / argument lists get a shape of their own (see Parser.tla)."""
        if isinstance(v, dict):
            d = {k: strip(x) for k, x in v.items() if k != "_"}
            if "left" in d and "args" in d:
                for k in ("left", "right"):
                    if d[k] == "None":
                        d[k] = {"none": True}
                d["args"] = {"some": False, "list": []} if d["args"] == "None" else {"some": True, "list": d["args"]}
                d["val"] = {"some": False, "c": []} if d["val"] == "None" else {"some": True, "c": list(d["val"])}
            return d
        if isinstance(v, list):
            return [strip(x) for x in v]
        return v

    def ex(item):
        i, scn = item
        scn = dict(scn, id=i + 1)
        scn["env"] = dict(scn["env"], config={"debug": True})
        rec = check.default_execute(scn, ctx)
        o = rec["obs"]["q"]
        try:
            q = rustdbg.parse(o.get("parsed") or "None")
        except Exception:
            q = "unparsable"
        expr = strip(q.get("expr", "None")) if isinstance(q, dict) else "None"
        if expr == "None":
            expr = {"none": True}
        return {"id": i + 1, "class": scn["class"], "queryc": list(scn["runs"][0]["argv"][0]), "runs": scn["runs"],
                "obs": {"q": {"status": o["status"], "timed_out": o["timed_out"], "panic": o["panic"], "expr": expr}}}
    obs = lib.pmap(ex, list(enumerate(scs)), workers=14)

    class P:
        pass
    P.ID = "Parser"
    P.JUDGE = "Judge_Parser"
    verdicts, jstates = check.judge(P, obs, ctx)
    bad = [v for v in verdicts if not v["ok"]]
    byid = {o["id"]: o for o in obs}
    import json
    drift = ["%s argv=%s" % (v["why"], json.dumps(byid[v["id"]]["runs"][0]["argv"])[:220]) for v in bad[:8]]
    return {"name": "Parser", "kind": "replay", "module": "Parser", "states": jstates, "validated": len(verdicts) - len(bad),
            "rejected": len(bad), "drift": drift, "wall_s": round(time.time() - t0, 1)}


def conformance(tier, seed):
    return [dict(name="Parser", run=_parser_conformance)]
