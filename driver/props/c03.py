"""C03 - AND / OR / NOT / brackets obey Boolean algebra."""
ID = "C03"
LEVEL = "model_checking"
JUDGE = "Judge_Filter"
RULE = ("TLC enumerates every formula in Polish notation with <= MaxOps connectives (and/or/prefix not) over five leaves "
        "(three atoms plus the documented infix negations `not between` / `not like` or their operator duals) for three atom "
        "tables covering all 13 operator kinds; each formula is rendered with minimal and with full (round/curly) brackets and "
        "run on world W3 (all 8 truth assignments, entries on the comparison boundaries). Judge_Filter evaluates the formula "
        "with three-valued Boolean semantics (Eval!EvalP). Non-trivial = true of some but not all entries.")
ASSUMPTIONS = ["rows are identified by './'+relative path"]


def generators(tier, seed):
    if tier == "quick":
        return [dict(module="MC_C03", cfg="MC_C03_q2", workers=4),
                dict(module="MC_C03", cfg="MC_C03_q", workers=4, limit=8000)]
    return [dict(module="MC_C03", cfg="MC_C03_q", workers=8)]

MANIFEST = dict(
    design_ref='DESIGN.md §5 C03',
    text='TLC enumerates every Boolean formula (Polish notation) with <= 3 connectives over five leaves for three atom tables covering all 13 operator kinds, rendered with minimal and with full round/curly brackets; each is run on world W3 (all 8 truth assignments, boundary entries) and judged by Judge_Filter with three-valued Boolean evaluation (Eval!EvalP).',
    note='Trusted: TLC, Eval.tla, Lang.tla rendering. Quick: all formulas with <= 2 connectives plus 8000 sampled of the 189 120 with <= 3; thorough: all.',
    technique='TLC formula enumeration + replay + TLA+ judge')
