"""C20 - ignore-file options remove exactly the ignored entries."""
ID = "C20"
LEVEL = "model_checking"
JUDGE = "Judge_C20"
RULE = ("TLC enumerates ignore files of 1..2 (thorough: 3) lines from 10 glob forms (literal, *.ext, directory, dir/*.ext, **/name, "
        "?, nested path, !negation, comment, blank) and 3 regexp forms (hg), for git, docker, hg-glob and hg-regexp, x root spelling "
        "(., relative, absolute, sub-directory, `.` inside a sub-directory) x activation (option, config default, `no...` override) over "
        "a 14-entry tree; Judge_C20 compares the rows (by inode) with git's own `git check-ignore` verdicts resp. the reference "
        "matchers of Ignore.tla. Non-trivial = something but not everything is ignored. Mech: IgnoreMech models the translation of a line "
        "into regular-expression pieces (hg.rs / docker.rs); MC_IgnoreMech shows it equivalent to Ignore.tla on all short lines x paths.")
ASSUMPTIONS = ["`git check-ignore` (run by the driver in the materialised repository) is git's verdict",
               "Ignore.tla renders hgignore(5) and the .dockerignore rules for the generated pattern subset"]
POOL = 10


def mech(tier, seed):
    # Mech => Prop: the matchers that hg.rs / docker.rs build from the characters of a line (IgnoreMech) give the verdicts of the
    # reference matchers (Ignore) for every line up to MaxLen characters on every well-formed path up to MaxPath characters
    return [dict(module="MC_IgnoreMech", cfg="MC_IgnoreMech_q" if tier == "quick" else "MC_IgnoreMech_t", workers=8, actions=[], coverage=False)]


def conformance(tier, seed):
    # spec -> implementation: the hg / docker scenarios are run and the rows compared with what the modelled matcher lets through
    return [dict(name="IgnoreMech", module="MC_C20", cfg="MC_C20_q", judge="Judge_IgnoreMech", workers=4,
                 limit=2500 if tier == "quick" else None)]


def generators(tier, seed):
    return [dict(module="MC_C20g", cfg="MC_C20g", workers=2), dict(module="MC_C20h", cfg="MC_C20h", workers=2), dict(module="MC_C20", cfg="MC_C20_q" if tier == "quick" else "MC_C20_t", workers=4)]

MANIFEST = dict(
    design_ref="DESIGN.md §5 C20",
    text="TLC enumerates ignore files (pattern forms x lines), tools, root spellings and activation modes; each is one run; Judge_C20 requires the rows to be exactly the entries that the tool's rules do not ignore: git's verdict is recorded from `git check-ignore`, Mercurial's and Docker's rules are the TLA+ reference matchers of Ignore.tla (path-aware globs, unrooted vs rooted patterns, last-match-wins negation). The Mech model IgnoreMech (line -> regular-expression pieces, hg / docker folds) is checked equivalent to Ignore.tla by MC_IgnoreMech and bound to the binary by Judge_IgnoreMech (DRIFT); MC_C20g adds several repositories below a root outside of them; MC_C20h one query over two roots that each hold their own .hgignore / .dockerignore (every entry judged by the rules of its own root).",
    note="Trusted: TLC, Ignore/Regex, git check-ignore. Pattern subset of the quantifier only; re-inclusion below an excluded directory, character classes and subinclude are not generated.",
    technique="TLC enumeration + replay + TLA+ judge (reference matchers; git as recorded oracle)")
