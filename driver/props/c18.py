"""C18 - following symlinks finds what is behind them, once, and always terminates."""
ID = "C18"
LEVEL = "model_checking"
JUDGE = "Judge_C18"
RULE = ("TLC decorates a fixed skeleton (root with two sub-trees, a sibling tree outside the root) with one link (thorough: two, incl. "
        "chains and mutual pairs): 3 positions x 10 targets (directory inside / outside / above the root, ancestor, the root, a file, "
        "dangling) x absolute / link-relative text x root spelled '.', relative, absolute x bfs/dfs; runs with and without `symlinks`, "
        "10 s bound; Judge_C18 computes the reachable real directories as a fixpoint and requires the rows (by inode) to be exactly "
        "their entries, once each, status 0. Non-trivial = following the link changes the expected set.")
ASSUMPTIONS = ["inode numbers identify real entries", "10 s wall-clock bound stands for termination"]


def mech(tier, seed):
    # the walk with links (WalkerL): every world <= 3 nodes (thorough: 4) with <= 2 links, every root / window / mode / readdir order:
    # termination, each real directory entered once, rows = World!Behind (following) / World!Listed (not)
    return [dict(module="WalkerL", cfg="WalkerL_q" if tier == "quick" else "WalkerL_t", workers=8 if tier == "quick" else 12, actions=[], coverage=False),
            # vacuity guard: a link back to the root is taken (and its activation refused) somewhere in the state space
            dict(module="WalkerL", cfg="WalkerL_vac", workers=2, actions=[], coverage=False, expect_violation="NoLinkToRootTaken")]


def _num(text, word):
    """The number after a root option word, 0 when the word is absent."""
    import re
    m = re.search(re.escape(word) + r"(\d+)", text)
    return int(m.group(1)) if m else 0


def _trace_conformance(ctx, tier, seed):
    """White-box trace validation: real runs of the C18 scenarios (hooks on), with and without `symlinks`, are replayed
    through the WalkerL actions by Trace_WalkerL (implementation -> specification)."""
    import json
    import os
    import random
    import time
    from driver import lib, check
    t0 = time.time()
    r = lib.run_tlc("MC_C18", "MC_C18_t", workers=4)
    lib.tlc_ok(r, "MC_C18")
    scs = r.replays
    random.Random(seed + 2).shuffle(scs)
    recs = []
    scs = [x for x in scs if len(x["roots"]) == 1]          # WalkerL has one root (several roots are Walker's)
    if tier == "quick":
        scs = scs[:400]
    for k, scn in enumerate(scs):
        w, snap = ctx.world(scn["world"], None)
        for run in scn["runs"]:
            tf = os.path.join(ctx.scratch, "tracel.%d.%s" % (k, run["tag"]))
            argv = [check.subst(a, w) for a in run["argv"]]
            cwd = w.paths[scn["env"]["cwd"]]
            lib.run_fselect(argv, cwd, w.home, extra_env={"FSELECT_VERIF_TRACE": tf}, timeout=10)
            events = [json.loads(x) for x in open(tf)] if os.path.exists(tf) else []
            recs.append({"id": len(recs) + 1, "world": scn["world"], "root": scn["root"], "dfs": " dfs " in run["argv"][0],
                         "follow": run["tag"] == "follow", "snapshot": snap,
                         "min": _num(run["argv"][0], " mindepth "), "max": _num(run["argv"][0], " maxdepth "), "topino": str(os.stat(w.paths[0]).st_ino),
                         "events": [{"ev": e["ev"], "ino": e.get("ino", ""), "reported": e.get("reported", False),
                                     "descend": e.get("descend", "")} for e in events if e["ev"] in lib.WALK_EVENTS], "argv": argv})
    res = lib.validate_traces(ctx, "Trace_WalkerL", recs, shards=8)
    res.update({"name": "WalkerL", "wall_s": round(time.time() - t0, 1)})
    return res


def conformance(tier, seed):
    return [dict(name="WalkerL", run=_trace_conformance)]


def generators(tier, seed):
    return [dict(module="MC_C18b", cfg="MC_C18b", workers=2), dict(module="MC_C18", cfg="MC_C18_t", workers=4)]

MANIFEST = dict(
    design_ref="DESIGN.md §5 C18",
    text="TLC enumerates link decorations of a skeleton tree (position x target kind x absolute/relative x root spelling x bfs/dfs; thorough: pairs, chains, mutual links); each is run with and without `symlinks`; Judge_C18 computes the set of real directories reachable through links as a fixpoint in TLA+ and requires the recorded rows (identified by inode) to be exactly the entries of those directories, once each, with status 0 and termination.",
    note="Trusted: TLC, World.tla, inode identity, the 10 s bound. Depth windows that cut are combined with one link only; an entry behind a link is due when every route reaches it inside the window (levels counted along the route), admissible when some does.",
    technique="TLC enumeration of link graphs + paired replay + TLA+ judge (reachability fixpoint)")
