"""C18 - following symlinks finds what is behind them, once, and always terminates."""
ID = "C18"
LEVEL = "model_checking"
JUDGE = "Judge_C18"
RULE = ("TLC decorates a fixed skeleton (root with two sub-trees, a sibling tree outside the root) with one link (thorough: two, incl. "
        "chains and mutual pairs): 3 positions x 10 targets (directory inside / outside / above the root, ancestor, the root, a file, "
        "dangling) x absolute / link-relative text x root spelled '.', relative, absolute x bfs/dfs; runs with and without `symlinks`, "
        "10 s bound; Judge_C18 computes the reachable real directories as a fixpoint and requires the rows (by inode) to be exactly "
        "their entries, once each, status 0. Non-trivial = following the link changes the expected set.")
ASSUMPTIONS = ["inode numbers identify real entries", "10 s wall-clock bound stands for termination"]


def generators(tier, seed):
    return [dict(module="MC_C18", cfg="MC_C18_t", workers=4)]

MANIFEST = dict(
    design_ref="DESIGN.md §5 C18",
    text="TLC enumerates link decorations of a skeleton tree (position x target kind x absolute/relative x root spelling x bfs/dfs; thorough: pairs, chains, mutual links); each is run with and without `symlinks`; Judge_C18 computes the set of real directories reachable through links as a fixpoint in TLA+ and requires the recorded rows (identified by inode) to be exactly the entries of those directories, once each, with status 0 and termination.",
    note="Trusted: TLC, World.tla, inode identity, the 10 s bound. Depth windows are not combined with links (the statement does not define depth behind a link).",
    technique="TLC enumeration of link graphs + paired replay + TLA+ judge (reachability fixpoint)")
