"""C04 - column values equal what the operating system and the file content say."""
ID = "C04"
LEVEL = "model_checking"
JUDGE = "Judge_C04"
RULE = ("Six scenario kinds, each with its own world built by MC_C04: all 4096 permission values on regular files and 64 on each of "
        "dir/fifo/socket/chr/blk plus a symlink (mode string, one-hot type booleans, permission booleans); the same modes as zip-entry "
        "modes for all 7 type codes; path decompositions on dot-files / several dots / upper-case extensions; the eight extension "
        "classes on every default extension in both letter cases with default and overridden lists; line_count / is_shebang / four "
        "digests / CONTAINS on all 259 byte strings of length <= 3 over {LF,#,!,a,NUL,0xff} and six multi-buffer contents; size, owners "
        "(incl. ids without a name), inode, link count, blocks, mtime text, xattrs and each of the 41 capabilities. Every cell of every "
        "row is compared by Judge_C04. Non-trivial = at least two rows judged.")
ASSUMPTIONS = ["lstat, hashlib digests and pwd/grp names recorded by the driver are ground truth",
               "has_xattrs/caps are not queried on FIFOs/sockets/devices (File::open would block): left open, see DESIGN"]
POOL = 6


def generators(tier, seed):
    return [dict(module="MC_C04", workers=2)]

MANIFEST = dict(
    design_ref="DESIGN.md §5 C04",
    text="TLC builds six worlds (all 4096 permission values x types on disk and as zip-entry modes, adversarial names, every default extension, all short byte strings and multi-buffer contents, owners/links/xattrs/all 41 capabilities) and one query per kind; Judge_C04 validates every cell of every recorded row against the Prop layer (Eval!ModeChars, Config!InClass, content model) and the lstat / hashlib ground truth.",
    note="Trusted: TLC, Eval/Config/Chars/Civil, lstat, hashlib, pwd/grp. Left open: abspath of symlinks, is_empty of special files, content columns of non-regular files, xattr columns on special files, letter order inside a capability's flag set.",
    technique="TLC world construction + replay + TLA+ judge (cell-by-cell)")
