"""C10 - any command line terminates with status 0, 1 or 2 - never a crash or a hang."""
ID = "C10"
LEVEL = "model_checking"
JUDGE = "Judge_C10"
RULE = ("TLC enumerates every token sequence of length 1..3 over a 35-token alphabet (44 135 command lines), every single "
        "(thorough: double) drop/duplicate/transpose/truncate mutation of four valid queries, the malformations and "
        "uninterpretable literals the statement lists, and option-like argument vectors; each is run against a non-empty tree "
        "with a 3 s bound; Judge_C10 requires termination, no panic, status in {0,1,2}, and status 2 + diagnostic (+ no output) "
        "for the listed rejections. Non-trivial = every scenario.")
ASSUMPTIONS = ["3 s wall-clock bound stands for 'terminates promptly' (a normal run takes 5 ms)", "stdin is /dev/null"]


def generators(tier, seed):
    if tier == "quick":
        return [dict(module="MC_C10", cfg="MC_C10_q", workers=4)]
    return [dict(module="MC_C10", cfg="MC_C10_q", workers=4), dict(module="MC_C10", cfg="MC_C10_t", workers=8)]

MANIFEST = dict(
    design_ref="DESIGN.md §5 C10",
    text="TLC enumerates token soups (all sequences of length <= 3 over 35 tokens), mutations of valid queries, the statement's malformation list, uninterpretable literals and option-like argument vectors; each is executed with a wall-clock bound and Judge_C10 accepts a recorded run only if it terminated, did not panic, exited 0/1/2 and - for the listed rejections - exited 2 with a diagnostic and no output. Also: trees with FIFOs, sockets and dangling links under queries that read content (must terminate), arguments that are not valid UTF-8, `~` roots, limits beyond the number of groups.",
    note="Trusted: TLC, the 3 s bound, panic detection by status 101 / 'panicked at' / death by signal. Soups of length <= 3 (thorough adds double mutations); longer soups only by mutation of valid queries.",
    technique="TLC enumeration of command lines + replay with a time bound + TLA+ judge")
