"""C08 - GROUP BY partitions the matching entries; per-group aggregates are exact."""
ID = "C08"
LEVEL = "model_checking"
JUDGE = "Judge_C08"
RULE = ("TLC enumerates 12 grouping key lists (6 keys, 6 pairs) x 5 aggregate lists x 3 filters x ORDER BY none / each key / "
        "each integer-valued aggregate x asc/desc over world W7; one run each; Judge_C08 checks the bijection between rows and "
        "distinct key tuples of the matching entries, every cell against Agg!AggOk on exactly that group, and the row order. "
        "Non-trivial = at least two groups and some group with more than one entry. "
        "The same scenarios are run over pseudo-random trees (WorldRnd; quick: 800 sampled over 2 trees, thorough: 6 trees); ORDER BY lists of two fields and grouping keys that are not selected are included.")
ASSUMPTIONS = ["lstat values as ground truth", "keys are always selected (ORDER BY on unselected keys is left open)"]
POOL = 8


def _pipeline_conformance(ctx, tier, seed):
    from driver import pipeline_conf
    return pipeline_conf.run(ctx, tier, seed, 'MC_C08', 'MC_C08', 300)


def conformance(tier, seed):
    # white-box: the writer / accept events of real runs of these scenarios are replayed through Pipeline.tla
    return [dict(name="Pipeline", run=_pipeline_conformance)]


def generators(tier, seed):
    # the fixed world W7, then pseudo-random trees (quick: 800 sampled scenarios over 2 trees, thorough: 6 trees)
    if tier == "quick":
        return [dict(module="MC_C08", workers=2), dict(module="MC_C08", cfg="MC_C08_r", workers=2, limit=800)]
    return [dict(module="MC_C08", workers=4), dict(module="MC_C08", cfg="MC_C08_rt", workers=4)]

MANIFEST = dict(
    design_ref="DESIGN.md §5 C08",
    text="TLC enumerates grouping key lists x aggregate lists x filters x ORDER BY variants over world W7; each query is run once and Judge_C08 validates the recorded rows: bijection with the distinct key tuples of the matching entries, each aggregate cell recomputed exactly (BigNat) on that group, rows sorted when ORDER BY names a key or an integer-valued aggregate.",
    note="Trusted: TLC, Agg/BigNat/Eval, lstat values. One world (13 entries); ORDER BY on decimal-valued aggregates and on unselected keys is left open (the statement does not fix it).",
    technique="TLC enumeration + replay + TLA+ judge (exact aggregates per partition)")
