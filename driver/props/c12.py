"""C12 - glob, LIKE, exact and regex matching agree with their textbook definitions."""
ID = "C12"
LEVEL = "model_checking"
JUDGE = "Judge_C12"
SHARED_WORLD = True
RULE = ("TLC builds every pattern of length <= 2 over the 20-character alphabet plus the operator's wildcards for =, !=, like, "
        "not like, ===, !== (3412 patterns) and regex element lists (element = literal or any, quantifier 1 * + ?, anchors) "
        "for =~ and !=~; each pattern is one run over the 420 names of world W12, i.e. 420 (pattern, subject) decisions per run; "
        "Judge_C12 recomputes the expected names with Match.tla / Regex.tla. Non-trivial = the pattern matches some but not all names.")
ASSUMPTIONS = ["rows are identified by name (all names distinct, one directory)",
               "wildcard-free = / != on names differing from the literal only by letter case is left open"]


def generators(tier, seed):
    if tier == "quick":
        return [dict(module="MC_C12", cfg="MC_C12_q", workers=4),
                dict(module="MC_C12", cfg="MC_C12_rx", workers=4, limit=2500),
                dict(module="MC_C12", cfg="MC_C12_mix", workers=2)]      # the same text as LIKE / glob pattern and as regular expression in one query
    return [dict(module="MC_C12", cfg="MC_C12_q", workers=4),
            dict(module="MC_C12", cfg="MC_C12_rx", workers=4), dict(module="MC_C12", cfg="MC_C12_mix", workers=2)]

MANIFEST = dict(
    design_ref="DESIGN.md §5 C12",
    text="TLC enumerates every pattern of length <= 2 over the alphabet (letters of both cases, digit, space, every regex metacharacter legal in a file name) plus wildcards, for all eight operators; each pattern is run once against 420 file names and Judge_C12 validates the returned set against the textbook matchers of Match.tla / Regex.tla (420 decisions per run).",
    note="Trusted: TLC, Match/Regex/Chars. Patterns of length <= 2 (regex: <= 2 elements); names of length <= 2. Quick samples 2500 of the 11 424 regex patterns.",
    technique="TLC pattern enumeration + replay + TLA+ judge (reference matchers)")
