"""C13 - date literals denote intervals; comparisons partition time consistently."""
ID = "C13"
LEVEL = "model_checking"
JUDGE = "Judge_C13"
SHARED_WORLD = True
RULE = ("TLC enumerates 15 absolute literals (month/year ends, leap day; day/hour/minute/second precision) x separator - or : x "
        "quoted/unquoted x 6 operators x zones UTC and UTC+3, and the relative literals today/yesterday/-2/+1 under three "
        "controlled clocks (incl. 23:59:59 on a 31st); the world has one file per instant a-1,a,a+1,b-1,b,b+1 of every "
        "literal's interval (some with sub-second parts); Judge_C13 decides each (instant, literal, operator) from the "
        "interval computed by Civil.tla and checks the text of `modified`. Non-trivial = some but not all instants selected.")
ASSUMPTIONS = ["the shim's frozen CLOCK_REALTIME is the clock fselect reads", "tzdata fixed-offset zone Etc/GMT-3 is UTC+3"]


def mech(tier, seed):
    # Mech => Prop: the interval that parse_datetime (DateMech: the date expression searched for in the characters of the literal,
    # relative words and day offsets) reads out of every generated literal is the wall-clock interval Prop gives it
    return [dict(module="MC_DateMech", cfg="MC_DateMech", workers=2, actions=[], coverage=False)]


def conformance(tier, seed):
    # spec -> implementation: the rows of the binary against what the Mech model reads out of the characters of each literal
    return [dict(name="DateMech", module="MC_DateMech", cfg="MC_DateMech_gen", judge="Judge_DateMech", workers=2, shared_world=True, limit=1500 if tier == "quick" else None)]


def generators(tier, seed):
    return [dict(module="MC_C13", workers=2)]

MANIFEST = dict(
    design_ref="DESIGN.md §5 C13",
    text="TLC enumerates literal x separator x quoting x operator x zone (and relative literals under a controlled clock); each is one run over a world holding one file per instant on the a-1..b+1 grid of every literal; Judge_C13 validates the returned names against the closed-interval semantics computed by Civil.tla and the printed `modified` text against StampText. The transition days of a zone with daylight saving time are judged in wall-clock time.",
    note="Trusted: TLC, Civil.tla, the LD_PRELOAD clock shim, tzdata. Zones: UTC and a fixed +3 offset (no DST transitions); === / !== on dates and chrono-english free-form literals are left open.",
    technique="TLC literal enumeration + replay under controlled clock/zone + TLA+ judge")
