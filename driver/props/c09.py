"""C09 - every output format is well-formed and carries exactly the result table."""
ID = "C09"
LEVEL = "model_checking"
JUDGE = "Judge_C09"
RULE = ("TLC enumerates 49 directories (empty, one file, three files; names with quote, comma, tab, LF, CR, < > & ' backslash, "
        "2-byte and 4-byte UTF-8, U+0001, entity-looking and tag-looking text, a 141-byte name) x 5 formats x 5 result paths "
        "(streamed, ordered, ordered+limit, single aggregate row with a literal text column, grouped) x 1/3/6 columns; every "
        "scenario is run into the format and into list; Judge_C09 runs the format's recogniser (Formats.tla) over the characters "
        "of stdout and compares the decoded table with the decoded list output. Non-trivial = the table has at least one row.")
ASSUMPTIONS = ["the NUL-separated list output is the reference table", "JSON rows are compared as multisets of values (keys are sorted by the writer)"]


def mech(tier, seed):
    # the writer protocol of the four result paths (H, rows with one separator between neighbours, F), model-checked
    return [dict(module="Pipeline", cfg="Pipeline_q", workers=4, actions=["Header", "Offer", "Plan", "WriteRow", "Footer"]),
            # Mech => Prop for the csv, html and json writers: what WriterMech writes decodes (Formats.tla) to the same table, for every small table
            dict(module="MC_WriterMech", cfg="MC_WriterMech", workers=8, actions=[], coverage=False)]


def _pipeline_conformance(ctx, tier, seed):
    from driver import pipeline_conf
    return pipeline_conf.run(ctx, tier, seed, 'MC_C09', None, 400)


def conformance(tier, seed):
    # white-box: the writer / accept events of real runs of these scenarios are replayed through Pipeline.tla
    # spec -> implementation: the characters written in csv / html / json are exactly what the writer model (WriterMech) writes for the table
    return [dict(name="Pipeline", run=_pipeline_conformance),
            dict(name="WriterMech", module="MC_C09", cfg=None, judge="Judge_WriterMech", workers=4, limit=1500 if tier == "quick" else None)]


def generators(tier, seed):
    return [dict(module="MC_C09", workers=4)]

MANIFEST = dict(
    design_ref="DESIGN.md §5 C09",
    text="TLC enumerates worlds with adversarial file names x formats x result paths x column counts; each scenario is run into the format under test and into list; Judge_C09 feeds the characters of stdout to the TLA+ recognisers of Formats.tla (RFC 4180 CSV, the JSON subset with all escapes, the HTML table with entities, tabs, lines) and requires acceptance and table equality with the list output.",
    note="Trusted: TLC, Formats.tla, UTF-8 decoding of stdout by the driver. Names of length <= 4 plus one 141-byte name; tabs/lines are compared only when no value contains their separators.",
    technique="TLC enumeration + paired replay + TLA+ recognisers run over the real output")
