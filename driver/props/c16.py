"""C16 - every documented scalar function computes its documented value for any argument."""
ID = "C16"
LEVEL = "model_checking"
JUDGE = "Judge_C16"
RULE = ("TLC walks a table of 223 calls (MC_C16!Cases): every documented string/numeric/date function x argument classes "
        "(empty, ASCII, multi-byte, combining, blank runs, negative/fractional/huge numbers, out-of-range SUBSTR positions, "
        "overlapping REPLACE needles, month/year-end dates, wrong-kind arguments), nesting to depth 3, on literals and on the "
        "name/size columns of world W16; Judge_C16 evaluates the call tree bottom-up with Funcs!Apply and compares the printed "
        "cells; a crash or hang is never accepted. Non-trivial = the documentation defines the value.")
ASSUMPTIONS = ["SQRT/LOG/LN/EXP are judged exactly on perfect cases and relationally (square within 1e-9) otherwise",
               "FORMAT_TIME is judged as a unit decomposition (d/h/m/s) of the input"]
POOL = 4


def generators(tier, seed):
    return [dict(module="MC_C16", workers=2)]

MANIFEST = dict(
    design_ref="DESIGN.md §5 C16",
    text="TLC enumerates a table of function calls covering every documented scalar function and the argument classes of the quantifier, with nesting and column arguments; each call is run once and Judge_C16 evaluates the call tree with the TLA+ definitions of Funcs.tla (composition = application to the inner value) and compares the printed cells; wrong-kind arguments must give an empty value or status 2, never a crash.",
    note="Trusted: TLC, Funcs/Chars/Civil/BigNat. Transcendental functions only on perfect cases or relationally; case mapping beyond ASCII limited to five simple pairs; base64 checked on ASCII plus the inverse law on multi-byte text.",
    technique="TLC case-table enumeration + replay + TLA+ judge (function definitions)")
