"""C07 - aggregate functions return the mathematical aggregate of the matching entries."""
ID = "C07"
LEVEL = "model_checking"
JUDGE = "Judge_C07"
RULE = ("TLC enumerates aggregate lists (each of the nine functions alone + 6 mixed lists) x aggregated column (size, "
        "hardlinks, uid, line_count, length(name)) x 15 WHERE filters selecting 0, 1, 3 or many entries of world W7 (one file under three hard-linked names, non-integer "
        "means, 2^33, 3000000001/3/5); one run each; Judge_C07 recomputes the aggregates exactly over BigNat from the lstat "
        "values and accepts printed decimals within relative 1e-9 (AVG) / 1e-6 (variances). Non-trivial = >= 2 matching entries and "
        "at least one defined aggregate accepted. "
        "A second generator (MC_C07r) runs aggregate lists x column x filter over pseudo-random trees (WorldRnd; quick 3, thorough 30).")
ASSUMPTIONS = ["lstat size/nlink/uid as ground truth", "tolerances 1e-9 / 1e-6 stand for 'up to floating-point rounding'"]
POOL = 8


def generators(tier, seed):
    return [dict(module="MC_C07", workers=2),
            # pseudo-random trees (WorldRnd): quick 3, thorough 30
            dict(module="MC_C07r", cfg="MC_C07r_q" if tier == "quick" else "MC_C07r_t", workers=4)]

MANIFEST = dict(
    design_ref="DESIGN.md §5 C07",
    text="TLC enumerates aggregate lists x column x WHERE filter over world W7 (non-integer means, sizes beyond 32 bits, large values with small spread); each query is run once; Judge_C07 recomputes COUNT/SUM/MIN/MAX exactly and AVG/VAR/STDDEV as exact rationals over BigNat and accepts the printed decimals within 1e-9 / 1e-6 relative.",
    note="Trusted: TLC, Agg/BigNat (self-tested against native integers), lstat values. Undefined cases (MIN/MAX/AVG of nothing, sample statistics of one value) are unconstrained.",
    technique="TLC enumeration + replay + TLA+ judge (exact rational aggregates)")
