"""Generic check pipeline: TLC generates -> driver executes -> TLC judges.

A property plug-in (driver/props/cXX.py) supplies:
  ID, LEVEL                         property id and level_claimed category
  mech(tier, seed) -> [dict]        Mech-level model-checking runs (module, cfg, ...), all must pass
  generators(tier, seed) -> [dict]  scenario generators (module, cfg, simulate, depth, env, limit)
  JUDGE                             name of the Judge module (spec/<JUDGE>.tla + .cfg)
  execute(scn, ctx) -> obs record   optional; default_execute is used when absent
  RULE                              text for evidence.coverage.rule
"""
import importlib
import json
import os
import random
import shutil
import sys
import threading
import time

from . import lib
from .lib import ToolError, log

KNOWN = os.path.join(lib.VERIF, "known_findings.json")


class Ctx:
    def __init__(self, tier, seed, scratch=None):
        self.tier = tier
        self.seed = seed
        self.scratch = scratch or lib.scratch_dir()
        os.makedirs(self.scratch, exist_ok=True)
        self.worlds = {}
        self.lock = threading.Lock()
        self.rng = random.Random(seed)

    def world(self, world, config=None, digests=False):
        key = lib.sha([world, config, digests])  # noqa
        with self.lock:
            ent = self.worlds.get(key)
            if ent is None:
                ent = {"lock": threading.Lock(), "w": None, "snap": None}
                self.worlds[key] = ent
        with ent["lock"]:
            if ent["w"] is None:
                w = lib.materialise(world, self.scratch)
                lib.open_for_unprivileged(w, self.scratch)
                lib.write_config(w.home, config if config is not None else {"debug": False})
                ent["snap"] = lib.snapshot(w, world, digests=digests)
                ent["w"] = w
        return ent["w"], ent["snap"]

    def cleanup(self):
        if not os.environ.get("VERIF_KEEP"):
            lib.rmtree(self.scratch)


def subst(arg, w):
    """@ROOT@ / @N<k>@ / @BASE@ placeholders -> absolute paths of the materialised world."""
    if "@" not in arg:
        return arg
    out = arg.replace("@ROOT@", w.paths[0]).replace("@BASE@", w.base)
    for k, p in w.paths.items():
        out = out.replace("@N%d@" % k, p)
    return out


def default_execute(scn, ctx, timeout=10.0, digests=False):
    env = scn.get("env", {}) or {}
    w, snap = ctx.world(scn["world"], env.get("config"), digests=digests or bool(scn.get("digests")))
    cwd = w.base if env.get("cwd", 0) == -1 else w.paths[env.get("cwd", 0)]
    obs = {}
    for run in scn["runs"]:
        argv = [subst(a, w) if isinstance(a, str) else lib._chars(a) for a in run["argv"]]      # (an argument given as bytes is passed on as it is)
        kw = dict(tz=env.get("tz", "UTC"), fake_epoch=(env.get("fake_epoch") if (env.get("fake_epoch") or -1) >= 0 else None),
                  fail_after=run.get("fail_after"), uid=env.get("uid"),
                  user_home=(w.paths[env["home"]] if env.get("home") is not None else None))
        r = lib.run_fselect(argv, cwd, w.home, timeout=run.get("timeout", timeout), **kw)
        if r["timed_out"]:
            # a busy machine must not look like a hang: one more try, alone in this worker, with three times the bound
            r = lib.run_fselect(argv, cwd, w.home, timeout=3 * run.get("timeout", timeout), **kw)
        o = {"status": r["status"], "timed_out": r["timed_out"], "panic": r["panic"],
             "stderr": r["stderr"][:2000], "stderr_len": len(r["stderr"]), "argv": argv}
        if (env.get("config") or {}).get("debug"):
            o["parsed"] = lib.extract_dbg(r["stderr"], "&query = ")
            o["lexems"] = lib.lexems_from_dbg(lib.extract_dbg(r["stderr"], "&self.lexems = "))
        if run.get("probes"):
            o["probes"] = [pr in r["stderr"] for pr in run["probes"]]      # is the text named on stderr?
        fmt = run.get("fmt", "list")
        if fmt == "list":
            o["rows"] = lib.split_list(r["stdout"], run.get("ncols", 1))
            if run.get("chars"):
                o["rows"] = [[list(c) for c in row] for row in o["rows"]]
        elif fmt == "chars":
            o["chars"] = list(r["stdout"].decode("utf-8", "replace"))
        elif fmt == "bytes":
            o["bytes"] = list(r["stdout"])
        elif fmt == "text":
            o["text"] = r["stdout"].decode("utf-8", "replace")
            o["lines_sorted"] = sorted(o["text"].splitlines())
        elif fmt == "none":
            o["stdout_head"] = r["stdout"][:200].decode("utf-8", "replace")
        o["nbytes"] = len(r["stdout"])
        # which entries' paths (as fselect spells them: relative to the cwd, with ./ for the root `.`) are named on stderr
        if len(w.paths) <= 60:
            o["mentions"] = [k for k, pth in sorted(w.paths.items()) if k > 0 and any(
                (x + ": ") in r["stderr"] for x in ("./" + os.path.relpath(pth, cwd), os.path.relpath(pth, cwd)))]
        obs[run["tag"]] = o
    rec = dict(scn)
    for n in rec["world"].get("nodes", []):        # text the judge looks inside travels as characters (syntactic conversion)
        if isinstance(n.get("name"), str) and "namec" not in n:
            n["namec"] = list(n["name"])
        if isinstance(n.get("content"), str) and "contentc" not in n:
            n["contentc"] = list(n["content"])
    rec["snapshot"] = snap
    rec["rootpath"] = os.path.realpath(w.paths[0])
    rec["ctl"] = [chr(i) for i in range(1, 32)]      # characters TLA+ source cannot spell
    rec["nul"] = "\0"
    rec["obs"] = obs
    return rec


def _bucket_worker(args):
    modname, scns, tier, seed, scratch = args
    prop = importlib.import_module(modname)
    ex = getattr(prop, "execute", None) or default_execute
    ctx = Ctx(tier, seed, scratch=scratch)
    out = []
    with lib.ThreadPoolExecutor(max_workers=getattr(prop, "THREADS", 2)) as tp:
        out = list(tp.map(lambda s: ex(s, ctx), scns))
    return out


def execute_all(prop, scenarios, ctx):
    """Run all scenarios against the real binary: scenarios sharing a world go to the same worker process."""
    import multiprocessing as mp
    nproc = getattr(prop, "POOL", 14)
    groups = {}
    for s in scenarios:
        groups.setdefault(lib.sha([s.get("worldkey") or s.get("world"), (s.get("env") or {}).get("config")]), []).append(s)
    buckets = [[] for _ in range(nproc)]
    for g in sorted(groups.values(), key=len, reverse=True):
        if len(g) > 4 * max(1, len(scenarios) // nproc):      # one huge world: spread it
            for i, s in enumerate(g):
                buckets[i % nproc].append(s)
        else:
            min(buckets, key=len).extend(g)
    buckets = [b for b in buckets if b]
    if len(buckets) <= 1 or len(scenarios) < 40:
        ex = getattr(prop, "execute", None) or default_execute
        return lib.pmap(lambda s: ex(s, ctx), scenarios, workers=8)
    args = [(prop.__name__, b, ctx.tier, ctx.seed, os.path.join(ctx.scratch, "p%d" % i)) for i, b in enumerate(buckets)]
    with mp.get_context("fork").Pool(len(buckets)) as pool:
        res = pool.map(_bucket_worker, args)
    out = [o for r in res for o in r]
    out.sort(key=lambda o: o["id"])
    return out


def load_known(prop):
    if not os.path.exists(KNOWN):
        return {}
    data = json.load(open(KNOWN))
    return {f["key"]: f for f in data.get("findings", []) if f["property"] == prop and f["status"] == "open"}


def judge(prop, obs, ctx, shards=12):
    """Run the TLA+ judge over observation records; returns list of verdict dicts."""
    if not obs:
        return [], 0
    shards = max(1, min(shards, (len(obs) + 199) // 200))
    env0 = {}
    if getattr(prop, "SHARED_WORLD", False):
        # all records share one (large) world: ship it once, in its own file (IOEnv.WORLD)
        wfile = os.path.join(ctx.scratch, "world.%s.json" % prop.ID)
        with open(wfile, "w") as f:
            json.dump({"world": obs[0]["world"], "snapshot": obs[0].get("snapshot", [])}, f)
        env0["WORLD"] = wfile
        obs = [{k: v for k, v in o.items() if k not in ("world", "snapshot")} for o in obs]
    files = []
    for i in range(shards):
        fn = os.path.join(ctx.scratch, "obs.%s.%d.ndjson" % (prop.ID, i))
        with open(fn, "w") as f:
            for rec in obs[i::shards]:
                f.write(json.dumps(rec) + "\n")
        files.append(fn)

    def one(fn, depth=0):
        r = lib.run_tlc(prop.JUDGE, workers=1, env=dict(env0, OBS=fn), tags=("VERDICT", "JUDGED"), timeout=3000,
                        xmx="4g")
        n = sum(1 for _ in open(fn))
        if r.rc == 0 and r.lines["JUDGED"] and r.lines["JUDGED"][-1]["n"] == n and len(r.lines["VERDICT"]) == n:
            return r.lines["VERDICT"], r.distinct
        # The judge could not evaluate this file.  The judges are total on everything the unchanged program prints, so this
        # is an observation of a shape they exclude (a row with the wrong number of cells, text where a number belongs ...):
        # isolate the record(s) by bisection and report each as a violation of its own class - data, not a tool error.
        recs = [json.loads(x) for x in open(fn)]
        if len(recs) == 1:
            r2 = lib.run_tlc(prop.JUDGE, workers=1, env=dict(env0, OBS=fn), tags=("VERDICT", "JUDGED"), timeout=3000, xmx="4g")
            if r2.rc == 0 and len(r2.lines["VERDICT"]) == 1:
                return r2.lines["VERDICT"], r2.distinct
            tail = "\n".join(l for l in r2.out.splitlines() if not l.startswith('<<"VERDICT"') and "Parsing file" not in l)[-1500:]
            log(tail)
            rec = recs[0]
            why = "observation-the-judge-cannot-evaluate"
            return [{"id": rec.get("id", 0), "ok": False, "class": rec.get("class", "?"), "why": why,
                     "key": "%s/%s/%s" % (prop.ID, rec.get("class", "?"), why), "nontrivial": False}], 0
        if depth > 24:
            raise ToolError("judge %s failed (rc=%s)" % (prop.JUDGE, r.rc))
        out, st = [], 0
        for k, part in enumerate((recs[:len(recs) // 2], recs[len(recs) // 2:])):
            pf = "%s.%d" % (fn, k)
            with open(pf, "w") as f:
                for rec in part:
                    f.write(json.dumps(rec) + "\n")
            v, d = one(pf, depth + 1)
            out += v
            st += d
        return out, st
    res = lib.pmap(one, files, workers=min(12, len(files)))
    verdicts = []
    states = 0
    for v, d in res:
        verdicts += v
        states += d
    return verdicts, states


def write_evidence(prop, tier, seed, wall, cov, violations, assumptions):
    ev = {"property_id": prop.ID, "tier": tier, "seed": seed, "level": prop.LEVEL, "coverage": cov,
          "assumptions": assumptions, "wall_s": round(wall, 1), "violations": violations}
    os.makedirs(os.path.join(lib.OUT, "evidence"), exist_ok=True)
    with open(os.path.join(lib.OUT, "evidence", prop.ID + ".json"), "w") as f:
        json.dump(ev, f, indent=1)


def save_replay(prop, rec, verdict):
    d = os.path.join(lib.OUT, "replays", prop.ID)
    os.makedirs(d, exist_ok=True)
    scn = {k: v for k, v in rec.items() if k not in ("snapshot", "obs")}
    path = os.path.join(d, lib.scn_sha(scn) + ".json")
    with open(path, "w") as f:
        json.dump({"property": prop.ID, "scenario": scn, "observation": rec.get("obs"),
                   "snapshot": rec.get("snapshot"), "verdict": verdict}, f, indent=1)
    return path


def run_check(prop, tier, seed):
    t0 = time.time()
    lib.ensure_build()
    shutil.rmtree(os.path.join(lib.OUT, "replays", prop.ID), ignore_errors=True)      # replays of earlier runs are stale
    ctx = Ctx(tier, seed)
    states = transitions = 0
    mech_info = []
    never = []
    try:
        # 1. Mech-level model checking (design level; DRIFT/tool error, never a verdict by itself)
        for m in (prop.mech(tier, seed) if hasattr(prop, "mech") and not os.environ.get("VERIF_SKIP_MECH") else []):      # (the switch is for debugging only)
            if m.get("apalache"):
                # unbounded safety of a typed count-level model: Init => IndInv, IndInv /\ Next => IndInv', IndInv => Safety
                info = lib.run_apalache(m["module"], m["apalache"], timeout=m.get("timeout", 600))
                mech_info.append(info)
                log("[mech] %s (apalache): %d of %d obligations discharged in %.1fs%s" % (
                    m["module"], info["discharged"], info["obligations"], info["wall_s"], " - " + info["note"] if info.get("note") else ""))
                if info.get("refuted"):
                    raise ToolError("Apalache refutes %s of %s" % (info["refuted"], m["module"]))
                continue
            r = lib.run_tlc(m["module"], m.get("cfg"), workers=m.get("workers", 8), env=m.get("env"),
                            coverage=m.get("coverage", True), timeout=m.get("timeout", 1800), xmx=m.get("xmx", "8g"),
                            simulate=m.get("simulate"), depth=m.get("depth"), seed=seed if m.get("simulate") else None,
                            tags=("MECH",), deadlock=m.get("deadlock", False))
            expect = m.get("expect_violation")
            if expect:
                # a Mech model of a mechanism known (known_findings) to break Prop: TLC must find the counterexample
                if r.violated is None:
                    log(r.out[-2000:])
                    raise ToolError("Mech model %s no longer exhibits %s" % (m["module"], expect))
            else:
                lib.tlc_ok(r, m["module"])
            states += r.distinct
            transitions += r.generated
            zero = [k for k, v in r.coverage.items() if v == 0 and k.split(".")[1] in m.get("actions", [])]
            never += zero
            mech_info.append({"module": m["module"], "cfg": m.get("cfg") or m["module"], "distinct": r.distinct,
                              "generated": r.generated, "wall_s": round(r.wall, 1),
                              "violated": r.violated, "never_taken": zero})
            log("[mech] %s: %d distinct / %d generated states in %.1fs%s" % (
                m["module"], r.distinct, r.generated, r.wall, " (expected counterexample %s)" % r.violated if expect else ""))
        # 2. scenario generation
        scenarios = []
        gen_info = []
        for g in prop.generators(tier, seed):
            r = lib.run_tlc(g["module"], g.get("cfg"), workers=g.get("workers", 4), env=g.get("env"),
                            simulate=g.get("simulate"), depth=g.get("depth"),
                            seed=seed if g.get("simulate") else None, timeout=g.get("timeout", 1800),
                            xmx=g.get("xmx", "6g"), coverage=bool(g.get("coverage")))
            lib.tlc_ok(r, g["module"])
            uniq = {}
            for s in r.replays:
                uniq.setdefault(lib.scn_sha(s), s)
            scs = [uniq[k] for k in sorted(uniq)]
            total = len(scs)
            if g.get("limit") and len(scs) > g["limit"]:
                random.Random(seed).shuffle(scs)
                scs = scs[:g["limit"]]
            for s in scs:
                s["gen"] = g.get("cfg") or g["module"]
            scenarios += scs
            del uniq
            r.replays = None
            r.lines = None
            states += r.distinct
            transitions += r.generated
            gen_info.append({"module": g["module"], "cfg": g.get("cfg") or g["module"], "distinct_states": r.distinct,
                             "generated_states": r.generated, "scenarios_emitted": total, "scenarios_run": len(scs),
                             "mode": "simulate" if g.get("simulate") else "bfs", "wall_s": round(r.wall, 1)})
            log("[gen] %s/%s: %d states, %d scenarios (%d run) in %.1fs" % (
                g["module"], g.get("cfg") or "", r.distinct, total, len(scs), r.wall))
        if not scenarios:
            raise ToolError("no scenarios generated")
        for i, s in enumerate(scenarios):
            s["id"] = i + 1
        # 3. execute against the real binary
        t1 = time.time()
        obs = execute_all(prop, scenarios, ctx)
        nruns = sum(len(o.get("obs", {})) for o in obs)
        log("[exec] %d scenarios, %d runs of the binary in %.1fs" % (len(obs), nruns, time.time() - t1))
        # 4. judge (TLA+ Prop layer)
        t2 = time.time()
        verdicts, jstates = judge(prop, obs, ctx)
        states += jstates
        transitions += jstates
        log("[judge] %d records in %.1fs" % (len(verdicts), time.time() - t2))
        # 5. conformance of Mech models with the real code (spec -> implementation replay, or recorded traces
        #    validated against the Mech actions).  A rejection is DRIFT of the mechanism model: reported, recorded in the
        #    evidence, never a verdict about the property.
        drift = []
        conf_info = []
        for c in (prop.conformance(tier, seed) if hasattr(prop, "conformance") else []):
            try:
                info = c["run"](ctx, tier, seed) if "run" in c else run_conformance(c, ctx, seed)
            except Exception as ex:          # noqa: a binding that cannot be evaluated is drift of the binding, never a verdict
                info = {"name": c.get("name", "?"), "validated": 0, "states": 0, "wall_s": 0,
                        "drift": ["the conformance binding could not be evaluated: %s" % str(ex)[:300]]}
            conf_info.append(info)
            states += info.get("states", 0)
            transitions += info.get("states", 0)
            for d in info.get("drift", []):
                drift.append(d)
                print("DRIFT mechanism=%s %s" % (info["name"], d))
            log("[conf] %s: %d traces/records validated, %d drift, %.1fs" % (info["name"], info.get("validated", 0), len(info.get("drift", [])), info.get("wall_s", 0)))
        return finish(prop, tier, seed, t0, obs, verdicts, states, transitions, mech_info, gen_info, never, nruns, conf_info)
    finally:
        ctx.cleanup()


def run_conformance(c, ctx, seed):
    """Generator (MC_*) -> real binary -> judge (Judge_*) for a Mech model; returns an info dict."""
    t0 = time.time()
    r = lib.run_tlc(c["module"], c.get("cfg"), workers=c.get("workers", 6), timeout=1800)
    lib.tlc_ok(r, c["module"])
    scs = r.replays
    if c.get("limit") and len(scs) > c["limit"]:
        random.Random(seed).shuffle(scs)
        scs = scs[:c["limit"]]
    for i, sc in enumerate(scs):
        sc["id"] = i + 1

    class P:
        pass
    P.ID = c["name"]
    P.JUDGE = c["judge"]
    P.SHARED_WORLD = bool(c.get("shared_world"))
    P.__name__ = "driver.check"
    obs = lib.pmap(lambda sc: default_execute(sc, ctx), scs, workers=14)
    verdicts, jstates = judge(P, obs, ctx)
    bad = [v for v in verdicts if not v["ok"]]
    byid = {o["id"]: o for o in obs}
    drift = ["%s argv=%s" % (v["why"], json.dumps(byid[v["id"]]["runs"][0]["argv"])[:200]) for v in bad[:10]]
    return {"name": c["name"], "kind": "replay", "module": c["module"], "states": r.distinct + jstates, "validated": len(verdicts) - len(bad),
            "rejected": len(bad), "drift": drift, "wall_s": round(time.time() - t0, 1)}


def finish(prop, tier, seed, t0, obs, verdicts, states, transitions, mech_info, gen_info, never, nruns, conf_info=()):
    byid = {o["id"]: o for o in obs}
    known = load_known(prop.ID)
    bad = [v for v in verdicts if not v["ok"]]
    good = [v for v in verdicts if v["ok"]]
    nontrivial = {lib.scn_sha({k: x for k, x in byid[v["id"]].items() if k not in ("snapshot", "obs")})
                  for v in good if v.get("nontrivial")}
    classes = sorted({v["class"] for v in verdicts})
    known_hit = {}
    new = {}
    for v in bad:
        key = v["key"]
        if key in known:
            known_hit.setdefault(key, []).append(v)
        else:
            new.setdefault(key, []).append(v)
    for key, vs in sorted(known_hit.items()):
        print("KNOWN-FINDING: property=%s %s [key=%s, %d scenario(s)]" % (prop.ID, known[key]["what"], key, len(vs)))
    nviol = 0
    for key, vs in sorted(new.items()):
        v = vs[0]
        path = save_replay(prop, byid[v["id"]], v)
        print("VIOLATION property=%s replay=%s key=%s why=%s count=%d" % (prop.ID, path, key, v.get("why", ""), len(vs)))
        nviol += 1
    # vacuity guards
    if len(verdicts) != len(obs):
        raise ToolError("verdict count mismatch")
    if len(nontrivial) < 2 and not bad:
        raise ToolError("vacuous run: fewer than 2 distinct non-trivial accepted scenarios")
    if never:
        raise ToolError("Mech actions never taken: %s" % never)
    samples = []
    for v in (good[:2] + bad[:1]):
        o = byid[v["id"]]
        samples.append({"class": v["class"], "ok": v["ok"], "runs": [r.get("argv") for r in o.get("runs", [])][:3],
                        "world_nodes": len((o.get("world") or {}).get("nodes", [])),
                        "observed": {t: {"status": x.get("status"), "rows": (x.get("rows") or [])[:4]}
                                     for t, x in list(o.get("obs", {}).items())[:2]}})
    cov = {"states": max(states, 1), "transitions": max(transitions, 1),
           "traces_validated_against_impl": len(good) + sum(len(v) for v in known_hit.values())
                                            + sum(c.get("validated", 0) for c in conf_info),
           "samples": samples, "evaluations": nruns, "distinct_nontrivial": len(nontrivial),
           "rule": getattr(prop, "RULE", ""), "scenario_classes": len(classes),
           "records_judged": len(verdicts), "records_rejected": len(bad),
           "known_finding_keys_hit": sorted(known_hit), "generators": gen_info, "mech_models": mech_info,
           "mech_conformance": list(conf_info),
           "exhaustive": all(g["mode"] == "bfs" and g["scenarios_run"] == g["scenarios_emitted"] for g in gen_info)}
    write_evidence(prop, tier, seed, time.time() - t0, cov, nviol, getattr(prop, "ASSUMPTIONS", []))
    log("[done] %s tier=%s: %d judged, %d rejected (%d known classes, %d new classes), %.1fs" % (
        prop.ID, tier, len(verdicts), len(bad), len(known_hit), len(new), time.time() - t0))
    return 1 if nviol else 0


def replay(prop, path):
    lib.ensure_build()
    ctx = Ctx("quick", 0)
    try:
        data = json.load(open(path))
        scn = data["scenario"]
        ex = getattr(prop, "execute", None) or default_execute
        rec = ex(scn, ctx)
        verdicts, _ = judge(prop, [rec], ctx)
        v = verdicts[0]
        print(json.dumps({"verdict": v, "observation": rec["obs"]}, indent=1)[:6000])
        if not v["ok"]:
            known = load_known(prop.ID)
            if v["key"] in known:
                print("KNOWN-FINDING: property=%s %s" % (prop.ID, known[v["key"]]["what"]))
                return 0
            print("VIOLATION property=%s replay=%s key=%s" % (prop.ID, path, v["key"]))
            return 1
        return 0
    finally:
        ctx.cleanup()


def main(argv):
    if len(argv) < 2:
        print("usage: vcheck <Cxx> [quick|thorough] | vcheck replay <path>")
        return 2
    try:
        if argv[1] == "replay":
            if len(argv) < 3 or not os.path.exists(argv[2]):
                print("usage: vcheck replay <path of a replay file>")
                return 2
            data = json.load(open(argv[2]))
            prop = importlib.import_module("driver.props." + data["property"].lower())
            return replay(prop, argv[2])
        pid = argv[1].upper()
        tier = argv[2] if len(argv) > 2 else (os.environ.get("VERIF_TIER") or "quick")      # (the tier named on the command line wins)
        seed = int(os.environ.get("VERIF_SEED", "0") or 0)
        prop = importlib.import_module("driver.props." + pid.lower())
        return run_check(prop, tier, seed)
    except ToolError as e:
        print("TOOL-ERROR: %s" % e)
        return 2
