"""Shared plumbing for the fselect verification checks.

Everything here is I/O: build the binary from /repo's working tree, run TLC,
materialise abstract worlds on disk, run the real binary, ship observations to
the TLA+ judge, write evidence / replay files.  No property semantics lives
here: what is expected of a run is decided by the TLA+ Judge_* modules.
"""
import hashlib
import json
import os
import re
import shutil
import signal
import stat
import subprocess
import sys
import tempfile
import time
from concurrent.futures import ThreadPoolExecutor

VERIF = os.path.dirname(os.path.dirname(os.path.abspath(__file__)))
REPO = os.environ.get("VERIF_REPO", "/repo")
BUILD = os.environ.get("VERIF_BUILD", os.path.join(VERIF, ".build"))      # scratch runs against seeded changes use their own
OUT = os.environ.get("VERIF_OUT", VERIF)                                        # where evidence/ and replays/ are written
TARGET = os.path.join(BUILD, "target")
BIN = os.path.join(TARGET, "debug", "fselect")
SHIM = os.path.join(BUILD, "libverifshim.so")
SPEC = os.path.join(VERIF, "spec")
JAR = "/opt/veriftools/tla/tla2tools.jar:/opt/veriftools/tla/CommunityModules-deps.jar"
GUARD = "fselect_verif"


class ToolError(Exception):
    pass


def log(*a):
    print(*a, file=sys.stderr, flush=True)


# --------------------------------------------------------------------------
# build
# --------------------------------------------------------------------------
def build_env():
    env = dict(os.environ)
    env.update({
        "CARGO_NET_OFFLINE": "true",
        "CARGO_TARGET_DIR": TARGET,
        "RUSTFLAGS": "--cfg %s --check-cfg cfg(%s)" % (GUARD, GUARD),
        "CARGO_PROFILE_DEV_OVERFLOW_CHECKS": "false",
        "CARGO_PROFILE_DEV_DEBUG_ASSERTIONS": "false",
        "CARGO_PROFILE_DEV_DEBUG": "0",
    })
    return env


def ensure_build():
    """cargo build of /repo's current working tree (hooks on); returns binary path."""
    os.makedirs(BUILD, exist_ok=True)
    t0 = time.time()
    p = subprocess.run(["cargo", "build", "--offline", "--quiet"], cwd=REPO, env=build_env(),
                       stdout=subprocess.PIPE, stderr=subprocess.STDOUT, text=True)
    if p.returncode != 0:
        log(p.stdout[-4000:])
        raise ToolError("cargo build failed")
    if not os.path.exists(BIN):
        raise ToolError("binary missing after build")
    if os.path.exists(os.path.join(os.path.dirname(BIN), "config.toml")):
        raise ToolError("config.toml next to the executable would shadow scenario configs")
    ensure_shim()
    log("[build] %.1fs" % (time.time() - t0))
    return BIN


def ensure_shim():
    src = os.path.join(VERIF, "shim", "shim.c")
    if (not os.path.exists(SHIM)) or os.path.getmtime(SHIM) < os.path.getmtime(src):
        p = subprocess.run(["clang", "-O2", "-shared", "-fPIC", "-o", SHIM, src, "-ldl"],
                           stdout=subprocess.PIPE, stderr=subprocess.STDOUT, text=True)
        if p.returncode != 0:
            log(p.stdout)
            raise ToolError("shim build failed")


# --------------------------------------------------------------------------
# TLC
# --------------------------------------------------------------------------
class TlcResult:
    def __init__(self):
        self.out = ""
        self.rc = None
        self.generated = 0
        self.distinct = 0
        self.replays = []
        self.lines = {}
        self.coverage = {}
        self.wall = 0.0
        self.violated = None


_REPLAY = re.compile(r'^<<"([A-Z]+)", (.*)>>$')


def _untla_string(s):
    """A TLA+ string literal as printed by TLC -> python str (TLC escapes \\ and ")."""
    assert s.startswith('"') and s.endswith('"'), s[:80]
    body = s[1:-1]
    if "\\" not in body:
        return body
    if body.isascii():
        return body.encode("latin-1").decode("unicode_escape")
    return re.sub(r"\\(.)", lambda m: {"n": "\n", "t": "\t", "r": "\r", "f": "\f"}.get(m.group(1), m.group(1)), body)


def run_tlc(module, cfg=None, workers=4, simulate=None, depth=None, seed=None, env=None,
            timeout=3600, xmx="6g", deque=False, coverage=False, tags=("REPLAY", "WORLD"), cwd=SPEC,
            deadlock=False, extra=()):
    """Run TLC on spec/<module>.tla with spec/<cfg>.cfg.  Returns TlcResult.
    Lines of the form <<"TAG", "<json>">> are decoded into result.lines[TAG]."""
    meta = tempfile.mkdtemp(prefix="tlcmeta.", dir=BUILD)
    jopts = ["-XX:+UseParallelGC", "-Xss1g", "-Xmx" + xmx, "-Dfile.encoding=UTF-8", "-Dsun.stdout.encoding=UTF-8",
             "-Dsun.stderr.encoding=UTF-8",
             "-Djava.io.tmpdir=" + meta]          # (TLC unpacks its standard modules into a tlc-* directory there and leaves it behind)
    if deque:
        jopts.append("-Dtlc2.tool.queue.IStateQueue=StateDeque")
    cmd = ["java"] + jopts + ["-cp", JAR, "tlc2.TLC", "-workers", str(workers), "-metadir", meta,
                               "-cleanup", "-noGenerateSpecTE"]
    if not deadlock:
        cmd += ["-deadlock"]
    if coverage:
        cmd += ["-coverage", "1"]
    if simulate is not None:
        cmd += ["-simulate", "num=%d" % simulate]
        if depth:
            cmd += ["-depth", str(depth)]
    if seed is not None:
        cmd += ["-seed", str(seed)]
    cmd += list(extra)
    cmd += ["-config", (cfg or module) + ".cfg", module + ".tla"]
    e = dict(os.environ)
    e.pop("JAVA_TOOL_OPTIONS", None)
    e["LC_ALL"] = "C.UTF-8"
    if env:
        e.update({k: str(v) for k, v in env.items()})
    t0 = time.time()
    r = TlcResult()
    try:
        p = subprocess.run(cmd, cwd=cwd, env=e, stdout=subprocess.PIPE, stderr=subprocess.STDOUT,
                           text=True, encoding="utf-8", errors="replace", timeout=timeout)
        r.out, r.rc = p.stdout, p.returncode
    except subprocess.TimeoutExpired as ex:
        r.out = (ex.stdout or b"").decode("utf-8", "replace") if isinstance(ex.stdout, bytes) else (ex.stdout or "")
        r.rc = 124
    finally:
        shutil.rmtree(meta, ignore_errors=True)
    r.wall = time.time() - t0
    for t in tags:
        r.lines[t] = []
    for line in r.out.splitlines():
        m = _REPLAY.match(line)
        if m and m.group(1) in r.lines:
            try:
                r.lines[m.group(1)].append(json.loads(_untla_string(m.group(2))))
            except Exception as ex:  # noqa
                raise ToolError("cannot decode %s line: %s (%s)" % (m.group(1), line[:300], ex))
            continue
        m = re.match(r"^(\d[\d,]*) states generated, (\d[\d,]*) distinct states found", line)
        if m:
            r.generated = int(m.group(1).replace(",", ""))
            r.distinct = int(m.group(2).replace(",", ""))
        m = re.match(r"^The number of states generated: (\d+)", line)
        if m:
            r.generated = int(m.group(1))
        m = re.match(r"^Error: Invariant (\S+) is violated", line)
        if m:
            r.violated = m.group(1)
        if line.startswith("Error: Temporal properties were violated") or line.startswith("Error: Action property"):
            r.violated = r.violated or "temporal"
        m = re.match(r"^<(\w+) line \d+, col \d+ to line \d+, col \d+ of module (\w+)>: (\d+):(\d+)", line)
        if m:
            r.coverage[m.group(2) + "." + m.group(1)] = r.coverage.get(m.group(2) + "." + m.group(1), 0) + int(m.group(4))
    r.replays = r.lines.get("REPLAY", [])
    # scenarios may name their world ("world": "<key>"); the generator prints each world once as a WORLD line
    worlds = {x["key"]: x["world"] for x in r.lines.get("WORLD", [])}
    for scn in r.replays:
        if isinstance(scn.get("world"), str):
            scn["worldkey"] = scn["world"]
            scn["world"] = worlds[scn["world"]]
    return r


def tlc_ok(r, what):
    """Raise ToolError unless TLC finished without error."""
    if r.rc != 0 or "Model checking completed. No error has been found." not in r.out and "Finished in" not in r.out:
        tail = "\n".join(l for l in r.out.splitlines() if not l.startswith('<<"'))[-3000:]
        log(tail)
        raise ToolError("TLC failed on %s (rc=%s)" % (what, r.rc))


# --------------------------------------------------------------------------
# materialising worlds
# --------------------------------------------------------------------------
def _chars(x):
    """Text in scenario records is either a JSON string or an array of 1-char strings / ints (bytes)."""
    if isinstance(x, str):
        return x.replace("\u2401", "\x01")
    if isinstance(x, list):
        if x and all(isinstance(c, int) for c in x):
            return bytes(x).decode("utf-8", "surrogateescape")
        return "".join(x).replace("\u2401", "\x01")     # U+2401 stands for the control character U+0001
    raise ToolError("bad text %r" % (x,))


def content_bytes(content):
    if content is None:
        return b""
    if isinstance(content, str):
        return content.encode("utf-8")
    out = bytearray()
    for run in content:
        if isinstance(run, dict):
            out += bytes([run["byte"]]) * run["count"]
        elif isinstance(run, int):
            out.append(run)
        else:
            out += _chars(run).encode("utf-8")
    return bytes(out)


def size_of(spec):
    if isinstance(spec, dict):
        n = spec.get("n", 1)
        return spec["base"] ** spec["exp"] * n // spec.get("den", 1) + spec.get("d", 0)
    if isinstance(spec, str):
        return int(spec)
    return int(spec)


def write_zip(path, members):
    import struct
    import zipfile
    with zipfile.ZipFile(path, "w") as z:
        for m in members:
            name = _chars(m["name"])
            zi = zipfile.ZipInfo(name, date_time=tuple(m.get("dos", [2017, 5, 1, 10, 20, 30])))
            zi.create_system = 3
            if "mode" in m and m["mode"] is not None and m["mode"] >= 0:
                zi.external_attr = (m["mode"] & 0xFFFF) << 16
            else:
                zi.create_system = 0
                zi.external_attr = 0
            zi.compress_type = zipfile.ZIP_DEFLATED if m.get("method") == "deflated" else zipfile.ZIP_STORED
            z.writestr(zi, content_bytes(m.get("content")))
    _ = struct


class World:
    """A materialised world: base directory + per node paths."""

    def __init__(self, base, paths, home):
        self.base = base
        self.paths = paths  # node id (1-based) -> absolute path
        self.home = home


def materialise(world, scratch):
    """Create the files of an abstract world under a fresh directory in scratch.
    world = {"nodes":[{id,parent,kind,name,...}], "files":[...extra ignore files...]}.
    Returns World.  Node ids are 1..N with parent < id (0 = the base directory)."""
    base = tempfile.mkdtemp(prefix="w.", dir=scratch)
    root = os.path.join(base, world.get("rootname") or "r")      # (rootname: a name with characters that are special somewhere)
    os.mkdir(root)
    home = os.path.join(base, "home")
    os.makedirs(os.path.join(home, ".config", "fselect"))
    paths = {0: root}
    nodes = sorted(world.get("nodes", []), key=lambda n: n["id"])
    later = []
    for n in nodes:
        p = os.path.join(paths[n["parent"]], _chars(n["name"]))
        paths[n["id"]] = p
        k = n["kind"]
        if k == "dir":
            os.mkdir(p)
        elif k == "file" and n.get("linkto"):
            os.link(paths[n["linkto"]], p)
        elif k == "file":
            if n.get("zip") is not None and (n.get("iszip", True) or n["zip"]):
                write_zip(p, n["zip"])
                if n.get("truncate") is not None and n["truncate"] >= 0:
                    with open(p, "r+b") as f:
                        f.truncate(n["truncate"])
                if n.get("flip") is not None and n.get("hasflip", True):
                    with open(p, "r+b") as f:
                        data = bytearray(f.read())
                        off = n["flip"] if n["flip"] >= 0 else len(data) + n["flip"]
                        if 0 <= off < len(data):
                            data[off] ^= 0xFF
                        f.seek(0)
                        f.write(data)
            elif n.get("rawbytes") is not None:
                with open(p, "wb") as f:
                    f.write(bytes(n["rawbytes"]))
            elif n.get("bigsize"):
                with open(p, "wb") as f:
                    f.truncate(int(n["bigsize"]))
            elif n.get("content") is not None:
                with open(p, "wb") as f:
                    f.write(content_bytes(n["content"]))
            else:
                with open(p, "wb") as f:
                    if n.get("size") is not None:
                        f.truncate(size_of(n["size"]))
        elif k == "symlink":
            later.append(n)
        elif k == "fifo":
            os.mkfifo(p)
        elif k == "socket":
            import socket
            s = socket.socket(socket.AF_UNIX)
            cwd = os.getcwd()
            try:
                os.chdir(os.path.dirname(p))
                s.bind(os.path.basename(p))
            finally:
                os.chdir(cwd)
                s.close()
        elif k == "chr":
            os.mknod(p, 0o600 | stat.S_IFCHR, os.makedev(1, 3))
        elif k == "blk":
            os.mknod(p, 0o600 | stat.S_IFBLK, os.makedev(7, 100 + n["id"]))
        else:
            raise ToolError("unknown kind " + k)
        for extra in n.get("hardlinks_extra", []) or []:
            os.link(p, os.path.join(paths[extra["parent"]], _chars(extra["name"])))
    for n in later:
        p = paths[n["id"]]
        t = n.get("target")
        style = n.get("tstyle", "abs")
        if isinstance(t, dict):
            style = t.get("style", style)
            t = t["raw"] if "raw" in t else t["to"]
        if isinstance(t, (str, list)):
            tgt = _chars(t)                      # literal link text
        elif t is not None and t >= 0:
            tp = paths[t]
            tgt = os.path.relpath(tp, os.path.dirname(p)) if style == "rel" else tp
        elif t == -2:
            tgt = os.path.join(base, "outside")
            os.makedirs(tgt, exist_ok=True)
            with open(os.path.join(tgt, "o.txt"), "w") as f:
                f.write("o")
        else:
            tgt = os.path.join(base, "nonexistent")
        os.symlink(tgt, p)
    if world.get("gitinit"):
        subprocess.run(["git", "init", "-q", root], stdout=subprocess.DEVNULL, stderr=subprocess.DEVNULL,
                       env=dict(os.environ, HOME=home, GIT_CONFIG_NOSYSTEM="1"))
    for d in world.get("gitrepos", []) or []:            # several repositories: the directories (node ids) that are repository roots
        subprocess.run(["git", "init", "-q", paths[d]], stdout=subprocess.DEVNULL, stderr=subprocess.DEVNULL,
                       env=dict(os.environ, HOME=home, GIT_CONFIG_NOSYSTEM="1"))
    for f in world.get("files", []) or []:
        p = os.path.join(paths[f.get("parent", 0)], _chars(f["name"]))
        os.makedirs(os.path.dirname(p), exist_ok=True)
        if f.get("dir"):
            os.makedirs(p, exist_ok=True)
        else:
            with open(p, "wb") as fh:
                fh.write(content_bytes(f.get("content")))
    # attributes, deepest first so that unreadable directories do not block us (we are root anyway)
    for n in reversed(nodes):
        p = paths[n["id"]]
        if n["kind"] != "symlink":
            if n.get("uid") is not None or n.get("gid") is not None:
                os.chown(p, n.get("uid", -1) if n.get("uid") is not None else -1,
                         n.get("gid", -1) if n.get("gid") is not None else -1)
            if n.get("mode") is not None:
                os.chmod(p, n["mode"])
            # extended attributes last: chown drops security.capability
            for k, v in (n.get("xattrs") or {}).items():
                os.setxattr(p, k, v.encode() if isinstance(v, str) else bytes(v))
            if n.get("hasx"):
                os.setxattr(p, "user.test", b"v")
            if n.get("capsraw"):
                os.setxattr(p, "security.capability", bytes(n["capsraw"]))
        else:
            if n.get("uid") is not None:
                os.lchown(p, n["uid"], n.get("gid", n["uid"]))
    for n in reversed(nodes):
        if n.get("mtime") is not None:
            p = paths[n["id"]]
            ns = n["mtime"] * 10 ** 9 + n.get("mtime_ms", 0) * 10 ** 6
            os.utime(p, ns=(ns, ns), follow_symlinks=False)
    for n in nodes:  # parents' mtimes are disturbed by children creation; re-apply top-down is not needed: done after all creation
        pass
    return World(base, paths, home)


def open_for_unprivileged(w, scratch):
    """Runs as uid 65534 must be able to reach the world and to own their HOME (the search root's own modes stay as modelled)."""
    d = w.base
    while d.startswith(scratch) or d == scratch:
        try:
            os.chmod(d, 0o755)
        except OSError:
            pass
        if d == scratch:
            break
        d = os.path.dirname(d)
    for dp, dn, fn in os.walk(w.home):
        os.chown(dp, 65534, 65534)
        for f in fn:
            os.chown(os.path.join(dp, f), 65534, 65534)


def snapshot(w, world, digests=False):
    """Ground truth only the OS can give, as arrays indexed by node id (1-based in TLA+)."""
    import pwd
    import grp
    snap = []
    ignored = set()
    if world.get("gitinit"):
        rels = [os.path.relpath(w.paths[n["id"]], w.paths[0]) for n in world.get("nodes", [])]
        p = subprocess.run(["git", "-C", w.paths[0], "check-ignore", "--stdin", "-z"], input="\0".join(rels).encode(),
                           stdout=subprocess.PIPE, stderr=subprocess.PIPE, env=dict(os.environ, HOME=w.home, GIT_CONFIG_NOSYSTEM="1"))
        if p.returncode not in (0, 1):
            raise ToolError("git check-ignore failed: %s" % p.stderr.decode()[:200])
        ignored = set(x for x in p.stdout.decode().split("\0") if x)
    repo_of = {}
    if world.get("gitrepos"):
        # every entry is judged by the repository it lies in (the innermost repository root above it); outside of them nothing is ignored
        roots = sorted((w.paths[d] for d in world["gitrepos"]), key=len, reverse=True)
        for n in world.get("nodes", []):
            pth = w.paths[n["id"]]
            for rt in roots:
                if pth.startswith(rt + os.sep):
                    repo_of[n["id"]] = rt
                    break
        for rt in set(repo_of.values()):
            rels = [os.path.relpath(w.paths[i], rt) for i, x in repo_of.items() if x == rt]
            p = subprocess.run(["git", "-C", rt, "check-ignore", "--stdin", "-z"], input="\0".join(rels).encode(),
                               stdout=subprocess.PIPE, stderr=subprocess.PIPE, env=dict(os.environ, HOME=w.home, GIT_CONFIG_NOSYSTEM="1"))
            if p.returncode not in (0, 1):
                raise ToolError("git check-ignore failed: %s" % p.stderr.decode()[:200])
            ignored |= set(os.path.join(rt, x) for x in p.stdout.decode().split("\0") if x)
    for n in sorted(world.get("nodes", []), key=lambda n: n["id"]):
        p = w.paths[n["id"]]
        st = os.lstat(p)
        rec = {"id": n["id"], "path": p, "ino": str(st.st_ino), "dev": str(st.st_dev), "nlink": str(st.st_nlink),
               "size": str(st.st_size), "blocks": str(st.st_blocks), "mode": st.st_mode, "perm": st.st_mode & 0o7777,
               "uid": str(st.st_uid), "gid": str(st.st_gid), "mtime": int(st.st_mtime),
               "sizen": st.st_size if st.st_size < 2 ** 31 else -1, "uidn": st.st_uid, "gidn": st.st_gid,
               "sizec": list(str(st.st_size)), "nlinkn": st.st_nlink, "blocksn": st.st_blocks if st.st_blocks < 2 ** 31 else -1}
        if world.get("gitinit"):
            rec["gitignored"] = os.path.relpath(p, w.paths[0]) in ignored
        elif world.get("gitrepos"):
            rec["gitignored"] = p in ignored
        try:
            rec["user"] = pwd.getpwuid(st.st_uid).pw_name
        except KeyError:
            rec["user"] = ""
        try:
            rec["group"] = grp.getgrgid(st.st_gid).gr_name
        except KeyError:
            rec["group"] = ""
        if digests and stat.S_ISREG(st.st_mode):
            data = open(p, "rb").read()
            rec["sha1"] = hashlib.sha1(data).hexdigest()
            rec["sha256"] = hashlib.sha256(data).hexdigest()
            rec["sha512"] = hashlib.sha512(data).hexdigest()
            rec["sha3"] = hashlib.sha3_512(data).hexdigest()
        elif digests:
            rec["sha1"] = rec["sha256"] = rec["sha512"] = rec["sha3"] = ""
        snap.append(rec)
    return snap


def write_config(home, cfg):
    """fselect's config.toml from the scenario's env.config (flat keys only).  {"own_default": true}: no file is written;
    the binary is run once so that it writes its own complete default configuration, as it does for a new user."""
    if (cfg or {}).get("own_default"):
        d = os.path.join(home, ".config", "fselect")
        shutil.rmtree(d, ignore_errors=True)
        empty = os.path.join(home, "empty-dir-for-first-run")
        os.makedirs(empty, exist_ok=True)
        run_fselect(["select name from '%s' limit 1" % empty], empty, home)
        return
    lines = []
    for k, v in (cfg or {}).items():
        if isinstance(v, bool):
            lines.append("%s = %s" % (k, "true" if v else "false"))
        elif isinstance(v, (int, float)):
            lines.append("%s = %s" % (k, v))
        elif isinstance(v, str):
            lines.append("%s = %s" % (k, json.dumps(v)))
        elif isinstance(v, list):
            lines.append("%s = [%s]" % (k, ", ".join(json.dumps(_chars(x) if not isinstance(x, str) else x) for x in v)))
    d = os.path.join(home, ".config", "fselect")
    os.makedirs(d, exist_ok=True)
    with open(os.path.join(d, "config.toml"), "w") as f:
        f.write("\n".join(lines) + "\n")


# --------------------------------------------------------------------------
# running the binary
# --------------------------------------------------------------------------
def run_fselect(argv, cwd, home, tz="UTC", fake_epoch=None, fail_after=None, uid=None, timeout=10.0,
                extra_env=None, stdin=None, write_log=None, user_home=None):
    # (user_home: what `~` stands for, when that is to be a directory of the world; the configuration stays where it is)
    env = {"HOME": user_home or home, "XDG_CONFIG_HOME": os.path.join(home, ".config"), "TZ": tz, "LC_ALL": "C",
           "PATH": "/usr/bin:/bin", "NO_COLOR": "1", "RUST_BACKTRACE": "0"}
    pre = []
    if fake_epoch is not None:
        env["VERIF_FAKE_EPOCH"] = str(fake_epoch)
        pre = [SHIM]
    if fail_after is not None:
        env["VERIF_STDOUT_FAIL_AFTER"] = str(fail_after)
        pre = [SHIM]
    if write_log is not None:
        env["VERIF_STDOUT_LOG"] = write_log
        pre = [SHIM]
    if pre:
        env["LD_PRELOAD"] = SHIM
    if extra_env:
        env.update(extra_env)
    cmd = [BIN] + list(argv)
    if uid is not None and uid != 0:
        cmd = ["setpriv", "--reuid", str(uid), "--regid", str(uid), "--clear-groups"] + cmd
    t0 = time.time()
    timed_out = False
    try:
        p = subprocess.Popen(cmd, cwd=cwd, env=env, stdin=subprocess.DEVNULL if stdin is None else subprocess.PIPE,
                             stdout=subprocess.PIPE, stderr=subprocess.PIPE, start_new_session=True)
        try:
            out, err = p.communicate(input=stdin, timeout=timeout)
        except subprocess.TimeoutExpired:
            timed_out = True
            try:
                os.killpg(p.pid, signal.SIGKILL)
            except ProcessLookupError:
                pass
            out, err = p.communicate()
        status = p.returncode
    except OSError as ex:
        raise ToolError("cannot run fselect: %s" % ex)
    err_t = err.decode("utf-8", "replace")
    return {"status": status if status is not None else -1, "timed_out": timed_out,
            "wall_ms": int((time.time() - t0) * 1000), "stdout": out, "stderr": err_t,
            "panic": ("panicked at" in err_t) or status == 101 or (status is not None and status < 0 and not timed_out)}


def extract_dbg(stderr, marker):
    """The value printed by a `dbg!(..)` whose expression text is `marker` (purely syntactic: the indented block after it)."""
    i = stderr.rfind(marker)          # (main prints the raw argument vector under the same name first)
    if i < 0:
        return ""
    lines = stderr[i + len(marker):].split("\n")
    out = [lines[0]]
    for ln in lines[1:]:
        if ln.startswith(" ") or ln in (")", "]", "}", "),"):
            out.append(ln)
        else:
            break
    return "\n".join(out)


def rust_debug_string(lit):
    """The text of a Rust `{:?}` string literal (with its quotes)."""
    body = lit[1:-1]
    out = []
    i = 0
    while i < len(body):
        c = body[i]
        if c == "\\" and i + 1 < len(body):
            n = body[i + 1]
            if n == "u" and body[i + 2:i + 3] == "{":
                j = body.index("}", i)
                out.append(chr(int(body[i + 3:j], 16)))
                i = j + 1
                continue
            out.append({"n": "\n", "t": "\t", "r": "\r", "0": "\0"}.get(n, n))
            i += 2
        else:
            out.append(c)
            i += 1
    return "".join(out)


def lexems_from_dbg(block):
    """`dbg!(&self.lexems)` pretty output -> [{"k": <variant>, "s": [chars]}] (purely syntactic)."""
    toks = []
    cur = None
    for ln in block.split("\n"):
        t = ln.strip()
        if t in ("[", "]", "") or t == "),":
            continue
        if t.endswith("("):
            cur = t[:-1]
        elif t.startswith('"'):
            toks.append({"k": cur, "s": list(rust_debug_string(t.rstrip(",")))})
            cur = None
        elif t.endswith(","):
            toks.append({"k": t[:-1], "s": []})
    return toks


def split_list(out, ncols):
    """NUL separated `into list` output -> rows of ncols cells (strings)."""
    txt = out.decode("utf-8", "replace")
    cells = txt.split("\0")
    if cells and cells[-1] == "":
        cells = cells[:-1]
    rows = [cells[i:i + ncols] for i in range(0, len(cells), ncols)]
    return rows


def chars(s):
    return list(s)


# --------------------------------------------------------------------------
# scratch
# --------------------------------------------------------------------------
def _neutral(d):
    """A place for worlds must not influence what is searched in them: no repository and no ignore file of the three tools in
    it or above it (fselect, like the tools, looks for them upwards), and reachable by the unprivileged runs (uid 65534)."""
    p = os.path.realpath(d)
    while True:
        if any(os.path.lexists(os.path.join(p, n)) for n in (".git", ".hg", ".hgignore", ".dockerignore")):
            return False
        try:
            if not os.stat(p).st_mode & 0o001:
                return False
        except OSError:
            return False
        if p == "/":
            return True
        p = os.path.dirname(p)


def scratch_dir():
    if os.environ.get("VERIF_SCRATCH"):
        d = os.environ["VERIF_SCRATCH"]
        os.makedirs(d, exist_ok=True)
    else:
        # the build directory when nothing above it can leak into the searches (e.g. /verif itself being a git repository whose
        # .gitignore names .build/ would make every world below it "ignored"), otherwise the system's temporary directories
        own = os.path.join(BUILD, "scratch")
        os.makedirs(own, exist_ok=True)
        for base in (own, "/var/tmp", "/tmp", "/dev/shm"):
            if os.path.isdir(base) and os.access(base, os.W_OK) and _neutral(base):
                break
        else:
            print("TOOL-ERROR no usable scratch location (tried %s, /var/tmp, /tmp, /dev/shm)" % own)
            sys.exit(2)
        d = tempfile.mkdtemp(prefix="fselect-verif.", dir=base)
    os.chmod(d, 0o755)
    return d


def rmtree(d):
    def onerr(func, path, exc):
        try:
            os.chmod(os.path.dirname(path), 0o700)
            os.chmod(path, 0o700)
            func(path)
        except Exception:
            pass
    # restore permissions so that removal works
    for dp, dn, fn in os.walk(d):
        try:
            os.chmod(dp, 0o700)
        except Exception:
            pass
    shutil.rmtree(d, onerror=onerr)


def pmap(fn, items, workers=14):
    with ThreadPoolExecutor(max_workers=workers) as ex:
        return list(ex.map(fn, items))


def sha(obj):
    return hashlib.sha1(json.dumps(obj, sort_keys=True).encode()).hexdigest()[:16]


def scn_sha(scn):
    """Identity of a scenario (a named world counts by its key)."""
    if "worldkey" in scn:
        return sha({k: v for k, v in scn.items() if k not in ("world", "id", "gen")})
    return sha({k: v for k, v in scn.items() if k not in ("id", "gen")})


WALK_EVENTS = ("root", "entry", "break", "leave", "dequeue", "drained", "done")     # the events Trace_Walker / Trace_WalkerL explain


def validate_traces(ctx, module, recs, shards=8, guard_event="entry"):
    """Trace validation of recorded runs by a Trace_* module (TRACEOK line per accepted run, runs consumed in order)."""
    def one(i):
        part = recs[i::shards]
        if not part:
            return [], 0, None
        fn = os.path.join(ctx.scratch, "%s.%d.ndjson" % (module, i))
        with open(fn, "w") as f:
            for rec in part:
                f.write(json.dumps(rec) + "\n")
        tr = run_tlc(module, workers=1, env={"TRACES": fn}, tags=("TRACEOK",), xmx="3g", deadlock=False)
        if tr.rc not in (0,) or tr.violated:
            return tr.lines["TRACEOK"], tr.distinct, "TLC: %s" % (tr.violated or tr.out[-300:])
        return tr.lines["TRACEOK"], tr.distinct, None
    ok = 0
    states = 0
    drift = []
    for i, (oks, st, err) in enumerate(pmap(one, range(shards), workers=shards)):
        part = recs[i::shards]
        ok += len(oks)
        states += st
        if err or len(oks) < len(part):
            first = part[len(oks)] if len(oks) < len(part) else part[-1]
            drift.append("trace rejected after %d accepted runs in shard %d: argv=%s %s" % (len(oks), i, json.dumps(first["argv"])[:160], err or ""))
    # binding guard: the longest recorded run with one event removed / one logged field flipped must be rejected
    guard = None
    if recs:
        import copy
        longest = max(recs, key=lambda x: len(x["events"]))
        idx = [i for i, e in enumerate(longest["events"]) if e.get("ev") == guard_event]
        bad = []
        if idx:
            a = copy.deepcopy(longest)
            del a["events"][idx[len(idx) // 2]]
            b = copy.deepcopy(longest)
            e = b["events"][idx[len(idx) // 2]]
            flip = "reported" if "reported" in e else "buffered"
            e[flip] = not e[flip]
            bad = [a, b]
        accepted = 0
        for j, rec in enumerate(bad):
            fn = os.path.join(ctx.scratch, "%s.guard%d.ndjson" % (module, j))
            with open(fn, "w") as f:
                f.write(json.dumps(dict(rec, id=1)) + "\n")
            tr = run_tlc(module, workers=1, env={"TRACES": fn}, tags=("TRACEOK",), xmx="2g", deadlock=False)
            if tr.lines["TRACEOK"] and not tr.violated:
                accepted += 1
        guard = {"corrupted_traces": len(bad), "accepted": accepted}
        if accepted:
            drift.append("binding guard: %d of %d corrupted traces were accepted by %s" % (accepted, len(bad), module))
    return {"kind": "trace-validation", "module": module, "states": states, "validated": ok, "rejected": len(recs) - ok,
            "events": sum(len(x["events"]) for x in recs), "drift": drift, "binding_guard": guard}


def run_apalache(module, obligations, timeout=600):
    """obligations: list of (name, init predicate, invariant, length).  A tool that cannot be run or runs out of time is
    recorded (note), not treated as a refutation."""
    t0 = time.time()
    out_dir = tempfile.mkdtemp(prefix="apalache.", dir=BUILD)
    done = 0
    refuted = None
    note = ""
    for name, init, inv, length in obligations:
        cmd = ["apalache-mc", "check", "--init=%s" % init, "--inv=%s" % inv, "--length=%d" % length,
               "--out-dir=%s" % out_dir, os.path.join(SPEC, module + ".tla")]
        try:
            p = subprocess.run(cmd, cwd=SPEC, stdout=subprocess.PIPE, stderr=subprocess.STDOUT, timeout=timeout)
            text = p.stdout.decode("utf-8", "replace")
        except (OSError, subprocess.TimeoutExpired) as ex:
            note = "%s: not decided (%s)" % (name, type(ex).__name__)
            continue
        if "The outcome is: NoError" in text:
            done += 1
        elif "The outcome is: Error" in text:
            refuted = name
            break
        else:
            note = "%s: not decided" % name
    rmtree(out_dir)
    return {"module": module, "tool": "apalache", "obligations": len(obligations), "discharged": done, "refuted": refuted,
            "note": note, "wall_s": round(time.time() - t0, 1)}
