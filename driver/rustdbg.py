"""Rust `{:#?}` (pretty Debug) text -> JSON-able Python values.  Purely syntactic:
   Name { f: v, .. } -> {"_": "Name", "f": v, ..}      Name(v) -> v for Some/Ok, else {"_": "Name", "0": v}
   [a, b]            -> [a, b]                           None / unit variants / numbers / bools -> "None" / "Name" / int / bool
   "text"            -> "text" (Rust escapes undone)     'c' -> "c"
"""
import re

from .lib import rust_debug_string

_TOK = re.compile(r'\s*("(?:[^"\\]|\\.)*"|\'(?:[^\'\\]|\\.)*\'|[A-Za-z_][A-Za-z_0-9]*(?:::[A-Za-z_][A-Za-z_0-9]*)*|-?\d+(?:\.\d+)?|[{}()\[\],:])')


def tokens(text):
    pos = 0
    out = []
    while pos < len(text):
        m = _TOK.match(text, pos)
        if not m:
            if text[pos:].strip() == "":
                break
            raise ValueError("cannot tokenise at %r" % text[pos:pos + 40])
        out.append(m.group(1))
        pos = m.end()
    return out


def parse(text):
    toks = tokens(text)
    val, i = _value(toks, 0)
    return val


def _value(t, i):
    tok = t[i]
    if tok == "[":
        i += 1
        items = []
        while t[i] != "]":
            v, i = _value(t, i)
            items.append(v)
            if t[i] == ",":
                i += 1
        return items, i + 1
    if tok.startswith('"'):
        return rust_debug_string(tok), i + 1
    if tok.startswith("'"):
        return rust_debug_string('"' + tok[1:-1] + '"'), i + 1
    if re.match(r"-?\d", tok):
        return (float(tok) if "." in tok else int(tok)), i + 1
    if tok in ("true", "false"):
        return tok == "true", i + 1
    # identifier: unit variant, tuple variant or struct
    name = tok
    i += 1
    if i < len(t) and t[i] == "(":
        i += 1
        vals = []
        while t[i] != ")":
            v, i = _value(t, i)
            vals.append(v)
            if t[i] == ",":
                i += 1
        i += 1
        if name in ("Some", "Ok") and len(vals) == 1:
            return vals[0], i
        d = {"_": name}
        for k, v in enumerate(vals):
            d[str(k)] = v
        return d, i
    if i < len(t) and t[i] == "{":
        i += 1
        d = {"_": name}
        while t[i] != "}":
            key = t[i]
            assert t[i + 1] == ":", t[i:i + 3]
            v, i = _value(t, i + 2)
            d[key] = v
            if t[i] == ",":
                i += 1
        return d, i + 1
    return name, i
