"""White-box trace validation of the result pipeline (Pipeline.tla / Trace_Pipeline.tla), shared by C06, C08 and C09:
real runs of the property's own scenarios with the hooks on; the recorded writer / accept events of each run are replayed
through the Pipeline actions (implementation -> specification)."""
import json
import os
import random
import time

from driver import lib, check

EVENTS = ("header", "accept", "sep", "row", "piece", "done", "footer")


def run(ctx, tier, seed, module, cfg, sample):
    t0 = time.time()
    r = lib.run_tlc(module, cfg, workers=4)
    lib.tlc_ok(r, module)
    scs = r.replays
    random.Random(seed + 3).shuffle(scs)
    if tier == "quick":
        scs = scs[:sample]
    recs = []
    skipped = 0
    for k, scn in enumerate(scs):
        w, snap = ctx.world(scn["world"], (scn.get("env") or {}).get("config"))
        for run_ in scn["runs"]:
            tf = os.path.join(ctx.scratch, "tracep.%d.%s" % (k, run_["tag"]))
            argv = [check.subst(a, w) for a in run_["argv"]]
            env = scn.get("env", {})
            cwd = w.base if env.get("cwd", 0) == -1 else w.paths[env.get("cwd", 0)]
            res = lib.run_fselect(argv, cwd, w.home, extra_env={"FSELECT_VERIF_TRACE": tf})
            events = [json.loads(x) for x in open(tf)] if os.path.exists(tf) else []
            done = [e for e in events if e["ev"] == "done"]
            if not done or res["status"] != 0:
                skipped += 1
                continue
            d = done[0]
            mode = "group" if d["grouped"] and d["aggregate"] else "agg" if d["aggregate"] else "ordered" if d["buffered"] else "stream"
            nrows = -1
            if argv[-1].endswith(" into list") and run_.get("ncols"):
                nrows = res["stdout"].count(b"\0") // run_["ncols"]
            recs.append({"id": len(recs) + 1, "mode": mode, "limit": d["limit"], "nrows": nrows, "argv": argv,
                         "events": [{"ev": e["ev"], "buffered": e.get("buffered", False)} for e in events if e["ev"] in EVENTS]})
    out = lib.validate_traces(ctx, "Trace_Pipeline", recs, shards=8, guard_event="accept")
    out.update({"name": "Pipeline", "skipped_runs": skipped, "wall_s": round(time.time() - t0, 1),
                "modes": {m: sum(1 for x in recs if x["mode"] == m) for m in ("stream", "ordered", "agg", "group")}})
    return out
