SPECIFICATION Spec
CONSTANTS
  MaxN = 4
  Kinds = {"file", "symlink"}
  Extra = 1
  Limits = {0}
  TwoRoots = TRUE
INVARIANTS NeverTwice OnlyListed ExactAtEnd CountAtEnd BfsMonotone DfsContiguous QueueOnlyInBfs
PROPERTY Terminates
