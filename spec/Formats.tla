------------------------------- MODULE Formats ------------------------------
(* Prop layer: recognisers / decoders for the six output formats (C09).      *)
(* Input: the bytes of stdout decoded as a sequence of characters (1-char    *)
(* strings).  Output: [ok |-> BOOLEAN, rows |-> sequence of rows, each a     *)
(* sequence of cells, each a sequence of characters].  A stream that is not  *)
(* well-formed by the format's grammar decodes to ok = FALSE.                *)
(*   list   cells terminated by NUL, `ncols` cells per row                   *)
(*   tabs   rows terminated by LF, cells separated by TAB                    *)
(*   lines  one cell per line (rows are not delimited: flat)                 *)
(*   csv    RFC 4180: records ended by LF or CRLF, fields separated by       *)
(*          commas, fields with comma / quote / line break quoted, quote     *)
(*          doubled inside quotes                                            *)
(*   json   one array of flat objects whose values are strings; all string   *)
(*          escapes; the values of one object in key order                   *)
(*   html   <html><body><table> (<tr>(<td>text</td>)*</tr>)* </table>...     *)
(*          text without raw < or raw &, entities &lt; &gt; &amp; &quot;     *)
(*          &#39; &#x27; &apos; unescaped                                    *)
EXTENDS Chars, FiniteSets

Fail == [ok |-> FALSE, rows |-> <<>>]
Ok(rows) == [ok |-> TRUE, rows |-> rows]

(* position of the first occurrence of character c at or after i, 0 if none *)
Find(cs, c, i) == IF \E j \in i .. Len(cs) : cs[j] = c THEN CHOOSE j \in i .. Len(cs) : cs[j] = c /\ \A k \in i .. j - 1 : cs[k] # c ELSE 0

RECURSIVE SplitTerminated(_, _, _)
SplitTerminated(cs, c, i) ==      \* pieces each terminated by c; [ok, cells]: not ok if trailing text lacks its terminator
  IF i > Len(cs) THEN [ok |-> TRUE, cells |-> <<>>]
  ELSE LET j == Find(cs, c, i) IN
       IF j = 0 THEN [ok |-> FALSE, cells |-> <<>>]
       ELSE LET r == SplitTerminated(cs, c, j + 1) IN [ok |-> r.ok, cells |-> <<SubSeq(cs, i, j - 1)>> \o r.cells]

RECURSIVE SplitSep(_, _)
SplitSep(s, c) == LET j == Find(s, c, 1) IN IF j = 0 THEN <<s>> ELSE <<SubSeq(s, 1, j - 1)>> \o SplitSep(SubSeq(s, j + 1, Len(s)), c)

RECURSIVE Group(_, _)
Group(cells, n) == IF cells = <<>> THEN <<>> ELSE <<SubSeq(cells, 1, n)>> \o Group(SubSeq(cells, n + 1, Len(cells)), n)

DecodeList(cs, nul, ncols) ==
  LET r == SplitTerminated(cs, nul, 1) IN
  IF ~r.ok \/ Len(r.cells) % ncols # 0 THEN Fail ELSE Ok(Group(r.cells, ncols))
DecodeTabs(cs) ==
  LET r == SplitTerminated(cs, "\n", 1) IN
  IF ~r.ok THEN Fail ELSE Ok([i \in 1 .. Len(r.cells) |-> SplitSep(r.cells[i], "\t")])
DecodeLines(cs) ==
  LET r == SplitTerminated(cs, "\n", 1) IN IF ~r.ok THEN Fail ELSE Ok(<<r.cells>>)     \* one flat "row"

(* ---- CSV ---- *)
RECURSIVE CsvQuoted(_, _, _)
CsvQuoted(cs, i, acc) ==      \* i just after the opening quote; [ok, val, next] where next is just after the closing quote
  IF i > Len(cs) THEN [ok |-> FALSE, val |-> <<>>, next |-> i]
  ELSE IF cs[i] = "\"" THEN (IF i + 1 <= Len(cs) /\ cs[i + 1] = "\"" THEN CsvQuoted(cs, i + 2, Append(acc, "\""))
                             ELSE [ok |-> TRUE, val |-> acc, next |-> i + 1])
  ELSE CsvQuoted(cs, i + 1, Append(acc, cs[i]))
RECURSIVE CsvPlain(_, _, _)
CsvPlain(cs, i, acc) ==
  IF i > Len(cs) \/ cs[i] \in {",", "\n", "\r"} THEN [ok |-> TRUE, val |-> acc, next |-> i]
  ELSE IF cs[i] = "\"" THEN [ok |-> FALSE, val |-> <<>>, next |-> i]
  ELSE CsvPlain(cs, i + 1, Append(acc, cs[i]))
CsvField(cs, i) == IF i <= Len(cs) /\ cs[i] = "\"" THEN CsvQuoted(cs, i + 1, <<>>) ELSE CsvPlain(cs, i, <<>>)
RECURSIVE CsvRecord(_, _, _)
CsvRecord(cs, i, fields) ==     \* [ok, row, next] next = first char of the next record
  LET f == CsvField(cs, i) IN
  IF ~f.ok THEN [ok |-> FALSE, row |-> <<>>, next |-> i]
  ELSE LET j == f.next  fs == Append(fields, f.val) IN
       IF j <= Len(cs) /\ cs[j] = "," THEN CsvRecord(cs, j + 1, fs)
       ELSE IF j <= Len(cs) /\ cs[j] = "\n" THEN [ok |-> TRUE, row |-> fs, next |-> j + 1]
       ELSE IF j + 1 <= Len(cs) /\ cs[j] = "\r" /\ cs[j + 1] = "\n" THEN [ok |-> TRUE, row |-> fs, next |-> j + 2]
       ELSE [ok |-> FALSE, row |-> <<>>, next |-> j]           \* text after a closing quote, or an unterminated last record
RECURSIVE CsvRecords(_, _, _)
CsvRecords(cs, i, rows) == IF i > Len(cs) THEN Ok(rows)
                           ELSE LET r == CsvRecord(cs, i, <<>>) IN IF ~r.ok THEN Fail ELSE CsvRecords(cs, r.next, Append(rows, r.row))
DecodeCsv(cs) == CsvRecords(cs, 1, <<>>)

(* ---- JSON ---- *)
HexVal(c) == IF IsDigitC(c) THEN DigitVal(c)
             ELSE CASE ToLowerC(c) = "a" -> 10 [] ToLowerC(c) = "b" -> 11 [] ToLowerC(c) = "c" -> 12 [] ToLowerC(c) = "d" -> 13
                    [] ToLowerC(c) = "e" -> 14 [] ToLowerC(c) = "f" -> 15 [] OTHER -> -1
(* ctl: the characters U+0001 .. U+001F as supplied with the record (TLA+ source cannot spell them) *)
RECURSIVE JsonString(_, _, _, _)
JsonString(cs, i, acc, ctl) ==    \* i just after the opening quote
  IF i > Len(cs) THEN [ok |-> FALSE, val |-> <<>>, next |-> i]
  ELSE IF cs[i] = "\"" THEN [ok |-> TRUE, val |-> acc, next |-> i + 1]
  ELSE IF \E k \in 1 .. Len(ctl) : ctl[k] = cs[i] THEN [ok |-> FALSE, val |-> <<>>, next |-> i]      \* raw control character
  ELSE IF cs[i] = "\\" THEN
     (IF i + 1 > Len(cs) THEN [ok |-> FALSE, val |-> <<>>, next |-> i]
      ELSE LET e == cs[i + 1] IN
           IF e \in {"\"", "\\", "/"} THEN JsonString(cs, i + 2, Append(acc, e), ctl)
           ELSE IF e = "n" THEN JsonString(cs, i + 2, Append(acc, "\n"), ctl)
           ELSE IF e = "t" THEN JsonString(cs, i + 2, Append(acc, "\t"), ctl)
           ELSE IF e = "r" THEN JsonString(cs, i + 2, Append(acc, "\r"), ctl)
           ELSE IF e = "b" THEN JsonString(cs, i + 2, Append(acc, ctl[8]), ctl)
           ELSE IF e = "f" THEN JsonString(cs, i + 2, Append(acc, ctl[12]), ctl)
           ELSE IF e = "u" /\ i + 5 <= Len(cs) /\ \A k \in 2 .. 5 : HexVal(cs[i + k]) >= 0 THEN
                LET v == HexVal(cs[i + 2]) * 4096 + HexVal(cs[i + 3]) * 256 + HexVal(cs[i + 4]) * 16 + HexVal(cs[i + 5]) IN
                IF v >= 1 /\ v <= 31 THEN JsonString(cs, i + 6, Append(acc, IF v = 10 THEN "\n" ELSE IF v = 9 THEN "\t" ELSE IF v = 13 THEN "\r" ELSE ctl[v]), ctl)
                ELSE [ok |-> FALSE, val |-> <<>>, next |-> i]      \* other \u escapes are not produced for the generated names
           ELSE [ok |-> FALSE, val |-> <<>>, next |-> i])
  ELSE JsonString(cs, i + 1, Append(acc, cs[i]), ctl)

RECURSIVE JsonPairs(_, _, _, _)
JsonPairs(cs, i, vals, ctl) ==    \* i at the opening quote of a key; [ok, row, next] next just after "}"
  IF i > Len(cs) \/ cs[i] # "\"" THEN [ok |-> FALSE, row |-> <<>>, next |-> i]
  ELSE LET k == JsonString(cs, i + 1, <<>>, ctl) IN
       IF ~k.ok \/ k.next > Len(cs) \/ cs[k.next] # ":" \/ k.next + 1 > Len(cs) \/ cs[k.next + 1] # "\"" THEN [ok |-> FALSE, row |-> <<>>, next |-> i]
       ELSE LET v == JsonString(cs, k.next + 2, <<>>, ctl) IN
            IF ~v.ok \/ v.next > Len(cs) THEN [ok |-> FALSE, row |-> <<>>, next |-> i]
            ELSE IF cs[v.next] = "," THEN JsonPairs(cs, v.next + 1, Append(vals, v.val), ctl)
            ELSE IF cs[v.next] = "}" THEN [ok |-> TRUE, row |-> Append(vals, v.val), next |-> v.next + 1]
            ELSE [ok |-> FALSE, row |-> <<>>, next |-> i]
JsonObject(cs, i, ctl) == IF i + 1 > Len(cs) \/ cs[i] # "{" THEN [ok |-> FALSE, row |-> <<>>, next |-> i]
                          ELSE IF cs[i + 1] = "}" THEN [ok |-> TRUE, row |-> <<>>, next |-> i + 2]
                          ELSE JsonPairs(cs, i + 1, <<>>, ctl)
RECURSIVE JsonObjects(_, _, _, _)
JsonObjects(cs, i, rows, ctl) ==   \* i at "{"
  LET o == JsonObject(cs, i, ctl) IN
  IF ~o.ok \/ o.next > Len(cs) THEN Fail
  ELSE IF cs[o.next] = "," THEN JsonObjects(cs, o.next + 1, Append(rows, o.row), ctl)
  ELSE IF cs[o.next] = "]" /\ o.next = Len(cs) THEN Ok(Append(rows, o.row))
  ELSE Fail
DecodeJson(cs, ctl) == IF Len(cs) < 2 \/ cs[1] # "[" THEN Fail
                       ELSE IF cs = <<"[", "]">> THEN Ok(<<>>)
                       ELSE JsonObjects(cs, 2, <<>>, ctl)

(* ---- HTML ---- *)
StartsAt(cs, i, lit) == i + Len(lit) - 1 <= Len(cs) /\ SubSeq(cs, i, i + Len(lit) - 1) = lit
Entities == << [e |-> <<"&","l","t",";">>, c |-> "<"], [e |-> <<"&","g","t",";">>, c |-> ">"], [e |-> <<"&","a","m","p",";">>, c |-> "&"],
               [e |-> <<"&","q","u","o","t",";">>, c |-> "\""], [e |-> <<"&","#","3","9",";">>, c |-> "'"], [e |-> <<"&","#","x","2","7",";">>, c |-> "'"],
               [e |-> <<"&","a","p","o","s",";">>, c |-> "'"], [e |-> <<"&","#","3","4",";">>, c |-> "\""] >>
RECURSIVE HtmlText(_, _, _)
HtmlText(cs, i, acc) ==       \* up to the next "<"; [ok, val, next]
  IF i > Len(cs) THEN [ok |-> FALSE, val |-> <<>>, next |-> i]
  ELSE IF cs[i] = "<" THEN [ok |-> TRUE, val |-> acc, next |-> i]
  ELSE IF cs[i] = "&" THEN
     (IF \E k \in 1 .. Len(Entities) : StartsAt(cs, i, Entities[k].e)
      THEN LET k == CHOOSE x \in 1 .. Len(Entities) : StartsAt(cs, i, Entities[x].e) IN HtmlText(cs, i + Len(Entities[k].e), Append(acc, Entities[k].c))
      ELSE [ok |-> FALSE, val |-> <<>>, next |-> i])
  ELSE HtmlText(cs, i + 1, Append(acc, cs[i]))
TD == <<"<","t","d",">">>   TDE == <<"<","/","t","d",">">>   TR == <<"<","t","r",">">>   TRE == <<"<","/","t","r",">">>
HtmlHead == <<"<","h","t","m","l",">","<","b","o","d","y",">","<","t","a","b","l","e",">">>
HtmlFoot == <<"<","/","t","a","b","l","e",">","<","/","b","o","d","y",">","<","/","h","t","m","l",">">>
RECURSIVE HtmlCells(_, _, _)
HtmlCells(cs, i, cells) ==    \* i after <tr> or after a </td>; [ok, row, next] next after </tr>
  IF StartsAt(cs, i, TRE) THEN [ok |-> TRUE, row |-> cells, next |-> i + Len(TRE)]
  ELSE IF StartsAt(cs, i, TD) THEN
     LET t == HtmlText(cs, i + Len(TD), <<>>) IN
     IF t.ok /\ StartsAt(cs, t.next, TDE) THEN HtmlCells(cs, t.next + Len(TDE), Append(cells, t.val))
     ELSE [ok |-> FALSE, row |-> <<>>, next |-> i]
  ELSE [ok |-> FALSE, row |-> <<>>, next |-> i]
RECURSIVE HtmlRows(_, _, _)
HtmlRows(cs, i, rows) ==
  IF StartsAt(cs, i, HtmlFoot) THEN (IF i + Len(HtmlFoot) - 1 = Len(cs) THEN Ok(rows) ELSE Fail)
  ELSE IF StartsAt(cs, i, TR) THEN LET r == HtmlCells(cs, i + Len(TR), <<>>) IN IF r.ok THEN HtmlRows(cs, r.next, Append(rows, r.row)) ELSE Fail
  ELSE Fail
DecodeHtml(cs) == IF StartsAt(cs, 1, HtmlHead) THEN HtmlRows(cs, Len(HtmlHead) + 1, <<>>) ELSE Fail

(* multiset equality of two sequences *)
BagEq(a, b) == Len(a) = Len(b) /\ \A x \in { a[i] : i \in 1 .. Len(a) } \cup { b[i] : i \in 1 .. Len(b) } :
                 Cardinality({ i \in 1 .. Len(a) : a[i] = x }) = Cardinality({ i \in 1 .. Len(b) : b[i] = x })
RECURSIVE FlattenRows(_)
FlattenRows(rows) == IF rows = <<>> THEN <<>> ELSE rows[1] \o FlattenRows(Tail(rows))
=============================================================================
