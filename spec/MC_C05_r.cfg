SPECIFICATION Spec
CONSTANTS
  MaxKeys = 2
  KeyCols = {"name", "size", "modified", "length(name)", "ext", "uid", "length(name) * 4"}
  WorldSel = {1, 2}
INVARIANTS EmitWorld Emit
