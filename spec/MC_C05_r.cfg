SPECIFICATION Spec
CONSTANTS
  MaxKeys = 2
  KeyCols = {"name", "size", "modified", "length(name)", "ext", "uid", "blocks", "length(name) * 4"}
  WorldSel = {1, 2}
INVARIANTS EmitWorld Emit
