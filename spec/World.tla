------------------------------- MODULE World -------------------------------
(* Prop layer: the file system as the properties see it.                    *)
(* A world is a record [nodes |-> <<n1, .., nN>>]; node i is a record with  *)
(* at least id (= i), parent (0 = the world's top directory, else < i),     *)
(* kind \in {"dir","file","symlink","fifo","socket","chr","blk"} and name.  *)
(* The same definitions are used by the scenario generators (which build    *)
(* worlds), by the judges (which read them back from observation records)   *)
(* and by the Mech models.                                                  *)
EXTENDS Integers, Sequences, FiniteSets

NodeIds(w) == 1 .. Len(w.nodes)
Kind(w, n) == w.nodes[n].kind
ParentOf(w, n) == w.nodes[n].parent
IsDir(w, n) == n = 0 \/ w.nodes[n].kind = "dir"
ChildrenOf(w, d) == { n \in NodeIds(w) : w.nodes[n].parent = d }

(* Nesting level of n below directory r (r = 0 is the top directory):       *)
(* 1 = directly inside r, -1 = n is not below r.                            *)
RECURSIVE LevelBelow(_, _, _)
LevelBelow(w, r, n) ==
  IF n = 0 THEN -1
  ELSE LET p == w.nodes[n].parent IN
       IF p = r THEN 1
       ELSE IF p = 0 THEN -1
       ELSE LET x == LevelBelow(w, r, p) IN IF x = -1 THEN -1 ELSE x + 1

Below(w, r, n) == LevelBelow(w, r, n) # -1
DepthOf(w, n) == LevelBelow(w, 0, n)
MaxDepth(w) == IF w.nodes = <<>> THEN 0
               ELSE CHOOSE d \in 0 .. Len(w.nodes) :
                      /\ \E n \in NodeIds(w) : DepthOf(w, n) = d
                      /\ \A n \in NodeIds(w) : DepthOf(w, n) <= d

(* Path of node n relative to the top directory, as text "a/b/c".           *)
RECURSIVE RelPath(_, _)
RelPath(w, n) == IF w.nodes[n].parent = 0 THEN w.nodes[n].name
                 ELSE RelPath(w, w.nodes[n].parent) \o "/" \o w.nodes[n].name

(* The depth window of the documentation and of C01: level L is listed iff  *)
(* (min = 0 \/ L >= min) /\ (max = 0 \/ L <= max).                           *)
InWindow(L, min, max) == L >= 1 /\ (min = 0 \/ L >= min) /\ (max = 0 \/ L <= max)

(* Entries reached without following links: every ancestor strictly between *)
(* r and n is a real directory (true by construction: only dirs are parents).*)
Listed(w, r, min, max) == { n \in NodeIds(w) : Below(w, r, n) /\ InWindow(LevelBelow(w, r, n), min, max) }

(* Following links (C18).  The directory a node stands for when it is entered: itself, or what a link (through any chain  *)
(* of links) resolves to; -1 = none (file, dangling link, link loop).  Link targets: a node id, 0 = the top directory,     *)
(* negative = nothing inside the world.                                                                                  *)
RECURSIVE Resolve(_, _, _)
Resolve(w, n, fuel) ==
  IF n = 0 THEN 0
  ELSE IF n < 0 \/ fuel = 0 THEN -1
  ELSE IF w.nodes[n].kind = "dir" THEN n
  ELSE IF w.nodes[n].kind = "symlink" THEN Resolve(w, w.nodes[n].target, fuel - 1)
  ELSE -1
RECURSIVE Closure(_, _)
Closure(w, S) == LET T == S \cup ({ Resolve(w, c, 8) : c \in UNION { ChildrenOf(w, d) : d \in S } } \ {-1})
                 IN IF T = S THEN S ELSE Closure(w, T)
(* the real directories reachable from root through directories and links, and the entries they contain *)
Reachable(w, root) == Closure(w, {root})
Behind(w, root) == UNION { ChildrenOf(w, d) : d \in Reachable(w, root) }

(* the same closure that does not pass through the directories of `avoid` (they are entered, if at all, by someone else) *)
RECURSIVE ClosureAvoid(_, _, _)
ClosureAvoid(w, S, avoid) == LET T == S \cup (({ Resolve(w, c, 8) : c \in UNION { ChildrenOf(w, d) : d \in S \ avoid } } \ {-1}))
                             IN IF T = S THEN S ELSE ClosureAvoid(w, T, avoid)

(* Depth windows while following links.  A directory may be reached along several routes; DirLevels gives, for every real    *)
(* directory, the levels (root = 0, bounded by K) at which some route enters it - a sub-directory one level below its       *)
(* parent, a link's target at the level of the link.  An entry can be listed at one more than a level of its directory.   *)
RECURSIVE DirLevelsFrom(_, _, _, _)
DirLevelsFrom(w, S, k, K) ==          \* S: the directories entered at level k
  IF k > K \/ S = {} THEN {}
  ELSE { <<d, k>> : d \in S } \cup DirLevelsFrom(w, { Resolve(w, c, 8) : c \in UNION { ChildrenOf(w, d) : d \in S } } \ {-1}, k + 1, K)
DirLevels(w, root, K) == DirLevelsFrom(w, {root}, 0, K)
WalkLevels(w, root, n, K) == { p[2] + 1 : p \in { q \in DirLevels(w, root, K) : q[1] = w.nodes[n].parent } }
(* The level of an entry is its nesting level below the root along the way the search came - also behind a link, wherever *)
(* the target really lies.  A directory is searched once per query, by whichever route reaches it first, so an entry that  *)
(* several routes reach at different levels is due only when every one of them puts it inside the window, and admissible   *)
(* when some does.                                                                                                         *)
CandidateLevels(w, root, n, K) == WalkLevels(w, root, n, K)
DueInWindow(w, root, n, min, max, K) == LET c == CandidateLevels(w, root, n, K) IN c # {} /\ (\A L \in c : InWindow(L, min, max)) /\ (\A L \in c : L < K)
AdmissibleInWindow(w, root, n, min, max, K) == \E L \in CandidateLevels(w, root, n, K) : InWindow(L, min, max)

Disjoint(w, r1, r2) == r1 # r2 /\ ~Below(w, r1, r2) /\ ~Below(w, r2, r1) /\ r1 # 0 /\ r2 # 0
=============================================================================
