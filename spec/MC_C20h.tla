------------------------------- MODULE MC_C20h ------------------------------
(* Binding layer, scenario generator for C20: one query over two roots that  *)
(* each hold their own .hgignore / .dockerignore with different rules.       *)
(* Every entry is judged by the rules of the root it lies below (contexts:   *)
(* `ctxs` = search root, directory of the ignore file, its lines), so rules  *)
(* carried over from the first root, or a second file that is never read,    *)
(* show.  The first file may also be empty of patterns.                      *)
EXTENDS Integers, Sequences, TLC, Json

VARIABLES tool, order, first, mode, phase
vars == <<tool, order, first, mode, phase>>

NoRx == [els |-> <<>>, astart |-> FALSE, aend |-> FALSE]
G(text, cs, blank) == [text |-> text, chars |-> cs, glob |-> cs, neg |-> FALSE, rx |-> NoRx, blank |-> blank, isrx |-> FALSE]
StarLog == G("*.log", <<"*", ".", "l", "o", "g">>, FALSE)
StarTmp == G("*.tmp", <<"*", ".", "t", "m", "p">>, FALSE)
Comment == G("# nothing", <<>>, TRUE)
Fl(i, p, nm, c) == [id |-> i, parent |-> p, kind |-> "file", name |-> nm, content |-> c]
Dr(i, p, nm) == [id |-> i, parent |-> p, kind |-> "dir", name |-> nm, content |-> ""]
IgnName == IF tool = "docker" THEN ".dockerignore" ELSE ".hgignore"
Hdr == IF tool = "docker" THEN "" ELSE "syntax: glob\n"
L1 == IF first = "rules" THEN StarLog ELSE Comment
W == [gitinit |-> FALSE,
      nodes |-> << Dr(1, 0, "p1"), Fl(2, 1, IgnName, Hdr \o L1.text \o "\n"), Fl(3, 1, "a.log", "x"), Fl(4, 1, "a.tmp", "x"), Fl(5, 1, "b.txt", "x"),
                   Dr(6, 0, "p2"), Fl(7, 6, IgnName, Hdr \o StarTmp.text \o "\n"), Fl(8, 6, "c.log", "x"), Fl(9, 6, "c.tmp", "x"), Fl(10, 6, "d.txt", "x"),
                   Dr(11, 1, "sub"), Fl(12, 11, "e.log", "x"), Fl(13, 11, "e.tmp", "x"), Dr(14, 6, "sub"), Fl(15, 14, "f.log", "x"), Fl(16, 14, "f.tmp", "x") >>
                \o (IF tool = "docker" THEN <<>> ELSE << Dr(17, 1, ".hg"), Dr(18, 6, ".hg") >>)]

Init == tool = "" /\ order = 0 /\ first = "" /\ mode = "" /\ phase = "start"
Choose == /\ phase = "start" /\ tool' \in {"hgglob", "docker"} /\ order' \in {1, 2} /\ first' \in {"rules", "comment"} /\ mode' \in {"", " bfs", " dfs"} /\ phase' = "done"
Spec == Init /\ [][Choose]_vars

Opt == IF tool = "docker" THEN " dockerignore" ELSE " hgignore"
R1 == "'p1'" \o Opt \o mode
R2 == "'p2'" \o Opt \o mode
Query == "select inode, path from " \o (IF order = 1 THEN R1 \o ", " \o R2 ELSE R2 \o ", " \o R1) \o " where name != '.hg' into list"
Scenario == [prop |-> "C20", class |-> tool \o "/two-roots/" \o first \o "/" \o ToString(order) \o (IF mode = "" THEN "" ELSE "/" \o mode), world |-> W, tool |-> tool,
             lines |-> <<>>, active |-> TRUE, root |-> 0,
             ctxs |-> << [root |-> 1, base |-> 1, lines |-> <<L1>>], [root |-> 6, base |-> 6, lines |-> <<StarTmp>>] >>,
             env |-> [tz |-> "UTC", cwd |-> 0, config |-> [debug |-> FALSE, gitignore |-> FALSE, hgignore |-> FALSE, dockerignore |-> FALSE]],
             runs |-> << [tag |-> "q", ncols |-> 2, argv |-> << Query >>] >>]
Emit == phase = "done" => PrintT(<<"REPLAY", ToJson(Scenario)>>)
=============================================================================
