SPECIFICATION Spec
CONSTANTS
  MaxN = 4
  MaxLinks = 2
  Extra = 1
INVARIANTS NeverTwice EnteredOnce OnlyBehind ExactAtEnd PlainAtEnd WindowAtEnd EnteredAtEnd QueueOnlyInBfs
PROPERTY Terminates
