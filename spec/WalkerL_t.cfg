SPECIFICATION Spec
CONSTANTS
  MaxN = 4
  MaxLinks = 2
  Extra = 1
INVARIANTS NeverTwice EnteredOnce OnlyBehind ExactAtEnd PlainAtEnd EnteredAtEnd QueueOnlyInBfs
PROPERTY Terminates
