--------------------------- MODULE Trace_Pipeline ---------------------------
(* Binding layer, white-box trace validation of the result pipeline.         *)
(* Events (src/verif.rs hooks in src/output/mod.rs and src/searcher.rs):     *)
(*    header  ResultsWriter::write_header        sep   ::write_row_separator *)
(*    row     ResultsWriter::write_row           footer ::write_footer       *)
(*    accept  check_file accepted an entry (found += 1), with `buffered`     *)
(*    piece   a buffered row was written to stdout                           *)
(*    done    the walk is over                                               *)
(* One Pipeline action explains a group of consecutive events:               *)
(*    Header     = header                                                    *)
(*    Offer(T)   = accept [sep] row      (streamed; sep iff not the first)   *)
(*               = accept row            (buffered: formatted into the       *)
(*                                        buffer, nothing reaches stdout)    *)
(*    Plan(p)    = done                  (p, the number of partitions, is    *)
(*                                        not logged: TLC chooses it)        *)
(*    WriteRow   = [sep] piece           (ordered)                           *)
(*               = [sep] row             (agg, group)                        *)
(*    Footer     = footer                                                    *)
(* Entries that conforms() rejects leave no event and do not change the      *)
(* pipeline: arr is the all-TRUE sequence of the accepted ones.              *)
EXTENDS Pipeline, Json, IOUtils

Runs == ndJsonDeserialize(IOEnv.TRACES)
VARIABLES ti, tl
tvars == <<vars, ti, tl>>
Ev(i) == Runs[i].events
Accepts(i) == Cardinality({ k \in 1 .. Len(Ev(i)) : Ev(i)[k].ev = "accept" })
Is(k, name) == k <= Len(Ev(ti)) /\ Ev(ti)[k].ev = name

Load(i) == /\ mode' = Runs[i].mode /\ limit' = Runs[i].limit /\ arr' = [k \in 1 .. Accepts(i) |-> TRUE]
           /\ idx' = 0 /\ found' = 0 /\ kept' = 0 /\ raw' = 0 /\ todo' = -1 /\ out' = <<>> /\ pc' = "init"
TInit == /\ ti = 1 /\ tl = 1
         /\ mode = Runs[1].mode /\ limit = Runs[1].limit /\ arr = [k \in 1 .. Accepts(1) |-> TRUE]
         /\ idx = 0 /\ found = 0 /\ kept = 0 /\ raw = 0 /\ todo = -1 /\ out = <<>> /\ pc = "init"

NoRowYet == ~\E i \in 1 .. Len(out) : out[i].t = "R"
Step ==
  \/ Is(tl, "header") /\ Header /\ tl' = tl + 1
  \/ /\ Is(tl, "accept") /\ Ev(ti)[tl].buffered = Buffered /\ Offer(TRUE)
     /\ IF Buffered THEN Is(tl + 1, "row") /\ tl' = tl + 2
        ELSE IF found = 0 THEN Is(tl + 1, "row") /\ tl' = tl + 2
        ELSE Is(tl + 1, "sep") /\ Is(tl + 2, "row") /\ tl' = tl + 3
  \/ Is(tl, "done") /\ (\E p \in 0 .. raw : Plan(p)) /\ tl' = tl + 1
  \/ /\ pc = "compute" /\ WriteRow
     /\ LET what == IF mode = "ordered" THEN "piece" ELSE "row" IN
        IF NoRowYet THEN Is(tl, what) /\ tl' = tl + 1
        ELSE Is(tl, "sep") /\ Is(tl + 1, what) /\ tl' = tl + 2
  \/ Is(tl, "footer") /\ Footer /\ tl' = tl + 1

TNext ==
  \/ /\ ti <= Len(Runs) /\ tl <= Len(Ev(ti)) /\ Step /\ ti' = ti
  \/ /\ ti <= Len(Runs) /\ tl > Len(Ev(ti)) /\ pc = "done"
     /\ PrintT(<<"TRACEOK", ToJson([id |-> Runs[ti].id, events |-> Len(Ev(ti)), rows |-> Len(Rows(out))])>>)
     /\ ti' = ti + 1 /\ tl' = 1
     /\ IF ti < Len(Runs) THEN Load(ti + 1) ELSE UNCHANGED vars
TSpec == TInit /\ [][TNext]_tvars
(* the Pipeline invariants on the states real runs drive the model through; the number of rows the run printed (black-box *)
(* count of the decoded output, logged by the driver) must be the model's *)
TraceInv == /\ GrammarAtEnd /\ GrammarAlways /\ CountAtEnd /\ GroupBounds /\ StreamPrefix /\ RawComplete /\ NoWorkAfterLimit
            /\ (pc = "done" /\ ti <= Len(Runs) /\ Runs[ti].nrows >= 0) => Len(Rows(out)) = Runs[ti].nrows
=============================================================================
