SPECIFICATION Spec
CONSTANTS
  MaxN = 5
  Kinds = {"file"}
  TwoRoots = TRUE
  Extra = 2
INVARIANT Emit
