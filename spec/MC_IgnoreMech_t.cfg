SPECIFICATION Spec
CONSTANTS
  MaxLen = 5
  MaxPath = 6
  Alphabet = {"*", "?", "a", "/", "!"}
  PathAlphabet = {"a", "b", "/"}
INVARIANTS HgAgree DockerAgree FoldAgree RxAgree
CHECK_DEADLOCK FALSE
