---- MODULE Judge_C19_TTrace_1791100510 ----
EXTENDS Sequences, TLCExt, Toolbox, Naturals, TLC, Judge_C19

_expression ==
    LET Judge_C19_TEExpression == INSTANCE Judge_C19_TEExpression
    IN Judge_C19_TEExpression!expression
----

_trace ==
    LET Judge_C19_TETrace == INSTANCE Judge_C19_TETrace
    IN Judge_C19_TETrace!trace
----

_inv ==
    ~(
        TLCGet("level") = Len(_TETrace)
        /\
        l = (2)
    )
----

_init ==
    /\ l = _TETrace[1].l
----

_next ==
    /\ \E i,j \in DOMAIN _TETrace:
        /\ \/ /\ j = i + 1
              /\ i = TLCGet("level")
        /\ l  = _TETrace[i].l
        /\ l' = _TETrace[j].l

\* Uncomment the ASSUME below to write the states of the error trace
\* to the given file in Json format. Note that you can pass any tuple
\* to `JsonSerialize`. For example, a sub-sequence of _TETrace.
    \* ASSUME
    \*     LET J == INSTANCE Json
    \*         IN J!JsonSerialize("Judge_C19_TTrace_1791100510.json", _TETrace)

=============================================================================

 Note that you can extract this module `Judge_C19_TEExpression`
  to a dedicated file to reuse `expression` (the module in the 
  dedicated `Judge_C19_TEExpression.tla` file takes precedence 
  over the module `Judge_C19_TEExpression` below).

---- MODULE Judge_C19_TEExpression ----
EXTENDS Sequences, TLCExt, Toolbox, Naturals, TLC, Judge_C19

expression == 
    [
        \* To hide variables of the `Judge_C19` spec from the error trace,
        \* remove the variables below.  The trace will be written in the order
        \* of the fields of this record.
        l |-> l
        
        \* Put additional constant-, state-, and action-level expressions here:
        \* ,_stateNumber |-> _TEPosition
        \* ,_lUnchanged |-> l = l'
        
        \* Format the `l` variable as Json value.
        \* ,_lJson |->
        \*     LET J == INSTANCE Json
        \*     IN J!ToJson(l)
        
        \* Lastly, you may build expressions over arbitrary sets of states by
        \* leveraging the _TETrace operator.  For example, this is how to
        \* count the number of times a spec variable changed up to the current
        \* state in the trace.
        \* ,_lModCount |->
        \*     LET F[s \in DOMAIN _TETrace] ==
        \*         IF s = 1 THEN 0
        \*         ELSE IF _TETrace[s].l # _TETrace[s-1].l
        \*             THEN 1 + F[s-1] ELSE F[s-1]
        \*     IN F[_TEPosition - 1]
    ]

=============================================================================



Parsing and semantic processing can take forever if the trace below is long.
 In this case, it is advised to uncomment the module below to deserialize the
 trace from a generated binary file.

\*
\*---- MODULE Judge_C19_TETrace ----
\*EXTENDS IOUtils, TLC, Judge_C19
\*
\*trace == IODeserialize("Judge_C19_TTrace_1791100510.bin", TRUE)
\*
\*=============================================================================
\*

---- MODULE Judge_C19_TETrace ----
EXTENDS TLC, Judge_C19

trace == 
    <<
    ([l |-> 1]),
    ([l |-> 2])
    >>
----


=============================================================================

---- CONFIG Judge_C19_TTrace_1791100510 ----

INVARIANT
    _inv

CHECK_DEADLOCK
    \* CHECK_DEADLOCK off because of PROPERTY or INVARIANT above.
    FALSE

INIT
    _init

NEXT
    _next

CONSTANT
    _TETrace <- _trace

ALIAS
    _expression
=============================================================================
\* Generated on Sun Oct 04 07:55:11 UTC 2026