--------------------------- MODULE MC_ConformsMech --------------------------
(* Mech => Prop for the whole WHERE path (C02 / C03): for every formula TLC  *)
(* enumerates in MC_C03 and every entry of world W3, the query text is       *)
(* lexed (Lexer), parsed (Parser) and evaluated (Conforms) by the mechanism  *)
(* models, and the Boolean they compute must be the truth value the Prop     *)
(* layer (Eval!EvalP over the same entry) gives the formula - wherever Prop  *)
(* defines one ("U" = left open) and the mechanism model does not abstain.   *)
EXTENDS MC_ParserMech, Conforms, Eval

SynthSnap(w) == [n \in 1 .. Len(w.nodes) |->
   [mode |-> (IF w.nodes[n].kind = "dir" THEN 16384 ELSE 32768) + w.nodes[n].mode, sizen |-> SizeOfNode(w.nodes[n]),
    uidn |-> w.nodes[n].uid, gidn |-> w.nodes[n].gid, nlinkn |-> 1, mtime |-> w.nodes[n].mtime]]
Rec3 == [world |-> W3, snapshot |-> SynthSnap(W3)]
EntryOf(n) == [name |-> W3.nodes[n].namec, ext |-> ExtC(W3.nodes[n].namec), size |-> SizeOfNode(W3.nodes[n]), uid |-> W3.nodes[n].uid, gid |-> W3.nodes[n].gid,
               isdir |-> (W3.nodes[n].kind = "dir"), isfile |-> (W3.nodes[n].kind = "file"), mtime |-> W3.nodes[n].mtime]
Agree(style) == LET ast == ParseWhere(LexAll(<<QueryC(style)>>)) IN
   ast.ok /\ \A n \in 1 .. Len(W3.nodes) :
      LET c == ConformsR(ast.e, EntryOf(n))  p == EvalP(Rec3, n, toks, 1, Atoms(tab))[1] IN
      (c.ok /\ p # "U") => (c.b <=> (p = "T"))
MechAgreesWithProp == (open = 0) => (Agree("min") /\ Agree("full"))
(* vacuity guards: the mechanism model decides (does not abstain) for every atom of the tables on every entry *)
Decided == (open = 0 /\ Len(toks) = 1) =>
   \A n \in 1 .. Len(W3.nodes) : ConformsR(ParseWhere(LexAll(<<QueryC("min")>>)).e, EntryOf(n)).ok
=============================================================================
