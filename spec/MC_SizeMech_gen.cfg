SPECIFICATION Spec
CONSTANTS
  FmtPrecisions = {9}
  FmtUnits = {""}
INVARIANTS EmitWorld EmitC
CHECK_DEADLOCK FALSE
