------------------------------- MODULE MC_C13 -------------------------------
(* Binding layer, scenario generator (and world) for C13.  Literal table x   *)
(* separator x quoting x operator x time zone; relative literals under a     *)
(* controlled clock.  The world holds one file per instant on the grid       *)
(* a-1, a, a+1, b-1, b, b+1 around every literal's interval in both zones.   *)
EXTENDS Civil, Lang, Json, FiniteSets

VARIABLES lit, op, tz, sep, quoted, clock, phase
vars == <<lit, op, tz, sep, quoted, clock, phase>>

(* absolute literals: [y, m, d, hh, mi, ss, prec]  prec: 1 day, 2 hour, 3 minute, 4 second *)
L(y, m, d, hh, mi, ss, p) == [y |-> y, m |-> m, d |-> d, hh |-> hh, mi |-> mi, ss |-> ss, prec |-> p, rel |-> 0, word |-> ""]
AbsLits == { L(2017, 5, 1, 0, 0, 0, 1), L(2017, 4, 30, 0, 0, 0, 1), L(2016, 2, 29, 0, 0, 0, 1), L(2016, 12, 31, 0, 0, 0, 1),
             L(2017, 1, 1, 0, 0, 0, 1), L(2017, 5, 1, 15, 0, 0, 2), L(2017, 5, 1, 0, 0, 0, 2), L(2016, 12, 31, 23, 0, 0, 2),
             L(2017, 5, 1, 15, 10, 0, 3), L(2016, 2, 29, 23, 59, 0, 3), L(2017, 1, 1, 0, 0, 0, 3),
             L(2017, 5, 1, 15, 10, 30, 4), L(2016, 12, 31, 23, 59, 59, 4), L(2017, 1, 1, 0, 0, 0, 4), L(2016, 3, 1, 0, 0, 0, 4),
             \* (the leap day of a year divisible by 400; the last day of a 30-day month)
             L(2000, 2, 29, 0, 0, 0, 1), L(2000, 2, 29, 12, 0, 0, 2), L(2016, 11, 30, 0, 0, 0, 1) }
(* relative literals: whole local days relative to the controlled clock *)
R(word, k) == [y |-> 0, m |-> 0, d |-> 0, hh |-> 0, mi |-> 0, ss |-> 0, prec |-> 1, rel |-> k, word |-> word]
RelLits == { R("today", 0), R("yesterday", -1), R("-2", -2), R("+1", 1), R("-1000", -1000), R("+1000", 1000) }      \* (day offsets of any length)
Clocks == { Epoch(2017, 5, 1, 12, 0, 0, 0), Epoch(2017, 3, 31, 23, 59, 59, 0), Epoch(2016, 3, 1, 0, 0, 30, 0) }
Offsets == {0, 10800, 1}          \* zone codes: fixed offsets, and 1 = a zone with daylight saving time (Civil!ZoneOffAt)
TzName(off) == IF off = 0 THEN "UTC" ELSE IF off = 1 THEN "EST5EDT,M3.2.0,M11.1.0" ELSE "Etc/GMT-3"
Ops == {"eq", "ne", "gt", "gte", "lt", "lte", "range"}      \* range: the column compared twice in one WHERE (`>= lit and <= lit`)

(* the closed interval [a, b] of instants a literal denotes in zone `off` with clock `clk` *)
Interval(x, off, clk) ==
  IF x.word # "" THEN LET lt == LocalTime(clk, ZoneOffAt(off, clk))
                          \* the local calendar day of the clock, shifted by whole days; midnight of that day under the offset in force on it
                          \* (none of the shifted days is a transition day)
                          day == DaysFromCivil(lt.y, lt.m, lt.d) + x.rel
                          a == day * 86400 - (IF off # 1 THEN off ELSE DstOffAt(day * 86400 + 43200))
                      IN <<a, a + 86399>>
  ELSE LET a == Epoch(x.y, x.m, x.d, x.hh, x.mi, x.ss, ZoneOffOn(off, x.y, x.m, x.d))
       IN <<a, a + (CASE x.prec = 1 -> 86399 [] x.prec = 2 -> 3599 [] x.prec = 3 -> 59 [] OTHER -> 0)>>

(* the days on which the zone with daylight saving time (code 1) changes its offset: 2017-03-12 has no 02:00 .. 02:59, 2017-11-05 has    *)
(* 01:00 .. 01:59 twice.  There a literal is compared with the local time of an entry as the clock on the wall shows it (both 01:30 are   *)
(* 01:30), so the interval is given in wall-clock seconds and the judge turns every entry time into wall-clock seconds of the zone.       *)
DstLits == { L(2017, 11, 5, 1, 30, 0, 3), L(2017, 11, 5, 1, 0, 0, 2), L(2017, 11, 5, 0, 0, 0, 1), L(2017, 11, 5, 1, 30, 0, 4),
             L(2017, 3, 12, 0, 0, 0, 1), L(2017, 3, 12, 3, 0, 0, 2), L(2017, 3, 12, 1, 59, 0, 3) }
WallInterval(x) == LET a == Epoch(x.y, x.m, x.d, x.hh, x.mi, x.ss, 0)
                   IN <<a, a + (CASE x.prec = 1 -> 86399 [] x.prec = 2 -> 3599 [] x.prec = 3 -> 59 [] OTHER -> 0)>>
DstGrid == LET n5 == Epoch(2017, 11, 5, 0, 0, 0, 0)  m12 == Epoch(2017, 3, 12, 0, 0, 0, 0) IN
   { n5 + x : x \in { 14399, 14400, 17999, 18000, 19799, 19800, 19859, 19860, 21599, 21600, 23399, 23400, 23459, 23460, 25199, 25200, 104399, 104400 } }
   \cup { m12 + x : x \in { 17999, 18000, 25140, 25199, 25200, 28799, 28800, 100799, 100800 } }
Grid0 == UNION { LET iv == Interval(x, off, clk) IN {iv[1] - 1, iv[1], iv[1] + 1, iv[2] - 1, iv[2], iv[2] + 1}
                : x \in AbsLits \cup RelLits, off \in Offsets, clk \in Clocks }
Grid == Grid0 \cup DstGrid
RECURSIVE SortSet(_)
SortSet(S) == IF S = {} THEN <<>> ELSE LET m == CHOOSE x \in S : \A y \in S : x <= y IN <<m>> \o SortSet(S \ {m})
Instants == SortSet(Grid)
W13 == [nodes |-> [i \in 1 .. Len(Instants) |->
          [id |-> i, parent |-> 0, kind |-> "file", name |-> "t" \o ToString(Instants[i]), mtime |-> Instants[i],
           mtime_ms |-> IF i % 3 = 0 THEN 500 ELSE IF i % 7 = 0 THEN 999 ELSE 0]]]

NoLit == R("", 0)
Init == lit = NoLit /\ op = "" /\ tz = 0 /\ sep = "-" /\ quoted = TRUE /\ clock = 0 /\ phase = "start"
ChooseAbs == /\ phase = "start"
             \* sep "/": the documented free-form spelling day/month/year in the UK reading (08/02 is 8 February), day precision only
             /\ lit' \in AbsLits /\ op' \in Ops /\ tz' \in Offsets /\ sep' \in (IF lit'.prec = 1 /\ lit'.y >= 2016 THEN {"-", ":", "/"} ELSE {"-", ":"})
             /\ quoted' \in (IF lit'.prec = 1 /\ sep' # "/" THEN BOOLEAN ELSE {TRUE})        \* a blank inside needs quotes
             /\ clock' = Epoch(2017, 5, 1, 12, 0, 0, 0) /\ phase' = "done"
ChooseRel == /\ phase = "start"
             /\ lit' \in RelLits /\ op' \in Ops /\ tz' \in Offsets /\ sep' = "-" /\ quoted' \in BOOLEAN
             /\ clock' \in Clocks /\ phase' = "done"
ChooseStamp == /\ phase = "start" /\ lit' = NoLit /\ op' = "stamp" /\ tz' \in Offsets /\ sep' = "-" /\ quoted' = TRUE
               /\ clock' = 0 /\ phase' = "done"
ChooseDst == /\ phase = "start" /\ lit' \in DstLits /\ op' \in Ops /\ tz' = 1 /\ sep' = "-" /\ quoted' = TRUE
             /\ clock' = Epoch(2017, 5, 1, 12, 0, 0, 0) /\ phase' = "done"
Next == ChooseAbs \/ ChooseRel \/ ChooseStamp \/ ChooseDst
Spec == Init /\ [][Next]_vars

LitText == IF lit.word # "" THEN lit.word
           ELSE IF sep = "/" THEN Pad2(lit.d) \o "/" \o Pad2(lit.m) \o "/" \o Pad4(lit.y)
           ELSE Pad4(lit.y) \o sep \o Pad2(lit.m) \o sep \o Pad2(lit.d)
                \o (IF lit.prec >= 2 THEN " " \o Pad2(lit.hh) ELSE "")
                \o (IF lit.prec >= 3 THEN ":" \o Pad2(lit.mi) ELSE "")
                \o (IF lit.prec >= 4 THEN ":" \o Pad2(lit.ss) ELSE "")
Shown == IF quoted THEN "'" \o LitText \o "'" ELSE LitText
Query == IF op = "stamp" THEN "select name, modified from '.' into list"
         ELSE IF op = "range" THEN "select name from '.' where modified >= " \o Shown \o " and modified <= " \o Shown \o " into list"
         ELSE "select name from '.' where modified " \o OpText(op) \o " " \o Shown \o " into list"
Class == IF op = "stamp" THEN "modified-text/" \o TzName(tz)
         ELSE (IF lit.word # "" THEN "relative:" \o lit.word ELSE "precision" \o ToString(lit.prec)) \o "/" \o op
              \o (IF sep = ":" THEN "/colon" ELSE IF sep = "/" THEN "/day-month-year" ELSE "") \o (IF quoted THEN "" ELSE "/unquoted")
OnDstDay == lit \in DstLits
Scenario == LET iv == IF op = "stamp" THEN <<0, 0>> ELSE IF OnDstDay THEN WallInterval(lit) ELSE Interval(lit, tz, clock) IN
  [prop |-> "C13", world |-> "W13", class |-> Class \o (IF OnDstDay THEN "/transition-day" ELSE ""), wall |-> OnDstDay, op |-> op, a |-> iv[1], b |-> iv[2], off |-> tz,
   env |-> [tz |-> TzName(tz), cwd |-> 0, fake_epoch |-> IF lit.word # "" THEN clock ELSE -1],
   runs |-> << [tag |-> "q", ncols |-> IF op = "stamp" THEN 2 ELSE 1, argv |-> << Query >>] >>]
EmitWorld == (phase = "start") => PrintT(<<"WORLD", ToJson([key |-> "W13", world |-> W13])>>)
Emit == phase = "done" => PrintT(<<"REPLAY", ToJson(Scenario)>>)
=============================================================================
