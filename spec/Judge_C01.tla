----------------------------- MODULE Judge_C01 ------------------------------
(* Binding layer, trace judge for C01.  Each observation record is one      *)
(* recorded behaviour of the real binary (scenario + rows of the bfs and    *)
(* dfs runs + the OS's inode numbers).  A record is accepted iff it is a    *)
(* behaviour the Prop layer (World!Listed, the ordering clauses of the      *)
(* statement) allows.  One TLC step per record; every verdict is printed.   *)
EXTENDS World, TLC, Json, IOUtils

Rec == ndJsonDeserialize(IOEnv.OBS)
VARIABLE l

(* --- reading one record -------------------------------------------------- *)
Snap(r, n) == r.snapshot[n]
IdOfIno(r, s) == IF \E n \in NodeIds(r.world) : Snap(r, n).ino = s
                 THEN CHOOSE n \in NodeIds(r.world) : Snap(r, n).ino = s ELSE 0
Ids(r, t) == LET rows == r.obs[t].rows IN [i \in 1 .. Len(rows) |-> IdOfIno(r, rows[i][1])]

RootOf(r, n) == IF \E j \in 1 .. Len(r.roots) : Below(r.world, r.roots[j], n)
                THEN CHOOSE j \in 1 .. Len(r.roots) : Below(r.world, r.roots[j], n) ELSE 0
LevelOf(r, n) == LevelBelow(r.world, r.roots[RootOf(r, n)], n)

(* --- Prop: what the statement allows -------------------------------------- *)
Expected(r) == UNION { Listed(r.world, r.roots[j], r.min, r.max) : j \in 1 .. Len(r.roots) }

NoDup(s) == \A i, j \in 1 .. Len(s) : i # j => s[i] # s[j]
Range(s) == { s[i] : i \in 1 .. Len(s) }

BfsMonotone(r, ids) ==
  \A i, j \in 1 .. Len(ids) :
     (i < j /\ RootOf(r, ids[i]) = RootOf(r, ids[j])) => LevelOf(r, ids[i]) <= LevelOf(r, ids[j])

(* every listed directory is immediately followed by exactly its listed descendants *)
DfsContiguous(r, ids) ==
  \A i \in 1 .. Len(ids) :
     LET d == ids[i]
         sub == { n \in Range(ids) : Below(r.world, d, n) }
     IN Kind(r.world, d) = "dir" =>
          \A j \in 1 .. Len(ids) : (ids[j] \in sub) <=> (i < j /\ j <= i + Cardinality(sub))

RunWhy(r, t) ==
  LET ids == Ids(r, t) IN
  IF r.obs[t].timed_out THEN "timeout"
  ELSE IF \E i \in 1 .. Len(ids) : ids[i] = 0 THEN "unknown-row"
  ELSE IF ~NoDup(ids) THEN "duplicate-row"
  ELSE IF Range(ids) \ Expected(r) # {} THEN "extra-row"
  ELSE IF Expected(r) \ Range(ids) # {} THEN "missing-row"
  ELSE IF t = "bfs" /\ ~BfsMonotone(r, ids) THEN "bfs-order"
  ELSE IF t = "dfs" /\ ~DfsContiguous(r, ids) THEN "dfs-order"
  ELSE "ok"

Why(r) == IF RunWhy(r, "bfs") # "ok" THEN "bfs:" \o RunWhy(r, "bfs")
          ELSE IF RunWhy(r, "dfs") # "ok" THEN "dfs:" \o RunWhy(r, "dfs")
          ELSE "ok"     \* SameSet(bfs, dfs) follows: both equal Expected

NonTrivial(r) == Expected(r) # {} /\ Expected(r) # NodeIds(r.world)

Verdict(r) == LET y == Why(r) IN
  [id |-> r.id, ok |-> (y = "ok"), class |-> r.class, why |-> y,
   key |-> "C01/" \o r.class \o "/" \o y, nontrivial |-> NonTrivial(r)]

Init == l = 1
Next == /\ l <= Len(Rec)
        /\ PrintT(<<"VERDICT", ToJson(Verdict(Rec[l]))>>)
        /\ l' = l + 1
Spec == Init /\ [][Next]_l
Judged == PrintT(<<"JUDGED", ToJson([n |-> TLCGet("stats").diameter - 1])>>)
=============================================================================
