SPECIFICATION Spec
CONSTANTS
  MaxN = 4
  Kinds = {"file", "symlink", "fifo"}
  TwoRoots = TRUE
  Extra = 2
INVARIANT Emit
