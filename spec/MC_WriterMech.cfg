SPECIFICATION Spec
CONSTANTS
  MaxRows = 2
  MaxCols = 2
INVARIANTS CsvRoundTrip HtmlRoundTrip JsonRoundTrip
CHECK_DEADLOCK FALSE
