SPECIFICATION Spec
CONSTANTS
  MaxRows = 2
  MaxCols = 2
INVARIANTS CsvRoundTrip HtmlRoundTrip
CHECK_DEADLOCK FALSE
