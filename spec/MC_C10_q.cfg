SPECIFICATION Spec
CONSTANTS
  MaxSoup = 3
  MaxMut = 1
  Kinds = {"soup", "mutate", "reject", "argv"}
INVARIANTS EmitWorld Emit
