--------------------------- MODULE MC_ExprEvalMech --------------------------
(* Mech => Prop for arithmetic (C15): every expression of MC_C15's families, *)
(* in both bracket styles, is rendered as characters, lexed and parsed by    *)
(* the mechanism models (Lexer, Parser) and evaluated the way                *)
(* get_column_expr_value does it (ExprEval, with the per-row cache); on      *)
(* every entry of world W15 the value must be the one Arith!AEval defines -  *)
(* wherever Prop defines one.  Rows of several expressions (every ordered    *)
(* pair of the one-operator family over three leaves, and MC_C15's lists)    *)
(* are evaluated over one shared cache: each column must still show its own  *)
(* value (the second sentence of C15, for the cache design).                 *)
EXTENDS MC_ExprMemo, ExprEval, Arith

NodeIdsW == 1 .. Len(W15.nodes)
Base(n) == IF W15.nodes[n].linkto # 0 THEN W15.nodes[n].linkto ELSE n
Nlink(n) == 1 + Cardinality({ m \in NodeIdsW : W15.nodes[m].linkto = Base(n) })
SizeW(n) == LET c == W15.nodes[Base(n)].content IN IF c = <<>> THEN 0 ELSE c[1].count + (IF Len(c) > 1 THEN c[2].count ELSE 0)
Snap15 == [n \in NodeIdsW |-> [sizen |-> SizeW(n), nlinkn |-> Nlink(n)]]
Rec15 == [world |-> W15, snapshot |-> Snap15]
Entry(n) == [size |-> SizeW(n), hardlinks |-> Nlink(n), lines |-> CountByte(W15.nodes[Base(n)].content, 10), name |-> W15.nodes[n].namec]

Agrees(tree, e, n, cache) == LET m == EV(tree, Entry(n), cache)  p == AEval(Rec15, n, e, 1) IN p.ok => (m.ok /\ m.v = p.v)
(* one expression per state of MC_C15 (kind "one"): the value on every entry, from an empty cache *)
OneAgrees == (phase = "done" /\ kind = "one") =>
   LET t == TreeOf(exprs[1], style) IN ~IsNone(t) /\ \A n \in NodeIdsW : Agrees(t, exprs[1], n, {})
(* rows: the columns share the cache *)
RowAgrees(es, st) == LET ts == [j \in 1 .. Len(es) |-> TreeOf(es[j], st)] IN
   \A n \in NodeIdsW : LET vs == RowVals(ts, Entry(n), {}) IN
      \A j \in 1 .. Len(es) : LET p == AEval(Rec15, n, es[j], 1) IN p.ok => (vs[j].ok /\ vs[j].v = p.v)
PairsAgree == (phase = "done" /\ kind = "pairop") => RowAgrees(exprs, "min") /\ RowAgrees(exprs, "full")
BracketPairsAgree == (phase = "done" /\ kind = "pairbr") => RowAgrees(exprs, "min")
ListsAgree == (phase = "done" /\ kind = "list") => RowAgrees(exprs, "min")
(* vacuity guard: Prop defines a value for most of what is compared *)
Defined == (phase = "start") => Cardinality({ <<e, n>> \in (One \cup Negs) \X NodeIdsW : AEval(Rec15, n, e, 1).ok }) * 2 > Cardinality(One \cup Negs) * Len(W15.nodes)
=============================================================================
