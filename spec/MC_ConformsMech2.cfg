SPECIFICATION Spec
CONSTANTS
  KnownWords <- MCKnown2
INVARIANTS SameText2 AtomAgrees
