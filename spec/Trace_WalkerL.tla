---------------------------- MODULE Trace_WalkerL ---------------------------
(* Binding layer, white-box trace validation of the walk with and without    *)
(* the `symlinks` option (C18).  The events are those of Trace_Walker        *)
(* (src/verif.rs); they are explained by the actions of WalkerL:             *)
(*    root     <-> Start            entry   <-> PickOne(e, how)              *)
(*    leave    <-> EndOfDir         dequeue <-> Dequeue (queue head entered  *)
(*    drained  <-> Dequeue (empty)               or refused: visited_dirs)   *)
(*    done     <-> Finish                                                    *)
(* `entry` carries the inode of the directory entry itself (a link's own     *)
(* inode), whether a row was produced, and what the code did about the       *)
(* descent; `leave` and `dequeue` carry the inode of the real directory the  *)
(* path resolves to.  An activation refused by visited_dirs logs nothing:    *)
(* the model's Activate leaves the stack as it is and the next event must be *)
(* explained from there.                                                     *)
EXTENDS WalkerL, Json, IOUtils

Runs == ndJsonDeserialize(IOEnv.TRACES)
VARIABLES ti, tl
tvars == <<vars, ti, tl>>

Events(i) == Runs[i].events
NodeOf(i, ino) == IF ino = Runs[i].topino THEN 0
                  ELSE IF \E n \in 1 .. Len(Runs[i].snapshot) : Runs[i].snapshot[n].ino = ino
                       THEN CHOOSE n \in 1 .. Len(Runs[i].snapshot) : Runs[i].snapshot[n].ino = ino ELSE -1

Load(i) == /\ w' = Runs[i].world /\ root' = Runs[i].root /\ win' = <<Runs[i].min, Runs[i].max>> /\ dfs' = Runs[i].dfs /\ follow' = Runs[i].follow
           /\ stack' = <<>> /\ queue' = <<>> /\ visited' = {} /\ vdirs' = {} /\ entered' = <<>> /\ out' = <<>> /\ pc' = "start"
TInit == /\ ti = 1 /\ tl = 1
         /\ w = Runs[1].world /\ root = Runs[1].root /\ win = <<Runs[1].min, Runs[1].max>> /\ dfs = Runs[1].dfs /\ follow = Runs[1].follow
         /\ stack = <<>> /\ queue = <<>> /\ visited = {} /\ vdirs = {} /\ entered = <<>> /\ out = <<>> /\ pc = "start"

Step(ev) ==
  \/ ev.ev = "root" /\ root = NodeOf(ti, ev.ino) /\ Start
  \/ /\ ev.ev = "entry" /\ PickOne(NodeOf(ti, ev.ino), ev.descend)
     /\ (Len(out') > Len(out)) = ev.reported
  \/ ev.ev = "leave" /\ stack # <<>> /\ Top.dir = NodeOf(ti, ev.ino) /\ EndOfDir
  \/ ev.ev = "dequeue" /\ queue # <<>> /\ Res(Head(queue)[1]) = NodeOf(ti, ev.ino) /\ Dequeue
  \/ ev.ev = "drained" /\ queue = <<>> /\ Dequeue
  \/ ev.ev = "done" /\ Finish

TNext ==
  \/ /\ ti <= Len(Runs) /\ tl <= Len(Events(ti))
     /\ Step(Events(ti)[tl]) /\ tl' = tl + 1 /\ ti' = ti
  \/ /\ ti <= Len(Runs) /\ tl > Len(Events(ti)) /\ pc = "done"
     /\ PrintT(<<"TRACEOK", ToJson([id |-> Runs[ti].id, events |-> Len(Events(ti)), rows |-> Len(out), entered |-> Len(entered)])>>)
     /\ ti' = ti + 1 /\ tl' = 1
     /\ IF ti < Len(Runs) THEN Load(ti + 1) ELSE UNCHANGED vars
TSpec == TInit /\ [][TNext]_tvars
(* the WalkerL invariants, re-checked on the model states the real runs drive it through *)
TraceInv == NeverTwice /\ EnteredOnce /\ OnlyBehind /\ ExactAtEnd /\ WindowAtEnd /\ EnteredAtEnd /\ QueueOnlyInBfs
=============================================================================
