------------------------------ MODULE MC_Lexer ------------------------------
(* Model checking the Lexer mechanism (C11, Mech layer) and generating its   *)
(* conformance scenarios.  A query is a sequence of symbols, each expanding  *)
(* to characters (keywords, a known column name, an unknown word, numbers, a *)
(* date-like word, blank, comma, brackets, operator and arithmetic           *)
(* characters, a quote).  For every symbol sequence up to MaxLen TLC checks  *)
(*   SplitInvariance:  lexing the query passed as one argument and passed as *)
(*   one argument per blank-separated word gives the same token list, unless *)
(*   a word in root position (directly after FROM or after a comma between   *)
(*   roots) contains a character that ends a token - the named deviation:    *)
(*   with several arguments such a word is deliberately taken whole as a     *)
(*   path.                                                                   *)
(* and emits the query (REPLAY) so that the real lexer's token dump can be   *)
(* compared with LexAll (Judge_Lexer).                                       *)
EXTENDS Lexer, TLC, Json

CONSTANTS MaxLen, Symbols

VARIABLE syms
MCKnown == { <<"s","i","z","e">>, <<"n","a","m","e">>, <<"l","e","n">>, <<"l","i","n","e","_","c","o","u","n","t">> }
Expand(sy) == CASE sy = "FROM" -> <<"f","r","o","m">> [] sy = "WHERE" -> <<"w","h","e","r","e">> [] sy = "ORDER" -> <<"o","r","d","e","r">>
                [] sy = "BY" -> <<"b","y">> [] sy = "NOT" -> <<"N","o","t">> [] sy = "AND" -> <<"a","n","d">> [] sy = "ASC" -> <<"a","s","c">>
                [] sy = "size" -> <<"s","i","z","e">> [] sy = "line_count" -> <<"l","i","n","e","_","c","o","u","n","t">> [] sy = "ab" -> <<"a","b">> [] sy = "12" -> <<"1","2">>
                [] sy = "date" -> <<"2","0","1","7","-","0","5">> [] sy = "gte" -> <<"g","t","e">> [] sy = "mul" -> <<"m","u","l">>
                [] OTHER -> <<sy>>
RECURSIVE ExpandAll(_)
ExpandAll(ss) == IF ss = <<>> THEN <<>> ELSE Expand(ss[1]) \o ExpandAll(Tail(ss))
Query == ExpandAll(syms)

Init == syms = <<>>
Next == Len(syms) < MaxLen /\ \E sy \in Symbols : syms' = Append(syms, sy)
Spec == Init /\ [][Next]_syms

OneArg == LexAll(<<Query>>)
Split == LexAll(FullSplit(Query))
(* the named deviation: some blank-separated word that follows FROM (or a root-separating comma) contains a token-ending character *)
Breakers == {",", "(", ")", "{", "}", "=", "!", "<", ">", "~", "'", "\"", "`"}
(* (a comma that ends the word is not one: it separates the root from the next one, as in the one-argument form) *)
WordHasBreaker(wd) == \E i \in 1 .. Len(wd) : wd[i] \in Breakers /\ ~(i = Len(wd) /\ wd[i] = ",")
RootWordDeviation == LET ws == FullSplit(Query) IN
   \E i \in 1 .. Len(ws) - 1 : (LowerSeq(ws[i]) = <<"f","r","o","m">> \/ (ws[i] # <<>> /\ ws[i][Len(ws[i])] = ","))
                               /\ WordHasBreaker(ws[i + 1])
HasQuote == \E i \in 1 .. Len(Query) : Query[i] \in {"'", "\"", "`"}
SplitInvariance == (Len(FullSplit(Query)) >= 1 /\ ~RootWordDeviation /\ ~HasQuote) => OneArg = Split
(* without the named deviation the law is false: TLC exhibits the shortest counterexample (used as a vacuity guard) *)
SplitInvarianceStrict == (Len(FullSplit(Query)) >= 1 /\ ~HasQuote) => OneArg = Split
NoFuelExhaustion == \A i \in 1 .. Len(OneArg) : OneArg[i].k # "FUEL"

Scenario == [prop |-> "C11", class |-> "lexer/len" \o ToString(Len(syms)), world |-> "WL", query |-> Query,
             env |-> [tz |-> "UTC", cwd |-> 0, config |-> [debug |-> TRUE]],
             runs |-> << [tag |-> "one", fmt |-> "none", argv |-> << Str(Query) >>],
                         [tag |-> "split", fmt |-> "none", argv |-> [i \in 1 .. Len(FullSplit(Query)) |-> Str(FullSplit(Query)[i])]] >>]
WL == [nodes |-> << [id |-> 1, parent |-> 0, kind |-> "file", name |-> "a"] >>]
EmitWorld == (syms = <<>>) => PrintT(<<"WORLD", ToJson([key |-> "WL", world |-> WL])>>)
Emit == (syms # <<>> /\ Query[1] # " " /\ FullSplit(Query) # <<>>) => PrintT(<<"REPLAY", ToJson(Scenario)>>)
=============================================================================
