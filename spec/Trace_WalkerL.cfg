SPECIFICATION TSpec
CONSTANTS
  MaxN = 0
  MaxLinks = 0
  Extra = 0
INVARIANT TraceInv
CHECK_DEADLOCK FALSE
