----------------------------- MODULE Judge_C07 ------------------------------
(* Binding layer, trace judge for C07 (and the ungrouped part of C08): the   *)
(* run must print exactly one row whose cells are the aggregates Agg!AggOk   *)
(* accepts for the entries the WHERE filter selects (Eval!Sat3).             *)
EXTENDS Agg, TLC, Json, IOUtils

Rec == ndJsonDeserialize(IOEnv.OBS)
VARIABLE l

Verdict(r) ==
  LET all  == NodeIds(r.world)
      sat  == [n \in all |-> Sat3(r, n, r.formula)]
      S    == { n \in all : sat[n] = "T" }
      rows == r.obs.q.rows
      res  == IF Len(rows) = 1 /\ Len(rows[1]) = Len(r.fns)
              THEN [i \in 1 .. Len(r.fns) |-> AggOk(r, S, r.fns[i], r.col, rows[1][i])] ELSE <<>>
      bad  == { i \in 1 .. Len(res) : res[i] = "F" }
      y == IF r.obs.q.timed_out THEN "timeout"
           ELSE IF r.obs.q.panic THEN "crash"
           ELSE IF Len(rows) # 1 THEN "not-one-row"
           ELSE IF Len(rows[1]) # Len(r.fns) THEN "wrong-cell-count"
           ELSE IF bad # {} THEN "wrong-" \o r.fns[CHOOSE i \in bad : \A j \in bad : i <= j]
           ELSE "ok"
  IN [id |-> r.id, ok |-> (y = "ok"), class |-> r.class, why |-> y,
      key |-> "C07/" \o r.class \o "/" \o y,
      nontrivial |-> (Cardinality(S) >= 2 /\ \E i \in 1 .. Len(res) : res[i] = "T")]

Init == l = 1
Next == /\ l <= Len(Rec)
        /\ PrintT(<<"VERDICT", ToJson(Verdict(Rec[l]))>>)
        /\ l' = l + 1
Spec == Init /\ [][Next]_l
Judged == PrintT(<<"JUDGED", ToJson([n |-> TLCGet("stats").diameter - 1])>>)
=============================================================================
