------------------------------- MODULE MC_C03L ------------------------------
(* Binding layer, scenario generator for the laws of C03 as relations        *)
(* between the outputs of several queries over one tree - no truth value of  *)
(* an atom is needed, so the atoms include comparisons whose meaning the     *)
(* Prop layer leaves open (ordering operators on text columns):              *)
(*   complement   rows(F) and rows(not F) partition the entries              *)
(*   doubleneg    rows(not not F) = rows(F)                                  *)
(*   and / or     rows(F and G) = rows(F) \cap rows(G); union for or         *)
(*   demorgan     rows(not (F and G)) = rows(not F or not G), and dually     *)
(*   precedence   rows(F or G and H) = rows(F) \cup (rows(G) \cap rows(H))   *)
EXTENDS WorldC03, Json, TLC

VARIABLES law, f, g, h, phase
vars == <<law, f, g, h, phase>>

AtomTexts == { "name > 'p4.log'", "name <= 'p6'", "ext >= 'm'", "name < 500", "name gte 'q'", "path lt './p5'",
               "size > 10", "name like '%.txt'", "ext === 'log'",
               \* date atoms whose interval ends on the second some entry was modified (23:59:59 of the day, 15:59:59 of the hour)
               "modified = 2017-05-01", "modified != '2017-05-01 15'", "modified > '2017-05-01 15'", "modified <= 2017-05-01",
               \* the documented infix negations and operator words in other letter cases
               "size between 10 and 1024", "size NOT BETWEEN 10 AND 1024", "size Between 11 And 2000", "name NOT LIKE '%.log'", "name Like 'p%'", "name RX 'txt$'",
               \* text operators on columns that are not text (they see the value as it is printed)
               "size like '1%'", "uid =~ '^1'", "size notlike '%0'",
               \* ordering operators on a boolean column; strict equality with a decimal literal
               "is_dir < true", "is_dir >= false", "is_file gt false", "is_dir <= true", "size === 10.0", "size !== 1024.0", "size === 11" }
Laws == {"complement", "complement-prefix", "doubleneg", "and", "or", "demorgan-and", "demorgan-or", "precedence"}
Unary == {"complement", "complement-prefix", "doubleneg"}
Init == law = "" /\ f = "" /\ g = "" /\ h = "" /\ phase = "start"
Choose == /\ phase = "start" /\ law' \in Laws /\ f' \in AtomTexts
          /\ g' \in (IF law' \in Unary THEN {""} ELSE AtomTexts \ {f'})
          /\ h' \in (IF law' = "precedence" THEN {"size > 10", "name <= 'p6'"} \ {f', g'} ELSE {""})
          /\ phase' = "done"
Spec == Init /\ [][Choose]_vars

Q(c) == "select path from '.' where " \o c \o " into list"
Run(t, c) == [tag |-> t, ncols |-> 1, argv |-> << Q(c) >>]
Runs3 ==
  CASE law = "complement" -> << Run("a", f), Run("b", "not (" \o f \o ")") >>
    [] law = "complement-prefix" -> << Run("a", f), Run("b", "not " \o f) >>
    [] law = "doubleneg" -> << Run("a", f), Run("b", "not not " \o f), Run("c", "not (not (" \o f \o "))") >>
    [] law = "and" -> << Run("a", f), Run("b", g), Run("c", f \o " and " \o g) >>
    [] law = "or" -> << Run("a", f), Run("b", g), Run("c", f \o " or " \o g) >>
    [] law = "demorgan-and" -> << Run("a", "not (" \o f \o " and " \o g \o ")"), Run("b", "not " \o f \o " or not " \o g) >>
    [] law = "demorgan-or" -> << Run("a", "not (" \o f \o " or " \o g \o ")"), Run("b", "not " \o f \o " and not " \o g) >>
    [] law = "precedence" -> << Run("a", f), Run("b", g), Run("c", h), Run("d", f \o " or " \o g \o " and " \o h) >>
Scenario == [prop |-> "C03", class |-> "law/" \o law, world |-> "W3", law |-> law,
             formula |-> [f |-> "law", toks |-> <<>>, atoms |-> <<>>],
             env |-> [tz |-> "UTC", cwd |-> 0], runs |-> Runs3]
EmitWorld == (phase = "start") => PrintT(<<"WORLD", ToJson([key |-> "W3", world |-> W3])>>)
Emit == (phase = "done") => PrintT(<<"REPLAY", ToJson(Scenario)>>)
=============================================================================
