------------------------------- MODULE MC_C12 -------------------------------
(* Binding layer, scenario generator for C12: patterns for the eight         *)
(* matching operators, built character by character (one TLC state per       *)
(* pattern prefix); every complete pattern is one run over the 420 names of  *)
(* world W12.  Wildcard patterns come from the alphabet plus the operator's  *)
(* own wildcards; `===` patterns also contain the other operators'           *)
(* wildcards (they must be literal there); regex patterns are element lists. *)
EXTENDS WorldC12, Regex, TLC, Json, FiniteSets

CONSTANTS MaxLen, RxChars, Ops

VARIABLES op, pat, rx, phase, op2, conn
vars == <<op, pat, rx, phase, op2, conn>>

AlphaSet == { Alpha[i] : i \in 1 .. NA }
Flipped == {"A", "b"}          \* the letters of the alphabet in the other case
PatChars(o) == CASE o \in {"eq", "ne"} -> AlphaSet \cup Flipped \cup {"*", "?"}
                 [] o \in {"like", "notlike"} -> AlphaSet \cup Flipped \cup {"%", "_", "?", "*"}
                 [] o \in {"eeq", "ene"} -> AlphaSet \cup Flipped \cup {"*", "?", "%", "_"}
NoRx == [els |-> <<>>, astart |-> FALSE, aend |-> FALSE]

Init == op = "" /\ pat = <<>> /\ rx = NoRx /\ phase = "op" /\ op2 = "" /\ conn = "none"
ChooseOp == /\ phase = "op" /\ op' \in Ops
            /\ phase' = "build" /\ UNCHANGED <<pat, rx, op2, conn>>
(* two conditions with the same pattern text but different operators in one query: each must keep its own meaning *)
ComboPats == { <<"a", "*">>, <<"*", "a">>, <<"a", "?">>, <<"B", "%">>, <<"%", "1">>, <<"_", "a">>, <<"*">>, <<"%">> }
ChooseCombo == /\ phase = "op" /\ "like" \in Ops
               /\ \E o1, o2 \in {"eq", "like", "eeq"} : o1 # o2 /\ op' = o1 /\ op2' = o2
               /\ pat' \in ComboPats /\ conn' \in {"and", "or"}
               /\ phase' = "done" /\ UNCHANGED rx
(* ... and a regular expression with the same text as a LIKE / glob pattern (each kind keeps its own compiled form) *)
RxComboPats == { <<"a", "_">>, <<"B", "%">>, <<"a", "?">>, <<"a", "*">>, <<"_", "a">>, <<"1", "+">> }
RxFor(p) == IF p[2] \in {"*", "?", "+"} THEN [els |-> << [ch |-> p[1], q |-> p[2]] >>, astart |-> FALSE, aend |-> FALSE]
            ELSE [els |-> << [ch |-> p[1], q |-> "1"], [ch |-> p[2], q |-> "1"] >>, astart |-> FALSE, aend |-> FALSE]
ChooseComboRx == /\ phase = "op" /\ "like" \in Ops /\ "rx" \in Ops
                 /\ \E o \in {"eq", "like"}, first \in BOOLEAN : (IF first THEN op' = "rx" /\ op2' = o ELSE op' = o /\ op2' = "rx")
                 /\ pat' \in RxComboPats /\ rx' = RxFor(pat') /\ conn' \in {"and", "or"}
                 /\ phase' = "done"
(* longer wildcard patterns: a one-character wildcard directly after a many-character one (`a*?`, `%__`) *)
Q(n) == [i \in 1 .. n |-> "?"]
LongPats == { <<"a", "*", "?">>, <<"*", "?", "?">>, <<"*", "?", "a">>, <<"B", "*", "?", "?">>, <<"?", "*", "?">>,
              \* (many one-character wildcards: exactly the 80 characters of a long name, one too many for it, a prefix of them before `*`)
              Q(80), <<"a">> \o Q(79), Q(81), Q(70) \o <<"*">>, Q(75) \o <<"*", "B">> }
LikeOf(p) == [i \in 1 .. Len(p) |-> IF p[i] = "*" THEN "%" ELSE IF p[i] = "?" THEN "_" ELSE p[i]]
ChooseLong == /\ phase = "op" /\ op' \in Ops \cap {"eq", "ne", "like", "notlike"}
              /\ \E p \in LongPats : pat' = (IF op' \in {"like", "notlike"} THEN LikeOf(p) ELSE p)
              /\ phase' = "done" /\ UNCHANGED <<rx, op2, conn>>
AddChar == /\ phase = "build" /\ op \notin {"rx", "notrx"} /\ Len(pat) < MaxLen
           /\ \E c \in PatChars(op) : pat' = Append(pat, c)
           /\ UNCHANGED <<op, rx, phase, op2, conn>>
AddEl == /\ phase = "build" /\ op \in {"rx", "notrx"} /\ Len(rx.els) < MaxLen
         /\ \E c \in (IF Len(rx.els) = 0 THEN AlphaSet \cup {"ANY"} ELSE RxChars), q \in {"1", "*", "+", "?", "{2}"} :
              rx' = [rx EXCEPT !.els = Append(@, [ch |-> c, q |-> q])]
         /\ UNCHANGED <<op, pat, phase, op2, conn>>
Finish == /\ phase = "build"
          /\ IF op \in {"rx", "notrx"}
             THEN /\ rx.els # <<>> /\ \E a, z \in BOOLEAN : rx' = [rx EXCEPT !.astart = a, !.aend = z]
                  /\ UNCHANGED pat
             ELSE /\ pat # <<>>
                  /\ UNCHANGED <<pat, rx>>
          /\ phase' = "done" /\ UNCHANGED <<op, op2, conn>>
Next == ChooseOp \/ ChooseCombo \/ ChooseComboRx \/ ChooseLong \/ AddChar \/ AddEl \/ Finish
Spec == Init /\ [][Next]_vars

OpTextOf(o) == CASE o = "eq" -> "=" [] o = "like" -> "like" [] o = "eeq" -> "===" [] o = "rx" -> "=~"
OpText == CASE op = "eq" -> "=" [] op = "ne" -> "!=" [] op = "like" -> "like" [] op = "notlike" -> "not like"
            [] op = "eeq" -> "===" [] op = "ene" -> "!==" [] op = "rx" -> "=~" [] op = "notrx" -> "!=~"
Quote(txt, hasq) == IF hasq THEN "\"" \o txt \o "\"" ELSE "'" \o txt \o "'"
PatText == IF op \in {"rx", "notrx"} THEN Quote(RxText(rx), \E i \in 1 .. Len(rx.els) : rx.els[i].ch = "'")
           ELSE Quote(Str(pat), HasChar(pat, "'"))

HasAny(S) == \E i \in 1 .. Len(pat) : pat[i] \in S
Class == (IF conn # "none" THEN "same-text-two-operators/" \o op2 \o "-after-" ELSE "") \o op \o (IF op \in {"rx", "notrx"} THEN
                  (IF \E i \in 1 .. Len(rx.els) : rx.els[i].ch \in Meta THEN "/escaped-meta" ELSE "")
                ELSE (IF HasAny({"+", "{", "}", "|"}) THEN "/meta:+{}|" ELSE "")
                     \o (IF HasAny({".", "(", ")", "[", "]", "^", "$"}) THEN "/meta:.()[]^$" ELSE "")
                     \o (IF HasAny(Flipped) THEN "/case" ELSE "")
                     \o (IF op \in {"like", "notlike"} /\ HasAny({"?", "*"}) THEN "/foreign-wildcard" ELSE "")
                     \o (IF op \in {"eeq", "ene"} /\ HasAny({"?", "*", "%", "_"}) THEN "/wildcard-chars" ELSE ""))

Scenario == [prop |-> "C12", world |-> "W12", class |-> Class, op |-> op, pat |-> pat, rx |-> rx, op2 |-> op2, conn |-> conn,
             env |-> [tz |-> "UTC", cwd |-> 0],
             runs |-> << [tag |-> "q", ncols |-> 1,
                          argv |-> << "select name from '.' where name " \o OpText \o " " \o PatText
                                      \o (IF conn = "none" THEN "" ELSE " " \o conn \o " name " \o OpTextOf(op2) \o " " \o PatText)
                                      \o " into list" >>] >>]
EmitWorld == (phase = "op") => PrintT(<<"WORLD", ToJson([key |-> "W12", world |-> W12])>>)
Emit == phase = "done" => PrintT(<<"REPLAY", ToJson(Scenario)>>)
=============================================================================
