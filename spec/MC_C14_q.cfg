SPECIFICATION Spec
CONSTANTS
  FmtPrecisions = {9, 0, 2}
  FmtUnits = {"", "b", "k", "kb", "mib", "g", "tb"}
INVARIANTS EmitWorld Emit
