------------------------------- MODULE Walker -------------------------------
(* Mech layer: implementation-shaped model of Searcher::visit_dir and the    *)
(* per-root loop of list_search_results (src/searcher.rs).                   *)
(*                                                                           *)
(*   one frame of `stack`  = one activation of visit_dir                     *)
(*   PickEntry             = one iteration of `for entry in entry_list`      *)
(*                           (readdir order is arbitrary: any unread entry)  *)
(*   EndOfDir / Dequeue    = the `while !dir_queue.is_empty()` loop run by   *)
(*                           the activation with process_queue = true        *)
(*   NextRoot              = one iteration of `for root in roots`            *)
(*                                                                           *)
(* TLC checks that for every world, root list, window, mode and readdir      *)
(* order the mechanism refines the Prop-layer statement of C01 (and, with a  *)
(* limit, the row-count clause of C06), and that it terminates.              *)
EXTENDS World, TLC

CONSTANTS MaxN, Kinds, Extra, Limits, TwoRoots

VARIABLES w,        \* the world (chosen in Init, never changes)
          roots,    \* sequence of root directories (node ids, 0 = top)
          win,      \* <<mindepth, maxdepth>>
          dfs,      \* BOOLEAN traversal mode
          limit,    \* 0 = none; streamed (not buffered) query
          ri,       \* index of the root being searched
          stack,    \* activations of visit_dir, innermost last
          queue,    \* dir_queue
          visited,  \* visited_inodes (never cleared)
          found,    \* rows accepted so far
          out,      \* rows written, in order
          pc
vars == <<w, roots, win, dfs, limit, ri, stack, queue, visited, found, out, pc>>

MkWorld(n, par, kd) == [nodes |-> [i \in 1 .. n |->
                          [id |-> i, parent |-> par[i], kind |-> kd[i], name |-> "x", target |-> 0]]]
ValidShape(n, par, kd) == /\ \A i \in 1 .. n : par[i] < i /\ (par[i] # 0 => kd[par[i]] = "dir")
                          /\ \A i \in 2 .. n : par[i] >= par[i - 1]
WorldsN(n) == { MkWorld(n, x[1], x[2]) :
                x \in { y \in [1 .. n -> 0 .. n - 1] \X [1 .. n -> {"dir"} \cup Kinds] : ValidShape(n, y[1], y[2]) } }
Worlds == UNION { WorldsN(n) : n \in 1 .. MaxN }

Init ==
  /\ w \in Worlds
  /\ roots \in { <<0>> } \cup { <<d>> : d \in { n \in NodeIds(w) : Kind(w, n) = "dir" } }
                \cup (IF TwoRoots
                      THEN { <<a, b>> : <<a, b>> \in { p \in NodeIds(w) \X NodeIds(w) :
                                 Kind(w, p[1]) = "dir" /\ Kind(w, p[2]) = "dir" /\ Disjoint(w, p[1], p[2]) } }
                      ELSE {})
  /\ win \in (0 .. MaxDepth(w) + Extra) \X (0 .. MaxDepth(w) + Extra)
  /\ dfs \in BOOLEAN
  /\ limit \in Limits
  /\ ri = 0 /\ stack = <<>> /\ queue = <<>> /\ visited = {} /\ found = 0 /\ out = <<>>
  /\ pc = "roots"

Top == stack[Len(stack)]
Pop == SubSeq(stack, 1, Len(stack) - 1)
SetTop(f) == [stack EXCEPT ![Len(stack)] = f]
LimitReached == limit > 0 /\ limit <= found

(* for root in roots { dir_queue.clear(); visited_inodes.insert(root ino); visit_dir(root, .., 0, .., true) } *)
NextRoot ==
  /\ pc = "roots" /\ stack = <<>>
  /\ IF ri < Len(roots)
     THEN /\ ri' = ri + 1
          /\ queue' = <<>>
          /\ visited' = visited \cup {roots[ri + 1]}
          /\ stack' = << [dir |-> roots[ri + 1], depth |-> 1, unread |-> ChildrenOf(w, roots[ri + 1]),
                          pq |-> TRUE, draining |-> FALSE] >>
          /\ UNCHANGED <<pc, found, out>>
     ELSE /\ pc' = "done" /\ UNCHANGED <<ri, queue, visited, stack, found, out>>
  /\ UNCHANGED <<w, roots, win, dfs, limit>>

(* (the level of a directory's entries is handed down: one more than the level of the directory it was found in; the queue  *)
(*  of the breadth-first mode holds it next to the entry)                                                                  *)
(* `break` out of the entry loop: a streamed query has found `limit` rows *)
LimitBreak ==
  /\ pc = "roots" /\ stack # <<>> /\ ~Top.draining /\ Top.unread # {} /\ LimitReached
  /\ stack' = SetTop([Top EXCEPT !.unread = {}])
  /\ UNCHANGED <<w, roots, win, dfs, limit, ri, queue, visited, found, out, pc>>

(* one iteration of the entry loop of the innermost activation, for the entry e that readdir returns next *)
PickOne(e) ==
  /\ pc = "roots" /\ stack # <<>> /\ ~Top.draining /\ e \in Top.unread /\ ~LimitReached
  /\ LET f == Top
         lvl == f.depth
         report == win[1] = 0 \/ lvl >= win[1]
         mayDescend == win[2] = 0 \/ lvl < win[2]
         isdir == Kind(w, e) = "dir"
         \* symlinks: without the `symlinks` option ok_to_visit_dir records the inode and refuses
         cand == mayDescend /\ (isdir \/ Kind(w, e) = "symlink")
         fresh == e \notin visited
         go == cand /\ fresh /\ isdir
         rest == [f EXCEPT !.unread = f.unread \ {e}]
     IN /\ out' = IF report THEN Append(out, e) ELSE out
        /\ found' = IF report THEN found + 1 ELSE found
        /\ visited' = IF cand THEN visited \cup {e} ELSE visited
        /\ IF go /\ dfs
           THEN /\ stack' = Append(SetTop(rest), [dir |-> e, depth |-> f.depth + 1,
                                                  unread |-> ChildrenOf(w, e), pq |-> FALSE, draining |-> FALSE])
                /\ queue' = queue
           ELSE /\ stack' = SetTop(rest)
                /\ queue' = IF go THEN Append(queue, <<e, f.depth + 1>>) ELSE queue
  /\ UNCHANGED <<w, roots, win, dfs, limit, ri, pc>>

(* readdir order is arbitrary: any unread entry may come next *)
PickEntry == LimitBreak \/ \E e \in UNION { f.unread : f \in { stack[k] : k \in 1 .. Len(stack) } } : PickOne(e)

(* the entry loop is over: the top-level activation drains the queue, the others return *)
EndOfDir ==
  /\ pc = "roots" /\ stack # <<>> /\ Top.unread = {} /\ ~Top.draining
  /\ IF ~dfs /\ Top.pq
     THEN stack' = SetTop([Top EXCEPT !.draining = TRUE])
     ELSE stack' = Pop
  /\ UNCHANGED <<w, roots, win, dfs, limit, ri, queue, visited, found, out, pc>>

Dequeue ==
  /\ pc = "roots" /\ stack # <<>> /\ Top.draining
  /\ IF queue # <<>>
     THEN /\ stack' = Append(stack, [dir |-> Head(queue)[1], depth |-> Head(queue)[2],
                                     unread |-> ChildrenOf(w, Head(queue)[1]), pq |-> FALSE, draining |-> FALSE])
          /\ queue' = Tail(queue)
     ELSE /\ stack' = Pop /\ queue' = queue
  /\ UNCHANGED <<w, roots, win, dfs, limit, ri, visited, found, out, pc>>

Next == NextRoot \/ PickEntry \/ EndOfDir \/ Dequeue
Spec == Init /\ [][Next]_vars /\ WF_vars(Next)

-----------------------------------------------------------------------------
(* Mech => Prop *)
Expected == UNION { Listed(w, roots[j], win[1], win[2]) : j \in 1 .. Len(roots) }
Range(s) == { s[i] : i \in 1 .. Len(s) }
RootOf(n) == CHOOSE j \in 1 .. Len(roots) : Below(w, roots[j], n)
LevelOf(n) == LevelBelow(w, roots[RootOf(n)], n)

NeverTwice == \A i, j \in 1 .. Len(out) : i # j => out[i] # out[j]
OnlyListed == Range(out) \subseteq Expected
ExactAtEnd == (pc = "done" /\ limit = 0) => Range(out) = Expected
CountAtEnd == (pc = "done" /\ limit > 0) =>
                 Len(out) = IF Cardinality(Expected) < limit THEN Cardinality(Expected) ELSE limit
BfsMonotone == (~dfs) => \A i, j \in 1 .. Len(out) :
                 (i < j /\ RootOf(out[i]) = RootOf(out[j])) => LevelOf(out[i]) <= LevelOf(out[j])
DfsContiguous == (dfs /\ pc = "done" /\ limit = 0) =>
  \A i \in 1 .. Len(out) :
     LET d == out[i]  sub == { n \in Range(out) : Below(w, d, n) } IN
     Kind(w, d) = "dir" => \A j \in 1 .. Len(out) : (out[j] \in sub) <=> (i < j /\ j <= i + Cardinality(sub))
QueueOnlyInBfs == dfs => queue = <<>>
Terminates == <>(pc = "done")
=============================================================================
