------------------------------- MODULE MC_C11 -------------------------------
(* Binding layer, scenario generator for C11 (alternative spellings).        *)
(* A base query is a sequence of slots; a slot is a tuple of alternative     *)
(* spellings of one token taken from the documentation tables (the first is  *)
(* the canonical one, "" = the optional token is omitted).  A rendering      *)
(* differs from the canonical one in exactly one slot (alias, omitted        *)
(* optional token, bracket kind) or in the letter case of one word token,    *)
(* and is passed as one argument, as one argument per token, or split at one *)
(* single point.  Each scenario runs the canonical and the variant rendering *)
(* with `debug = true`, so that the parsed query is observed too.            *)
EXTENDS WorldC02, TLC, Json, FiniteSets

CONSTANTS PartialSplits      \* BOOLEAN: also split at every single token boundary

S1(a) == <<a>>
Base == <<
  \* 1: optional select, commas, asc; extension alias; >= aliases
  << <<"select", "">>, S1("name"), <<",", "">>, <<"ext", "extension">>, <<",", "">>, S1("size"), S1("from"), S1("."), S1("where"), S1("size"),
     <<">=", "gte", "ge">>, S1("10"), S1("order"), S1("by"), S1("name"), <<"", "asc">> >>,
  \* 2: = aliases, directory aliases, and/or, brackets
  << S1("select"), S1("path"), S1("from"), S1("."), S1("where"), <<"(", "{">>, <<"dir", "dirname", "directory">>, <<"=", "==", "eq">>, S1("'./sub'"),
     S1("or"), S1("size"), <<"<", "lt">>, S1("10"), <<")", "}">>, S1("and"), S1("uid"), <<"!=", "<>", "ne">>, S1("1000") >>,
  \* 3: strict equality, <= and > aliases
  << S1("select"), S1("name"), S1("from"), S1("."), S1("where"), S1("name"), <<"===", "eeq">>, S1("'a.txt'"), S1("or"), S1("size"), <<"<=", "lte", "le">>, S1("9"),
     S1("or"), S1("size"), <<">", "gt">>, S1("1024") >>,
  << S1("select"), S1("name"), S1("from"), S1("."), S1("where"), S1("name"), <<"!==", "ene">>, S1("'a.txt'"), S1("and"), S1("hardlinks"), <<"=", "eq">>, S1("1") >>,
  \* 5: regex aliases, like / not like
  << S1("select"), S1("name"), S1("from"), S1("."), S1("where"), S1("name"), <<"=~", "~=", "regexp", "rx">>, S1("'^[a-c]'") >>,
  << S1("select"), S1("name"), S1("from"), S1("."), S1("where"), S1("name"), <<"!=~", "!~=", "notrx">>, S1("'log$'") >>,
  << S1("select"), S1("name"), S1("from"), S1("."), S1("where"), S1("name"), <<"not like", "notlike">>, S1("'%.txt'"), S1("and"), S1("name"), S1("like"), S1("'%.%'") >>,
  \* (a bracketed operand that starts with a wildcard / arithmetic character, in both bracket kinds)
  << S1("select"), S1("name"), S1("from"), S1("."), S1("where"), S1("name"), S1("like"), <<"(%.txt)", "{%.txt}">>, S1("or"), S1("name"), S1("="), <<"(*.log)", "{*.log}">> >>,
  << S1("select"), S1("name"), S1("from"), S1("."), S1("where"), S1("size"), S1("between"), S1("9"), S1("and"), S1("1024"), S1("limit"), S1("5") >>,
  \* 9: root options
  << S1("select"), S1("path"), S1("from"), S1("."), <<"depth", "maxdepth">>, S1("1") >>,
  << S1("select"), S1("path"), S1("from"), S1("."), S1("mindepth"), S1("2"), <<"", "bfs">> >>,
  << S1("select"), S1("path"), S1("from"), S1("."), <<"symlinks", "sym">>, S1("dfs") >>,
  << S1("select"), S1("path"), S1("from"), S1("."), <<"archives", "arc">> >>,
  << S1("select"), S1("path"), S1("from"), S1("."), <<"gitignore", "git">> >>,
  << S1("select"), S1("path"), S1("from"), S1("."), <<"hgignore", "hg">>, <<"nodockerignore", "nodock">> >>,
  << S1("select"), S1("path"), S1("from"), S1("."), <<"dockerignore", "dock">>, <<"nogitignore", "nogit">>, <<"nohgignore", "nohg">> >>,
  \* 16: arithmetic words
  << S1("select"), S1("name"), S1(","), S1("size"), <<"+", "plus">>, S1("1"), S1(","), S1("size"), <<"*", "mul">>, S1("2"), S1("from"), S1(".") >>,
  << S1("select"), S1("name"), S1(","), S1("size"), <<"-", "minus">>, S1("1"), S1(","), S1("size"), <<"/", "div">>, S1("1"), S1(","), S1("size"), <<"%", "mod">>, S1("7"), S1("from"), S1(".") >>,
  \* 18: function aliases
  << S1("select"), <<"lower(name)", "lowercase(name)", "lcase(name)">>, S1(","), <<"upper(name)", "uppercase(name)", "ucase(name)">>, S1(","),
     <<"length(name)", "len(name)">>, S1("from"), S1(".") >>,
  << S1("select"), <<"substr(name, 1, 2)", "substring(name, 1, 2)">>, S1(","), <<"to_base64(name)", "base64(name)">>, S1(","), <<"power(size, 2)", "pow(size, 2)">>, S1("from"), S1(".") >>,
  << S1("select"), S1("name"), S1(","), <<"fsize", "hsize">>, S1(","), <<"format_size(size, '%.1')", "format_filesize(size, '%.1')">>, S1(","),
     <<"format_time(size)", "pretty_time(size)">>, S1("from"), S1(".") >>,
  << S1("select"), <<"current_date()", "cur_date()", "curdate()", "current_date", "curdate", "curdate{}", "current_date{}">>, S1(","), S1("name"), S1("from"), S1(".") >>,
  << S1("select"), S1("name"), S1(","), <<"dayofweek(modified)", "dow(modified)">>, S1(","), <<"current_uid()", "current_uid", "current_uid{}">>, S1("from"), S1(".") >>,
  << S1("select"), <<"stddev_pop(size)", "stddev(size)", "std(size)">>, S1(","), <<"var_pop(size)", "variance(size)">>, S1(","), <<"count(*)", "count{*}", "COUNT(*)">>, S1("from"), S1(".") >>,
  \* 24: column aliases
  << S1("select"), S1("name"), S1(","), <<"is_pipe", "is_fifo">>, S1(","), <<"is_char", "is_character">>, S1(","), <<"user_all", "user_rwx">>, S1(","),
     <<"group_all", "group_rwx">>, S1(","), <<"other_all", "other_rwx">>, S1("from"), S1(".") >>,
  << S1("select"), S1("name"), S1(","), <<"caps", "capabilities">>, S1(","), <<"sha256", "sha2_256">>, S1(","), <<"sha512", "sha2_512">>, S1(","), <<"sha3", "sha3_512">>,
     S1("from"), S1("."), S1("where"), S1("is_file") >>,
  \* 26: group by, into
  << S1("select"), <<"ext", "extension">>, S1(","), S1("count(*)"), S1("from"), S1("."), S1("group"), S1("by"), <<"ext", "extension">>, S1("into"), S1("csv") >>,
  \* 28/29: a function with several arguments after WHERE; a root option without FROM
  << S1("select"), S1("name"), S1("from"), S1("."), S1("where"), <<"substr(name,1,2)", "substring(name,1,2)">>, <<"=", "eq">>, S1("'a.'"), S1("and"), S1("is_file"), <<"=", "==">>, S1("true"),
     S1("order"), S1("by"), S1("name") >>,
  << <<"select", "">>, S1("name"), S1(","), S1("size"), <<"depth", "maxdepth">>, S1("1"), S1("where"), S1("size"), S1(">"), S1("0") >>,
  << S1("select"), S1("name"), S1("from"), S1("."), S1("where"), S1("not"), S1("is_dir"), S1("order"), S1("by"), S1("size"), S1("desc"), S1(","), S1("name"), S1("limit"), S1("4"), S1("into"), S1("json") >>,
  \* 31: two unquoted roots separated by comma + blank, as README writes them (`from /home/user/oldstuff, /home/user/newstuff where ..`):
  \*     split at whitespace the first root's shell word ends with the comma
  << <<"select", "">>, S1("path"), S1("from"), S1("sub,"), S1("sub/deep"), S1("where"), S1("name"), <<"=", "eq">>, S1("'*.txt'") >>,
  << S1("select"), S1("name"), S1("from"), S1("sub"), <<"depth", "maxdepth">>, S1("1,"), S1("sub/deep"), <<"", "bfs">> >>,
  \* a quoted literal with a blank inside, split at that blank too (the user escaped the quotes from the shell)
  << S1("select"), S1("name"), S1("from"), S1("."), S1("where"), S1("name"), <<"=", "eq">>, S1("'a"), S1("b.txt'"), S1("or"), S1("name"), S1("like"), S1("\"%"), S1("x\"") >>,
  \* a first column whose name contains an option word; arithmetic in GROUP BY written with the sign and with the word
  << <<"select", "">>, S1("exif_version"), S1(","), S1("name"), S1("from"), S1(".") >>,
  << S1("select"), S1("count(*)"), S1(","), S1("size"), <<"%", "mod">>, S1("2"), S1("from"), S1("."), S1("group"), S1("by"), S1("size"), <<"%", "mod">>, S1("2") >>,
  \* a sign in front of a bracket, in both bracket kinds
  << S1("select"), S1("name"), S1(","), <<"-(size + 1)", "-{size + 1}">>, S1("from"), S1("."), S1("where"), S1("size"), S1(">"), <<"-(1 - 3)", "-{1 - 3}">> >>,
  \* literals that spell a command-line option word (the query passed as one argument is still a query)
  << S1("select"), S1("name"), S1("from"), S1("."), S1("where"), S1("name"), <<"!=", "ne">>, S1("'help'"), S1("and"), S1("size"), <<">=", "gte">>, S1("0") >>,
  << S1("select"), S1("name"), S1("from"), S1("."), S1("where"), S1("name"), <<"!=", "ne">>, S1("'version'"), S1("or"), S1("name"), S1("="), S1("'nocolor'") >>,
  \* the root option `regexp` / `rx` (the root is a regular expression over directory names)
  << S1("select"), S1("path"), S1("from"), S1("s.b"), <<"regexp", "rx">>, <<"depth", "maxdepth">>, S1("1") >>,
  \* 34: the same with a multi-byte character in the root word that ends with the comma
  << <<"select", "">>, S1("path"), S1("from"), S1("café,"), S1("sub/deep"), S1("where"), S1("name"), <<"=", "eq">>, S1("'*.txt'") >>,
  \* 35: arithmetic written without blanks (the letter case of a column name next to an operator character)
  << S1("select"), S1("name"), S1(","), S1("size*2"), S1(","), S1("size+1"), S1(","), S1("line_count+1"), S1("from"), S1("."), S1("where"), S1("size-1"), <<">", "gt">>, S1("5") >>,
  \* 36: the functions without arguments, with and without brackets
  << S1("select"), <<"current_group()", "current_group", "current_group{}">>, S1(","), <<"current_user()", "current_user", "current_user{}">>, S1(","),
     <<"current_gid()", "current_gid", "current_gid{}">>, S1(","), S1("name"), S1("from"), S1(".") >>,
  \* 37: sort and group keys that start with a bracket, in both bracket kinds
  << S1("select"), S1("name"), S1("from"), S1("."), S1("order"), S1("by"), <<"(size + 1) * 2", "{size + 1} * 2">>, S1("desc") >>,
  << S1("select"), S1("name"), S1("from"), S1("."), S1("order"), S1("by"), <<"(size + 1) % 7", "{size + 1} % 7">>, S1(","), S1("name"), <<"", "asc">> >>
>>

VARIABLES q, slot, alt, casing, split, phase
vars == <<q, slot, alt, casing, split, phase>>
Init == q = 0 /\ slot = 0 /\ alt = 1 /\ casing = "asis" /\ split = 0 /\ phase = "start"

(* word tokens whose letter case may vary, with their upper-case and capitalised forms *)
CaseForms == [ select |-> <<"SELECT", "Select">>, from |-> <<"FROM", "From">>, where |-> <<"WHERE", "wHERE">>, order |-> <<"ORDER", "Order">>,
               by |-> <<"BY", "By">>, and |-> <<"AND", "And">>, or |-> <<"OR", "Or">>, not |-> <<"NOT", "Not">>, limit |-> <<"LIMIT", "Limit">>,
               into |-> <<"INTO", "Into">>, group |-> <<"GROUP", "Group">>, desc |-> <<"DESC", "Desc">>, asc |-> <<"ASC", "Asc">>,
               between |-> <<"BETWEEN", "Between">>, like |-> <<"LIKE", "Like">>, name |-> <<"NAME", "Name">>, size |-> <<"SIZE", "Size">>,
               path |-> <<"PATH", "Path">>, ext |-> <<"EXT", "Ext">>, dir |-> <<"DIR", "Dir">>, uid |-> <<"UID", "Uid">>, gte |-> <<"GTE", "Gte">>,
               eq |-> <<"EQ", "Eq">>, rx |-> <<"RX", "Rx">>, depth |-> <<"DEPTH", "Depth">>, mindepth |-> <<"MINDEPTH", "MinDepth">>, dfs |-> <<"DFS", "Dfs">>, bfs |-> <<"BFS", "Bfs">>, maxdepth |-> <<"MAXDEPTH", "MaxDepth">>, sym |-> <<"SYM", "Sym">>,
               symlinks |-> <<"SYMLINKS", "Symlinks">>, archives |-> <<"ARCHIVES", "Archives">>, plus |-> <<"PLUS", "Plus">>, mul |-> <<"MUL", "Mul">>,
               json |-> <<"JSON", "Json">>, csv |-> <<"CSV", "Csv">>, is_dir |-> <<"IS_DIR", "Is_Dir">>, is_file |-> <<"IS_FILE", "Is_File">>,
               hardlinks |-> <<"HARDLINKS", "HardLinks">>, fsize |-> <<"FSIZE", "FSize">>, notlike |-> <<"NOTLIKE", "NotLike">>, regexp |-> <<"REGEXP", "RegExp">> ]
             @@ ("size*2" :> <<"SIZE*2", "Size*2">>) @@ ("size+1" :> <<"SIZE+1", "sizE+1">>) @@ ("size-1" :> <<"SIZE-1", "Size-1">>)
             @@ ("line_count+1" :> <<"LINE_COUNT+1", "Line_Count+1">>)
HasCase(t) == t \in DOMAIN CaseForms

Choose == /\ phase = "start"
          /\ q' \in 1 .. Len(Base)
          \* (the closing bracket follows its opening bracket's kind, so it is not a slot of its own)
          /\ \E i \in { j \in 1 .. Len(Base[q']) : Base[q'][j][1] # ")" } :
               /\ slot' = i
               /\ \/ alt' \in 2 .. Len(Base[q'][i]) /\ casing' = "asis"
                  \/ alt' \in 1 .. Len(Base[q'][i]) /\ HasCase(Base[q'][i][alt']) /\ casing' \in {"upper", "mixed"}
                  \/ alt' = 1 /\ casing' = "asis" /\ i = 1          \* the canonical rendering itself, only split differently
          \* With several arguments the lexer deliberately takes the rest of the shell word that follows FROM as one root
          \* path (directories with blanks), so a word that continues after the root is left open.  Judged partial splits:
          \* the split right after the root token, and any split of a query without FROM.
          /\ split' \in {0, 1000} \cup
                (IF ~PartialSplits THEN {}
                 \* (several roots: any two-way split leaves a later root inside a word with blanks - the named deviation again)
                 ELSE IF \E k \in 1 .. Len(Base[q']) : Base[q'][k][1] \in {"sub,", "1,", "café,"} THEN {}
                 ELSE IF \E k \in 1 .. Len(Base[q']) : Base[q'][k][1] = "from"
                      THEN { k \in 2 .. Len(Base[q']) - 1 : Base[q'][k - 1][1] = "from" }
                      ELSE 1 .. Len(Base[q']) - 1)
          /\ ~(alt' = 1 /\ casing' = "asis" /\ split' = 0)
          /\ phase' = "done"
Next == Choose
Spec == Init /\ [][Next]_vars

Tok(i, variant) == LET t == IF variant /\ i = slot THEN Base[q][i][alt]
                            ELSE IF variant /\ Base[q][slot][1] = "(" /\ alt = 2 /\ Base[q][i][1] = ")" THEN "}"
                            ELSE Base[q][i][1] IN
                   IF variant /\ i = slot /\ casing # "asis" THEN CaseForms[t][IF casing = "upper" THEN 1 ELSE 2] ELSE t
RECURSIVE Toks(_, _, _)
Toks(i, hi, variant) == IF i > hi THEN <<>> ELSE (IF Tok(i, variant) = "" THEN <<>> ELSE <<Tok(i, variant)>>) \o Toks(i + 1, hi, variant)
RECURSIVE JoinSp(_)
JoinSp(t) == IF t = <<>> THEN "" ELSE IF Len(t) = 1 THEN t[1] ELSE t[1] \o " " \o JoinSp(Tail(t))
(* split = 0: one argument; 1000: one argument per token; k: two arguments, split after slot k *)
Argv(variant) == LET n == Len(Base[q]) IN
                 IF ~variant \/ split = 0 THEN <<JoinSp(Toks(1, n, variant))>>
                 ELSE IF split = 1000 THEN Toks(1, n, variant)
                 ELSE <<JoinSp(Toks(1, split, variant)), JoinSp(Toks(split + 1, n, variant))>>
Class == (IF alt > 1 THEN (IF Base[q][slot][alt] = "" THEN "omit:" \o Base[q][slot][1] ELSE IF Base[q][slot][1] = "" THEN "add:" \o Base[q][slot][alt]
                           ELSE "alias:" \o Base[q][slot][1] \o "->" \o Base[q][slot][alt])
          ELSE IF casing # "asis" THEN "case:" \o Base[q][slot][alt] ELSE "canonical")
         \o (IF casing # "asis" /\ alt > 1 THEN "/case" ELSE "")
         \o (IF split = 0 THEN "/onearg" ELSE IF split = 1000 THEN "/fullsplit" ELSE "/split2")
Scenario == [prop |-> "C11", world |-> "W11", class |-> Class, q |-> q, unordered |-> (\E k \in 1 .. Len(Base[q]) : Base[q][k][1] = "group"),
             env |-> [tz |-> "UTC", cwd |-> 0, fake_epoch |-> 1493640000, config |-> [debug |-> TRUE]],
             runs |-> << [tag |-> "canon", fmt |-> "text", argv |-> Argv(FALSE)], [tag |-> "variant", fmt |-> "text", argv |-> Argv(TRUE)] >>]
X(i, p, k, nm, cont, tgt) == [id |-> i, parent |-> p, kind |-> k, namec |-> nm, name |-> Str(nm), content |-> cont, mode |-> IF k = "dir" THEN 493 ELSE 420,
                              uid |-> 0, gid |-> 0, mtime |-> T0 + 777 * i, mtime_ms |-> 0, linkto |-> 0, target |-> tgt, tstyle |-> "abs"]
W11 == [nodes |-> W2.nodes \o <<
          X(15, 1, "dir", <<"d","e","e","p">>, <<>>, -3), X(16, 15, "file", <<"x",".","t","x","t">>, Runs(3, 1), -3),
          X(17, 0, "symlink", <<"l","n","k","d">>, <<>>, 1),
          X(18, 0, "file", <<".","g","i","t","i","g","n","o","r","e">>, Runs(0, 0), -3),
          X(19, 0, "file", <<".","h","g","i","g","n","o","r","e">>, <<[byte |-> 42, count |-> 1], [byte |-> 46, count |-> 1], [byte |-> 108, count |-> 1], [byte |-> 111, count |-> 1], [byte |-> 103, count |-> 1], [byte |-> 10, count |-> 1]>>, -3),
          X(20, 0, "file", <<".","d","o","c","k","e","r","i","g","n","o","r","e">>, <<[byte |-> 42, count |-> 1], [byte |-> 46, count |-> 1], [byte |-> 98, count |-> 1], [byte |-> 105, count |-> 1], [byte |-> 110, count |-> 1], [byte |-> 10, count |-> 1]>>, -3),
          X(21, 0, "dir", <<"c","a","f","é">>, <<>>, -3), X(22, 21, "file", <<"y",".","t","x","t">>, Runs(2, 0), -3) >>]
EmitWorld == (phase = "start") => PrintT(<<"WORLD", ToJson([key |-> "W11", world |-> W11])>>)
Emit == phase = "done" => PrintT(<<"REPLAY", ToJson(Scenario)>>)
=============================================================================
