------------------------------ MODULE Pipeline ------------------------------
(* Mech layer: the result pipeline of Searcher::list_search_results and      *)
(* check_file (src/searcher.rs) - what is written to stdout, when, in each   *)
(* of the four result paths:                                                 *)
(*    stream   no ORDER BY, no aggregate: a row is written when it is found  *)
(*             (separator first unless it is the first), the walk stops once *)
(*             LIMIT rows were found;                                        *)
(*    ordered  ORDER BY: rows are formatted when found, kept in the TopN     *)
(*             buffer (at most LIMIT of them) and written after the walk,    *)
(*             separators between them;                                      *)
(*    agg      aggregate columns, no GROUP BY: every accepted row is kept    *)
(*             raw, one row is written after the walk;                       *)
(*    group    GROUP BY: one row per partition of the raw rows (at most      *)
(*             LIMIT of them), separators between them.                      *)
(* Header before anything, footer after everything.  Tokens written:         *)
(* [t |-> "H" | "F" | "S" | "R", k |-> arrival index of the accepted entry  *)
(* for a streamed row, else 0].                                              *)
(*                                                                           *)
(* The walk is abstracted to the sequence arr of conforms() results of the   *)
(* entries in the order the walker offers them (Walker.tla is the model of   *)
(* that order).  Which rows TopN retains is TopN.tla's business: here only   *)
(* their number is tracked.                                                  *)
EXTENDS Integers, Sequences, FiniteSets, TLC

CONSTANTS MaxEntries, Limits

VARIABLES mode, limit, arr,
          idx,      \* entries offered so far
          found,    \* Searcher.found
          kept,     \* rows in output_buffer (TopN count)
          raw,      \* rows in raw_output_buffer
          todo,     \* rows still to be written by the compute phase (-1 = not yet determined)
          out, pc
vars == <<mode, limit, arr, idx, found, kept, raw, todo, out, pc>>

Tok(t, k) == [t |-> t, k |-> k]
H == Tok("H", 0)  F == Tok("F", 0)  S == Tok("S", 0)
Modes == {"stream", "ordered", "agg", "group"}
Buffered == mode # "stream"
Min(a, b) == IF a < b THEN a ELSE b

Init == /\ mode \in Modes /\ limit \in Limits
        /\ arr \in UNION { [1 .. n -> BOOLEAN] : n \in 0 .. MaxEntries }
        /\ idx = 0 /\ found = 0 /\ kept = 0 /\ raw = 0 /\ todo = -1 /\ out = <<>> /\ pc = "init"

Header == /\ pc = "init" /\ out' = Append(out, H) /\ pc' = "run"
          /\ UNCHANGED <<mode, limit, arr, idx, found, kept, raw, todo>>

(* `!is_buffered() && limit > 0 && limit <= found`: the entry loops break, nothing more is offered *)
LimitReached == ~Buffered /\ limit > 0 /\ limit <= found
WalkOver == idx = Len(arr) \/ LimitReached

(* check_file for the next entry; acc = conforms() *)
Offer(acc) ==
  /\ pc = "run" /\ ~WalkOver /\ todo = -1 /\ acc = arr[idx + 1]
  /\ idx' = idx + 1
  /\ IF ~acc THEN UNCHANGED <<found, kept, raw, out>>
     ELSE /\ found' = found + 1
          /\ IF ~Buffered
             THEN /\ out' = (IF found + 1 > 1 THEN Append(out, S) ELSE out) \o << Tok("R", idx + 1) >>
                  /\ UNCHANGED <<kept, raw>>
             ELSE /\ kept' = IF limit = 0 THEN kept + 1 ELSE Min(kept + 1, limit)       \* TopN::insert evicts beyond the limit
                  /\ raw' = IF mode \in {"agg", "group"} THEN raw + 1 ELSE raw
                  /\ out' = out
  /\ UNCHANGED <<mode, limit, arr, todo, pc>>

(* after the walk: how many rows the compute phase writes; parts = number of partitions of the raw rows *)
Plan(parts) ==
  /\ pc = "run" /\ WalkOver /\ todo = -1
  /\ (IF raw = 0 THEN parts = 0 ELSE parts \in 1 .. raw)
  /\ todo' = CASE mode = "stream" -> 0 [] mode = "ordered" -> kept [] mode = "agg" -> 1
                [] mode = "group" -> (IF limit = 0 THEN parts ELSE Min(parts, limit))          \* LIMIT applies to the group rows
  /\ pc' = "compute"
  /\ UNCHANGED <<mode, limit, arr, idx, found, kept, raw, out>>

(* one row of the compute phase; first = nothing written by this phase yet *)
WriteRow ==
  /\ pc = "compute" /\ todo > 0
  /\ LET first == ~\E i \in 1 .. Len(out) : out[i].t = "R"
     IN out' = (IF first THEN out ELSE Append(out, S)) \o << Tok("R", 0) >>
  /\ todo' = todo - 1
  /\ UNCHANGED <<mode, limit, arr, idx, found, kept, raw, pc>>

Footer == /\ pc = "compute" /\ todo = 0
          /\ out' = Append(out, F) /\ pc' = "done"
          /\ UNCHANGED <<mode, limit, arr, idx, found, kept, raw, todo>>

Next == Header \/ (\E acc \in BOOLEAN : Offer(acc)) \/ (\E p \in 0 .. MaxEntries : Plan(p)) \/ WriteRow \/ Footer
Spec == Init /\ [][Next]_vars /\ WF_vars(Next)

-----------------------------------------------------------------------------
(* Mech => Prop *)
IsRow(t) == t.t = "R"
Rows(s) == SelectSeq(s, IsRow)
M == Cardinality({ i \in 1 .. Len(arr) : arr[i] })                \* rows of the unlimited query
(* C09 protocol: H, then rows with one separator between neighbours, then F *)
WellFormed(s) == /\ Len(s) >= 2 /\ s[1] = H /\ s[Len(s)] = F
                 /\ \A i \in 2 .. Len(s) - 1 : IF i % 2 = 0 THEN IsRow(s[i]) ELSE s[i] = S
                 /\ (Len(s) > 2 => Len(s) % 2 = 1)
GrammarAtEnd == pc = "done" => WellFormed(out)
(* while running, the output is a prefix of a well-formed one: never two rows without a separator, never a leading separator *)
GrammarAlways == /\ (out # <<>> => out[1] = H)
                 /\ \A i \in 2 .. Len(out) : (out[i] = S => IsRow(out[i - 1])) /\ (IsRow(out[i]) => out[i - 1] \in {H, S})
(* C06 count clause *)
CountAtEnd == pc = "done" =>
   Len(Rows(out)) = CASE mode \in {"stream", "ordered"} -> (IF limit = 0 THEN M ELSE Min(limit, M))
                      [] mode = "agg" -> 1
                      [] mode = "group" -> Len(Rows(out))      \* bounded by GroupBounds: the number of partitions
GroupBounds == (pc = "done" /\ mode = "group") => (IF M = 0 THEN Len(Rows(out)) = 0 ELSE Len(Rows(out)) \in 1 .. M)
(* streamed rows are the first accepted entries, in arrival order (sub-multiset of the unlimited rows) *)
StreamPrefix == mode = "stream" =>
   \A i \in 1 .. Len(Rows(out)) : LET k == Rows(out)[i].k IN arr[k] /\ Cardinality({ j \in 1 .. k : arr[j] }) = i
(* aggregates see every accepted row, whatever the limit *)
RawComplete == (pc \in {"compute", "done"} /\ mode \in {"agg", "group"}) => raw = M
NoWorkAfterLimit == (mode = "stream" /\ limit > 0) => found <= limit
Terminates == <>(pc = "done")
(* Pipeline refines its count-level abstraction PipelineInd, whose inductive invariant Apalache discharges for any number *)
(* of entries and any limit                                                                                               *)
PI == INSTANCE PipelineInd WITH remaining <- Len(arr) - idx, rows <- Len(Rows(out)),
                                seps <- Cardinality({ i \in 1 .. Len(out) : out[i] = S }),
                                header <- (out # <<>>), footer <- (pc = "done")
RefinesInd == PI!Init /\ [][PI!Next]_PI!vars
=============================================================================
