SPECIFICATION Spec
CONSTANTS
  MaxOps = 2
  Tables = {1, 2, 3, 4}
  WorldSel = {1, 2, 3}
INVARIANTS EmitWorld Emit
