SPECIFICATION Spec
CONSTANTS
  MaxKeys = 2
  KeyCols = {"name", "size", "modified", "length(name)", "ext", "uid", "blocks", "length(name) * 4", "hardlinks", "is_dir", "day(modified)"}
  WorldSel = {1, 2, 3, 4, 5, 6, 7, 8}
INVARIANTS EmitWorld Emit
