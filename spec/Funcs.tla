-------------------------------- MODULE Funcs -------------------------------
(* Prop layer: the documented meaning of the scalar functions (C16), on      *)
(* text as sequences of characters (one element per Unicode scalar value).   *)
(* Expected(call) yields what a printed cell must satisfy:                   *)
(*   [k |-> "text", c]     exactly this text                                 *)
(*   [k |-> "int", v]      this integer (7 = 7.0)                            *)
(*   [k |-> "ratio", n, d] n/d within relative 10^-9                         *)
(*   [k |-> "sqrt", v]     a number whose square is v within 10^-9           *)
(*   [k |-> "words", w]    these words, separated by blanks (INITCAP)        *)
(*   [k |-> "ftime", v]    a unit decomposition of v seconds                 *)
(*   [k |-> "wrong"]       wrong kind of argument: empty value or status 2   *)
(*   [k |-> "undef"]       the documentation does not define it              *)
EXTENDS Civil, BigNat, FiniteSets

Text(c) == [k |-> "text", c |-> c]
IntR(v) == [k |-> "int", v |-> v]
Wrong == [k |-> "wrong"]
Undef == [k |-> "undef"]

IsBlank(c) == c = " " \/ c = "\t"
RECURSIVE LStrip(_)
LStrip(s) == IF s # <<>> /\ IsBlank(s[1]) THEN LStrip(Tail(s)) ELSE s
RECURSIVE RStrip(_)
RStrip(s) == IF s # <<>> /\ IsBlank(s[Len(s)]) THEN RStrip(SubSeq(s, 1, Len(s) - 1)) ELSE s

(* words: maximal runs of non-blank characters *)
RECURSIVE Words(_)
Words(s) == LET t == LStrip(s) IN
            IF t = <<>> THEN <<>>
            ELSE LET k == CHOOSE j \in 1 .. Len(t) : (\A i \in 1 .. j : ~IsBlank(t[i])) /\ (j = Len(t) \/ IsBlank(t[j + 1]))
                 IN <<SubSeq(t, 1, k)>> \o Words(SubSeq(t, k + 1, Len(t)))
Capitalize(w) == <<ToUpperC(w[1])>> \o LowerSeq(Tail(w))

RECURSIVE ReplaceAll(_, _, _)
ReplaceAll(s, f, t) == IF Len(s) < Len(f) THEN s
                       ELSE IF SubSeq(s, 1, Len(f)) = f THEN t \o ReplaceAll(SubSeq(s, Len(f) + 1, Len(s)), f, t)
                       ELSE <<s[1]>> \o ReplaceAll(Tail(s), f, t)

RECURSIVE Join(_, _)
Join(parts, sep) == IF parts = <<>> THEN <<>> ELSE IF Len(parts) = 1 THEN parts[1] ELSE parts[1] \o sep \o Join(Tail(parts), sep)
RECURSIVE Flatten(_)
Flatten(parts) == IF parts = <<>> THEN <<>> ELSE parts[1] \o Flatten(Tail(parts))

(* integers written as text: optional '-', digits (at most 9) *)
IsIntText(c) == LET b == IF c # <<>> /\ c[1] = "-" THEN Tail(c) ELSE c IN AllDigits(b) /\ Len(b) <= 9
IntOf(c) == IF c[1] = "-" THEN 0 - NatOfDigits(Tail(c)) ELSE NatOfDigits(c)

RECURSIVE ToBase(_, _)
BaseDigits == <<"0","1","2","3","4","5","6","7","8","9","a","b","c","d","e","f">>
ToBase(n, b) == IF n < b THEN <<BaseDigits[n + 1]>> ELSE ToBase(n \div b, b) \o <<BaseDigits[(n % b) + 1]>>
RECURSIVE IPow(_, _)
IPow(b, e) == IF e = 0 THEN 1 ELSE b * IPow(b, e - 1)

(* base64 of ASCII text *)
B64 == <<"A","B","C","D","E","F","G","H","I","J","K","L","M","N","O","P","Q","R","S","T","U","V","W","X","Y","Z",
         "a","b","c","d","e","f","g","h","i","j","k","l","m","n","o","p","q","r","s","t","u","v","w","x","y","z",
         "0","1","2","3","4","5","6","7","8","9","+","/">>
RECURSIVE Enc64(_)
Enc64(bytes) ==
  IF bytes = <<>> THEN <<>>
  ELSE IF Len(bytes) = 1 THEN <<B64[(bytes[1] \div 4) + 1], B64[((bytes[1] % 4) * 16) + 1], "=", "=">>
  ELSE IF Len(bytes) = 2 THEN <<B64[(bytes[1] \div 4) + 1], B64[((bytes[1] % 4) * 16 + bytes[2] \div 16) + 1],
                                B64[((bytes[2] % 16) * 4) + 1], "=">>
  ELSE <<B64[(bytes[1] \div 4) + 1], B64[((bytes[1] % 4) * 16 + bytes[2] \div 16) + 1],
         B64[((bytes[2] % 16) * 4 + bytes[3] \div 64) + 1], B64[(bytes[3] % 64) + 1]>> \o Enc64(SubSeq(bytes, 4, Len(bytes)))
IsAscii(s) == \A i \in 1 .. Len(s) : Code(s[i]) < 1000
ToBase64(s) == Enc64([i \in 1 .. Len(s) |-> Code(s[i])])

(* dates written YYYY-MM-DD, anywhere in the text (`year(name)` on report-2023-12-31.txt): the first place where the shape occurs *)
ShapeAt(c, i) == i + 9 <= Len(c) /\ AllDigits(SubSeq(c, i, i + 3)) /\ c[i + 4] = "-" /\ AllDigits(SubSeq(c, i + 5, i + 6)) /\ c[i + 7] = "-"
                 /\ AllDigits(SubSeq(c, i + 8, i + 9))
DatePos(c) == IF \E i \in 1 .. Len(c) : ShapeAt(c, i) THEN CHOOSE i \in 1 .. Len(c) : ShapeAt(c, i) /\ \A j \in 1 .. i - 1 : ~ShapeAt(c, j) ELSE 0
DateY(c) == NatOfDigits(SubSeq(c, DatePos(c), DatePos(c) + 3))
DateM(c) == NatOfDigits(SubSeq(c, DatePos(c) + 5, DatePos(c) + 6))
DateD(c) == NatOfDigits(SubSeq(c, DatePos(c) + 8, DatePos(c) + 9))
IsDateText(c) == DatePos(c) > 0 /\ DateY(c) >= 1970 /\ DateY(c) <= 2037 /\ DateM(c) >= 1 /\ DateM(c) <= 12
                 /\ DateD(c) >= 1 /\ DateD(c) <= DaysInMonth(DateY(c), DateM(c))
Dow(c) == ((DaysFromCivil(DateY(c), DateM(c), DateD(c)) + 4) % 7) + 1       \* 1 = Sunday

Min2(a, b) == IF a < b THEN a ELSE b
SeqMin(s) == CHOOSE x \in { s[i] : i \in 1 .. Len(s) } : \A i \in 1 .. Len(s) : x <= s[i]
SeqMax(s) == CHOOSE x \in { s[i] : i \in 1 .. Len(s) } : \A i \in 1 .. Len(s) : x >= s[i]
IsSquare(v) == \E q \in 0 .. 46340 : q * q = v
SqrtOf(v) == CHOOSE q \in 0 .. 46340 : q * q = v

(* fn applied to argument texts a[1..] (already evaluated) *)
Apply(fn, a) ==
  LET n == Len(a) IN
  CASE fn = "lower" -> IF n = 1 THEN Text(LowerSeq(a[1])) ELSE Undef
    [] fn = "upper" -> IF n = 1 THEN Text(UpperSeq(a[1])) ELSE Undef
    [] fn = "initcap" -> IF n = 1 THEN [k |-> "words", w |-> [i \in 1 .. Len(Words(a[1])) |-> Capitalize(Words(a[1])[i])]] ELSE Undef
    [] fn = "length" -> IF n = 1 THEN IntR(Len(a[1])) ELSE Undef
    [] fn = "trim" -> IF n = 1 THEN Text(RStrip(LStrip(a[1]))) ELSE Undef
    [] fn = "ltrim" -> IF n = 1 THEN Text(LStrip(a[1])) ELSE Undef
    [] fn = "rtrim" -> IF n = 1 THEN Text(RStrip(a[1])) ELSE Undef
    [] fn = "substr" ->
         IF n < 2 \/ n > 3 THEN Undef
         ELSE IF ~IsIntText(a[2]) \/ (n = 3 /\ ~IsIntText(a[3])) THEN Wrong
         ELSE LET s == a[1] p == IntOf(a[2]) ln == IF n = 3 THEN IntOf(a[3]) ELSE Len(s) + 1 IN
              IF n = 3 /\ ln < 0 THEN Wrong
              ELSE IF p = 0 \/ (n = 3 /\ ln = 0) \/ (p < 0 /\ 0 - p > Len(s)) THEN Undef
              ELSE LET st == IF p > 0 THEN p ELSE Len(s) + p + 1 IN
                   IF st > Len(s) THEN Text(<<>>) ELSE Text(SubSeq(s, st, Min2(Len(s), st + ln - 1)))
    [] fn = "replace" -> IF n # 3 THEN (IF n < 3 THEN Wrong ELSE Undef) ELSE IF a[2] = <<>> THEN Undef ELSE Text(ReplaceAll(a[1], a[2], a[3]))
    [] fn = "concat" -> Text(Flatten(a))
    [] fn = "concat_ws" -> IF n < 2 THEN Undef ELSE Text(Join(Tail(a), a[1]))
    [] fn = "coalesce" -> IF \E i \in 1 .. n : a[i] # <<>> THEN Text(a[CHOOSE i \in 1 .. n : a[i] # <<>> /\ \A j \in 1 .. i - 1 : a[j] = <<>>])
                          ELSE Text(<<>>)
    [] fn = "to_base64" -> IF n = 1 /\ IsAscii(a[1]) THEN Text(ToBase64(a[1])) ELSE Undef
    [] fn = "bin" -> IF n # 1 THEN Undef ELSE IF ~IsIntText(a[1]) THEN Wrong ELSE IF IntOf(a[1]) < 0 THEN Undef ELSE Text(ToBase(IntOf(a[1]), 2))
    [] fn = "hex" -> IF n # 1 THEN Undef ELSE IF ~IsIntText(a[1]) THEN Wrong ELSE IF IntOf(a[1]) < 0 THEN Undef ELSE Text(ToBase(IntOf(a[1]), 16))
    [] fn = "oct" -> IF n # 1 THEN Undef ELSE IF ~IsIntText(a[1]) THEN Wrong ELSE IF IntOf(a[1]) < 0 THEN Undef ELSE Text(ToBase(IntOf(a[1]), 8))
    [] fn = "abs" -> IF n # 1 THEN Undef ELSE IF ~IsIntText(a[1]) THEN Wrong ELSE IntR(IF IntOf(a[1]) < 0 THEN 0 - IntOf(a[1]) ELSE IntOf(a[1]))
    [] fn = "power" -> IF n # 2 THEN Undef
                       \* fractional exponents on perfect squares, negative exponents: exact rational results
                       ELSE IF IsIntText(a[1]) /\ IntOf(a[1]) >= 0 /\ IntOf(a[1]) <= 10000 /\ IsSquare(IntOf(a[1])) /\ a[2] = <<"0", ".", "5">> THEN IntR(SqrtOf(IntOf(a[1])))
                       ELSE IF IsIntText(a[1]) /\ IntOf(a[1]) >= 0 /\ IntOf(a[1]) <= 400 /\ IsSquare(IntOf(a[1])) /\ a[2] = <<"1", ".", "5">> THEN IntR(IPow(SqrtOf(IntOf(a[1])), 3))
                       ELSE IF IsIntText(a[1]) /\ IntOf(a[1]) >= 1 /\ IntOf(a[1]) <= 20 /\ a[2] \in {<<"-", "1">>, <<"-", "2">>} THEN [k |-> "ratio", n |-> 1, d |-> IPow(IntOf(a[1]), 0 - IntOf(a[2]))]
                       ELSE IF ~IsIntText(a[1]) \/ ~IsIntText(a[2]) THEN Wrong
                       ELSE IF IntOf(a[2]) < 0 \/ IntOf(a[2]) > 80 \/ IntOf(a[1]) > 20 \/ IntOf(a[1]) < -20 THEN Undef
                       ELSE IF IntOf(a[2]) <= 6 THEN IntR(IPow(IntOf(a[1]), IntOf(a[2])))
                       \* larger powers of 2 and 10 are exactly representable and must be printed in full
                       ELSE IF IntOf(a[1]) = 2 \/ (IntOf(a[1]) = 10 /\ IntOf(a[2]) <= 22) THEN [k |-> "big", n |-> Pow(IntOf(a[1]), IntOf(a[2]))]
                       ELSE Undef
    [] fn = "sqrt" -> IF n # 1 THEN Undef ELSE IF ~IsIntText(a[1]) THEN Wrong ELSE IF IntOf(a[1]) < 0 THEN Undef
                      ELSE IF IsSquare(IntOf(a[1])) THEN IntR(SqrtOf(IntOf(a[1]))) ELSE [k |-> "sqrt", v |-> IntOf(a[1])]
    [] fn = "log" -> IF n # 1 THEN Undef ELSE IF ~IsIntText(a[1]) THEN Wrong
                     ELSE IF \E e \in 0 .. 9 : IPow(10, e) = IntOf(a[1]) THEN [k |-> "ratio", n |-> CHOOSE e \in 0 .. 9 : IPow(10, e) = IntOf(a[1]), d |-> 1]
                     ELSE Undef
    [] fn = "ln" -> IF n # 1 THEN Undef ELSE IF ~IsIntText(a[1]) THEN Wrong ELSE IF IntOf(a[1]) = 1 THEN IntR(0) ELSE Undef
    [] fn = "exp" -> IF n # 1 THEN Undef ELSE IF ~IsIntText(a[1]) THEN Wrong ELSE IF IntOf(a[1]) = 0 THEN IntR(1) ELSE Undef
    [] fn = "least" -> IF n = 0 THEN Undef ELSE IF \E i \in 1 .. n : ~IsIntText(a[i]) THEN (IF IsIntText(a[1]) THEN Undef ELSE Wrong)
                       ELSE IntR(SeqMin([i \in 1 .. n |-> IntOf(a[i])]))
    [] fn = "greatest" -> IF n = 0 THEN Undef ELSE IF \E i \in 1 .. n : ~IsIntText(a[i]) THEN (IF IsIntText(a[1]) THEN Undef ELSE Wrong)
                          ELSE IntR(SeqMax([i \in 1 .. n |-> IntOf(a[i])]))
    [] fn = "format_time" -> IF n # 1 THEN Undef ELSE IF ~IsIntText(a[1]) \/ IntOf(a[1]) < 0 THEN Wrong ELSE [k |-> "ftime", v |-> IntOf(a[1])]
    [] fn = "year" -> IF n # 1 THEN Undef ELSE IF IsDateText(a[1]) THEN IntR(DateY(a[1])) ELSE Wrong
    [] fn = "month" -> IF n # 1 THEN Undef ELSE IF IsDateText(a[1]) THEN IntR(DateM(a[1])) ELSE Wrong
    [] fn = "day" -> IF n # 1 THEN Undef ELSE IF IsDateText(a[1]) THEN IntR(DateD(a[1])) ELSE Wrong
    [] fn = "dow" -> IF n # 1 THEN Undef ELSE IF IsDateText(a[1]) THEN IntR(Dow(a[1])) ELSE Wrong
    [] OTHER -> Undef

RECURSIVE LimbDigits(_, _)
LimbDigits(a, i) == IF i = 0 THEN <<>> ELSE LET v == a[i] IN
                      <<DigitL[(v \div 1000) + 1], DigitL[((v \div 100) % 10) + 1], DigitL[((v \div 10) % 10) + 1], DigitL[(v % 10) + 1]>> \o LimbDigits(a, i - 1)
BigDigits(a) == IF a = <<>> THEN <<"0">> ELSE DigitsOfNat(a[Len(a)]) \o LimbDigits(a, Len(a) - 1)

(* the text a result stands for when it is passed on to an enclosing function; <<"?">> marks "not a definite text" *)
AsText(x) == CASE x.k = "text" -> [ok |-> TRUE, c |-> x.c]
               [] x.k = "int" -> [ok |-> TRUE, c |-> (IF x.v < 0 THEN <<"-">> \o DigitsOfNat(0 - x.v) ELSE DigitsOfNat(x.v))]
               [] x.k = "big" -> [ok |-> FALSE, c |-> BigDigits(x.n)]      \* printed digits beyond 2^53 are not fixed
               [] OTHER -> [ok |-> FALSE, c |-> <<>>]

(* printed duration: <n><unit> items separated by commas; units d h m s ms (and the micro sign) *)
UnitSecs(u) == CASE u = <<"d">> -> 86400 [] u = <<"h">> -> 3600 [] u = <<"m">> -> 60 [] u = <<"s">> -> 1 [] OTHER -> 0
RECURSIVE SplitOn(_, _)
SplitOn(s, sep) == IF ~HasChar(s, sep) THEN <<s>>
                   ELSE LET k == CHOOSE i \in 1 .. Len(s) : s[i] = sep /\ \A j \in 1 .. i - 1 : s[j] # sep
                        IN <<SubSeq(s, 1, k - 1)>> \o SplitOn(SubSeq(s, k + 1, Len(s)), sep)
ItemSecs(it) == LET k == CHOOSE j \in 0 .. Len(it) : (\A i \in 1 .. j : IsDigitC(it[i])) /\ (j = Len(it) \/ ~IsDigitC(it[j + 1]))
                IN IF k = 0 \/ k > 9 THEN -1
                   ELSE LET u == SubSeq(it, k + 1, Len(it)) IN
                        IF UnitSecs(u) > 0 THEN NatOfDigits(SubSeq(it, 1, k)) * UnitSecs(u)
                        ELSE IF NatOfDigits(SubSeq(it, 1, k)) = 0 THEN 0 ELSE -1       \* sub-second units may only carry zero
RECURSIVE SumItems(_)
SumItems(items) == IF items = <<>> THEN 0 ELSE LET x == ItemSecs(items[1]) y == SumItems(Tail(items)) IN IF x < 0 \/ y < 0 THEN -1 ELSE x + y
FTimeOk(cell, v) == SumItems(SplitOn(cell, ",")) = v
=============================================================================
