------------------------------ MODULE MC_DateMech ---------------------------
(* Mech => Prop for date literals (C13): for every literal of MC_C13's       *)
(* tables, in both separators, the interval DateMech!ParseDateTime reads out *)
(* of the characters of its text is the wall-clock interval the Prop layer   *)
(* gives it (day / hour / minute / second precision; relative words and      *)
(* offsets against each clock in each zone); texts that are not dates are    *)
(* rejected.  One TLC state per literal.                                     *)
EXTENDS MC_C13, DateMech

PadC(n, w) == LET ds == DigitsOfNat(n) IN [i \in 1 .. (w - Len(ds)) |-> "0"] \o ds
LitChars(x, sp) == PadC(x.y, 4) \o <<sp>> \o PadC(x.m, 2) \o <<sp>> \o PadC(x.d, 2)
                   \o (IF x.prec >= 2 THEN <<" ">> \o PadC(x.hh, 2) ELSE <<>>)
                   \o (IF x.prec >= 3 THEN <<":">> \o PadC(x.mi, 2) ELSE <<>>)
                   \o (IF x.prec >= 4 THEN <<":">> \o PadC(x.ss, 2) ELSE <<>>)
WordChars(wd) == CASE wd = "today" -> <<"t","o","d","a","y">> [] wd = "yesterday" -> <<"y","e","s","t","e","r","d","a","y">>
                   [] wd = "-2" -> <<"-","2">> [] wd = "+1" -> <<"+","1">> [] wd = "-1000" -> <<"-","1","0","0","0">> [] wd = "+1000" -> <<"+","1","0","0","0">>
(* the character rendering is the text the generator sends *)
SameText == (phase = "done" /\ lit.word = "" /\ sep # "/" /\ op # "stamp") => Str(LitChars(lit, sep)) = LitText
AbsAgrees == (phase = "done" /\ lit.word = "" /\ sep # "/" /\ op # "stamp") =>
   LET m == ParseDateTime(LitChars(lit, sep), 0)  p == WallInterval(lit) IN m.ok /\ m.a = p[1] /\ m.b = p[2]
RelAgrees == (phase = "done" /\ lit.word # "") =>
   LET lt == LocalTime(clock, ZoneOffAt(tz, clock))
       today == DaysFromCivil(lt.y, lt.m, lt.d)
       m == ParseDateTime(WordChars(lit.word), today)
   IN m.ok /\ m.a = (today + lit.rel) * 86400 /\ m.b = m.a + 86399
(* conformance scenarios: the scenarios of MC_C13 with the characters of the literal and the local day of the clock (Judge_DateMech) *)
TodayOf == LET lt == LocalTime(clock, ZoneOffAt(tz, clock)) IN DaysFromCivil(lt.y, lt.m, lt.d)
EmitC == (phase = "done" /\ op # "stamp" /\ sep # "/") =>
            PrintT(<<"REPLAY", ToJson(Scenario @@ [litc |-> IF lit.word = "" THEN LitChars(lit, sep) ELSE WordChars(lit.word), today |-> IF lit.word = "" THEN 0 ELSE TodayOf])>>)
(* what is rejected, what is read leniently, what the model leaves to the free-form reader *)
D(s) == s
ASSUME ~ParseDateTime(<<"2","0","1","7","-","1","3","-","0","1">>, 0).ok /\ ~ParseDateTime(<<"2","0","1","7","-","0","2","-","3","0">>, 0).ok
ASSUME ~ParseDateTime(<<"2","0","1","7","-","0","5","-","0","1"," ","2","5">>, 0).ok /\ ~ParseDateTime(<<"+","x">>, 0).ok /\ ~ParseDateTime(<<"-">>, 0).ok
ASSUME ParseDateTime(<<"2","0","1","6","-","0","2","-","2","9">>, 0).ok /\ ParseDateTime(<<"2","0","1","7","-","5","-","1">>, 0).a = Epoch(2017, 5, 1, 0, 0, 0, 0)
ASSUME ParseDateTime(<<"n","o","t","a","d","a","t","e">>, 0).abstain /\ ParseDateTime(<<"x","2","0","1","7","-","0","5","-","0","1">>, 0).ok
=============================================================================
