SPECIFICATION Spec
CONSTANTS
  MaxLinks = 2
INVARIANT Emit
