---------------------------- MODULE Judge_ExprEval --------------------------
(* Binding layer, conformance judge for the Mech models of the select list   *)
(* (Parser!ParseFields) and of the value computation (ExprEval): for every   *)
(* C15 scenario that prints expression columns, the query text is lexed and  *)
(* parsed by the models and each row's columns are evaluated left to right   *)
(* over one cache, as get_column_expr_value does; wherever the model yields  *)
(* a whole number, the printed cell must show that number.  A difference is  *)
(* DRIFT of the models, not a verdict about the property.                    *)
EXTENDS ExprEval, Arith, TLC, Json, IOUtils, FiniteSets

Rec == ndJsonDeserialize(IOEnv.OBS)
VARIABLE l
MCKnown == { <<"s","i","z","e">>, <<"h","a","r","d","l","i","n","k","s">>, <<"l","e","n","g","t","h">>, <<"n","a","m","e">>, <<"p","a","t","h">>,
             <<"l","i","n","e","_","c","o","u","n","t">> }

Verdict(r) ==
  LET w == r.world
      all == NodeIds(w)
      paths == [n \in all |-> <<".", "/">> \o RelPathC(w, n)]
      rows == r.obs.q.rows
      IdOf(c) == IF \E n \in all : paths[n] = c THEN CHOOSE n \in all : paths[n] = c ELSE 0
      pf == ParseFields(LexAll(<<r.queryc>>))
      ncol == Len(pf.list)
      Entry(n) == [size |-> r.snapshot[n].sizen, hardlinks |-> r.snapshot[n].nlinkn, lines |-> CountByte(w.nodes[n].content, 10), name |-> NameC(w, n)]
      bad == IF ~pf.ok THEN {}
             ELSE { i \in 1 .. Len(rows) : IdOf(rows[i][1]) # 0 /\ Len(rows[i]) = ncol /\
                      LET vs == RowVals(pf.list, Entry(IdOf(rows[i][1])), {}) IN
                      \E j \in 2 .. ncol : vs[j].ok /\ ~CellIsInt(rows[i][j], vs[j].v) }
      y == IF r.obs.q.timed_out \/ r.obs.q.panic THEN "ok"
           ELSE IF ~pf.ok THEN (IF r.obs.q.status = 2 THEN "ok" ELSE "fields-model-abstains")
           ELSE IF r.obs.q.status = 2 THEN "code-rejects-but-model-accepts"
           ELSE IF \E i \in 1 .. Len(rows) : Len(rows[i]) # ncol THEN "column-count-differs"
           ELSE IF bad # {} THEN "value-model-drift"
           ELSE "ok"
  IN [id |-> r.id, ok |-> (y = "ok"), class |-> r.class, why |-> y, key |-> "mech/" \o r.class \o "/" \o y,
      nontrivial |-> (pf.ok /\ ncol >= 2 /\ Len(rows) > 0)]

Init == l = 1
Next == /\ l <= Len(Rec)
        /\ PrintT(<<"VERDICT", ToJson(Verdict(Rec[l]))>>)
        /\ l' = l + 1
Spec == Init /\ [][Next]_l
Judged == PrintT(<<"JUDGED", ToJson([n |-> TLCGet("stats").diameter - 1])>>)
=============================================================================
