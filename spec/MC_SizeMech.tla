------------------------------ MODULE MC_SizeMech ---------------------------
(* Mech => Prop for size literals (C14): for every literal of MC_C14 - every *)
(* number spelling x every unit in every letter case - the number of bytes   *)
(* SizeMech!ParseFilesize reads out of the characters is the value of the    *)
(* documented unit table (MC_C14!ValueOf).  One TLC state per literal.       *)
EXTENDS MC_C14, SizeMech

NumChars(t) == CASE t = "1" -> <<"1">> [] t = "2" -> <<"2">> [] t = "1.5" -> <<"1",".","5">> [] t = "0.5" -> <<"0",".","5">> [] t = ".5" -> <<".","5">>
                 [] t = "1.50" -> <<"1",".","5","0">> [] t = "2.0" -> <<"2",".","0">> [] t = "1.005" -> <<"1",".","0","0","5">> [] t = "2.675" -> <<"2",".","6","7","5">>
(* the unit as it is spelled in this scenario: the letter-case variant, as characters *)
RECURSIVE SpelledChars(_, _)
SpelledChars(u, i) == IF i > Len(UnitChars(u)) THEN {<<>>}
                      ELSE { <<c>> \o r : c \in {UnitChars(u)[i], ToUpperC(UnitChars(u)[i])}, r \in SpelledChars(u, i + 1) }
(* (a number with a dot and no unit is not a size for parse_filesize: the comparison takes it as a decimal number - Conforms.tla) *)
HasDot(t) == t \notin {"1", "2"}
LitAgrees == (phase = "done" /\ kind = "lit") =>
   \A sp \in SpelledChars(unit, 1) : LET m == ParseFilesize(NumChars(number.txt) \o sp) IN
      IF unit = "" /\ HasDot(number.txt) THEN ~m.ok ELSE m.ok /\ m.v = ValueOf(unit, number)
(* conformance scenarios: the literal scenarios of MC_C14 with the characters of the literal (Judge_SizeMech reads the size out of them) *)
SpelledC == CHOOSE sp \in SpelledChars(unit, 1) : Str(sp) = spelled
EmitC == (phase = "done" /\ kind = "lit" /\ ~(unit = "" /\ HasDot(number.txt))) =>
            PrintT(<<"REPLAY", ToJson(LitScenario @@ [litc |-> NumChars(number.txt) \o SpelledC])>>)
ASSUME ParseFilesize(<<"1"," ","K","i","B">>).v = FromInt(1024) /\ ~ParseFilesize(<<"k">>).ok /\ ~ParseFilesize(<<"1","x">>).ok
ASSUME ParseFilesize(<<"1",".","0","0","5","k","b">>).v = FromInt(1005) /\ ParseFilesize(<<"7">>).v = FromInt(7) /\ ParseFilesize(<<"2",".","0","b">>).v = FromInt(2)
=============================================================================
