------------------------------- MODULE Civil --------------------------------
(* Prop layer: proleptic Gregorian calendar <-> seconds since the epoch,     *)
(* with a constant UTC offset (seconds east).  Valid for 1970..2037 so that  *)
(* every intermediate value fits TLC's 32-bit integers.                      *)
EXTENDS Integers, Chars

DaysFromCivil(y, m, d) ==
  LET yy  == IF m <= 2 THEN y - 1 ELSE y
      era == yy \div 400
      yoe == yy - era * 400
      mp  == (m + 9) % 12
      doy == (153 * mp + 2) \div 5 + d - 1
      doe == yoe * 365 + yoe \div 4 - yoe \div 100 + doy
  IN era * 146097 + doe - 719468

Epoch(y, m, d, hh, mi, ss, off) == DaysFromCivil(y, m, d) * 86400 + hh * 3600 + mi * 60 + ss - off

CivilFromDays(z0) ==
  LET z   == z0 + 719468
      era == z \div 146097
      doe == z - era * 146097
      yoe == (doe - doe \div 1460 + doe \div 36524 - doe \div 146096) \div 365
      doy == doe - (365 * yoe + yoe \div 4 - yoe \div 100)
      mp  == (5 * doy + 2) \div 153
      d   == doy - (153 * mp + 2) \div 5 + 1
      m   == IF mp < 10 THEN mp + 3 ELSE mp - 9
      y   == yoe + era * 400 + (IF m <= 2 THEN 1 ELSE 0)
  IN [y |-> y, m |-> m, d |-> d]

(* local broken-down time of an instant *)
LocalTime(t, off) ==
  LET lt == t + off
      days == lt \div 86400
      sod == lt - days * 86400
      c == CivilFromDays(days)
  IN [y |-> c.y, m |-> c.m, d |-> c.d, hh |-> sod \div 3600, mi |-> (sod % 3600) \div 60, ss |-> sod % 60,
      dow |-> ((days + 4) % 7) + 1]     \* 1 = Sunday (1970-01-01 was a Thursday)

DateText(y, m, d) == Pad4(y) \o "-" \o Pad2(m) \o "-" \o Pad2(d)
StampText(t, off) == LET x == LocalTime(t, off) IN
  DateText(x.y, x.m, x.d) \o " " \o Pad2(x.hh) \o ":" \o Pad2(x.mi) \o ":" \o Pad2(x.ss)

(* A zone with daylight saving time, code 1: US Eastern (TZ = EST5EDT,M3.2.0,M11.1.0) in 2016 and 2017.  UTC-4 between the   *)
(* second Sunday of March 02:00 and the first Sunday of November 02:00 local time, UTC-5 otherwise.  Zone codes other than 1 *)
(* are fixed offsets in seconds east of UTC.                                                                                 *)
DstOffAt(t) == IF \/ (t >= 1362898800 /\ t < 1383458400) \/ (t >= 1394348400 /\ t < 1414908000) \/ (t >= 1425798000 /\ t < 1446357600)       \* 2013 .. 2015
                  \/ (t >= 1457852400 /\ t < 1478412000) \/ (t >= 1489302000 /\ t < 1509861600) \/ (t >= 1520751600 /\ t < 1541311200)       \* 2016 .. 2018
                  \/ (t >= 1552201200 /\ t < 1572760800) \/ (t >= 1583650800 /\ t < 1604210400)                                             \* 2019, 2020
               THEN 0 - 14400 ELSE 0 - 18000
ZoneOffAt(z, t) == IF z = 1 THEN DstOffAt(t) ELSE z
(* the offset in force on a local calendar day that is not a transition day *)
ZoneOffOn(z, y, m, d) == IF z # 1 THEN z ELSE DstOffAt(DaysFromCivil(y, m, d) * 86400 + 43200)

IsLeap(y) == (y % 4 = 0 /\ y % 100 # 0) \/ y % 400 = 0
DaysInMonth(y, m) == IF m = 2 THEN (IF IsLeap(y) THEN 29 ELSE 28) ELSE IF m \in {4, 6, 9, 11} THEN 30 ELSE 31
=============================================================================
