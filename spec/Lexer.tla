-------------------------------- MODULE Lexer -------------------------------
(* Mech layer: implementation-shaped model of src/lexer.rs (Lexer::next_lexem *)
(* and its context flags).  The input is the argument vector: a sequence of   *)
(* arguments, each a sequence of 1-character strings.  One call of Scan is    *)
(* one run of the `loop { match mode { .. } }` of next_lexem; LexAll is the   *)
(* `while let Some(lexem) = lexer.next_lexem()` of Parser::parse.             *)
(*                                                                            *)
(* State record st:                                                           *)
(*   ii  input_index (1-based)       ci  char_index (0-based, -1 = the blank  *)
(*   bf  before_from                     that stands for an argument break)   *)
(*   psr possible_search_root        ao  after_open                           *)
(*   aw  after_where                 aop after_operator                       *)
(* Lexems are records [k |-> kind, s |-> text as characters].                 *)
(*                                                                            *)
(* The tables Field::from_str / Function::from_str enter only through         *)
(* looks_like_expression; they are a parameter (IsKnownWord).                 *)
EXTENDS Chars, Integers, Sequences, FiniteSets

CONSTANT KnownWords          \* words (character sequences, lower case) that name a column or a function

IsAlnum(c) == IsDigitC(c) \/ IsLowerC(c) \/ IsUpperC(c)
IsParen(c) == c \in {"(", ")", "{", "}"}
IsOpChar(st, c) == (st.bf \/ st.aw) /\ c \in {"=", "!", "<", ">", "~"}
IsArithChar(st, c) == IF c \in {"+", "-"} THEN st.bf \/ st.aw
                      ELSE IF c \in {"*", "/", "%"} THEN (st.bf \/ st.aw) /\ ~st.ao /\ ~st.aop
                      ELSE FALSE

(* s.split(|c| !c.is_ascii_alphanumeric() && c != '_'): pieces between characters that cannot stand in a name (empty pieces included) *)
RECURSIVE Pieces(_, _)
Pieces(s, cur) == IF s = <<>> THEN <<cur>>
                  ELSE IF IsAlnum(s[1]) \/ s[1] = "_" THEN Pieces(Tail(s), Append(cur, s[1]))
                  ELSE <<cur>> \o Pieces(Tail(s), <<>>)
IsInt(p) == AllDigits(p) /\ Len(p) <= 18
LooksLikeExpression(s) == \A i \in 1 .. Len(Pieces(s, <<>>)) :
                             LET p == Pieces(s, <<>>)[i] IN LowerSeq(p) \in KnownWords \/ IsInt(p)

(* DATE_ALIKE_REGEX (\d{4})-?(\d{2})? searched in s: the leftmost run of four digits, then optionally "-" and two digits *)
FirstYearAt(s) == IF \E i \in 1 .. Len(s) - 3 : \A k \in 0 .. 3 : IsDigitC(s[i + k])
                  THEN CHOOSE i \in 1 .. Len(s) - 3 : (\A k \in 0 .. 3 : IsDigitC(s[i + k]))
                                                      /\ \A j \in 1 .. i - 1 : ~(\A k \in 0 .. 3 : IsDigitC(s[j + k]))
                  ELSE 0
LooksLikeDate(s) ==
  LET i == FirstYearAt(s) IN
  IF i = 0 THEN FALSE
  ELSE LET year == NatOfDigits(SubSeq(s, i, i + 3))
           j == IF i + 4 <= Len(s) /\ s[i + 4] = "-" THEN i + 5 ELSE i + 4
           hasMonth == j + 1 <= Len(s) /\ IsDigitC(s[j]) /\ IsDigitC(s[j + 1])
       IN year >= 1970 /\ year < 3000 /\ (hasMonth => (NatOfDigits(SubSeq(s, j, j + 1)) >= 1 /\ NatOfDigits(SubSeq(s, j, j + 1)) <= 12))

OperatorWords == { <<"e","q">>, <<"n","e">>, <<"e","e","q">>, <<"e","n","e">>, <<"g","t">>, <<"l","t">>, <<"g","e">>, <<"l","e">>,
                   <<"g","t","e">>, <<"l","t","e">>, <<"r","e","g","e","x","p">>, <<"r","x">>, <<"n","o","t","r","x">>, <<"l","i","k","e">>,
                   <<"n","o","t","l","i","k","e">>, <<"b","e","t","w","e","e","n">> }
ArithWords == { <<"m","u","l">>, <<"d","i","v">>, <<"m","o","d">>, <<"p","l","u","s">>, <<"m","i","n","u","s">> }
Lx(k, s) == [k |-> k, s |-> s]
NoLexem == Lx("none", <<>>)

(* one run of the scanning loop: returns [st, s, mode] when the loop breaks *)
RECURSIVE Loop(_, _, _, _)
Loop(input, st, s, mode) ==
  IF st.ii > Len(input) THEN [st |-> st, s |-> s, mode |-> mode]
  ELSE LET part == input[st.ii] IN
       IF st.ci # -1 /\ st.ci >= Len(part)
       THEN Loop(input, [st EXCEPT !.ii = @ + 1, !.ci = -1, !.psr = FALSE], s, mode)
       ELSE LET c == IF st.ci = -1 THEN " " ELSE part[st.ci + 1]
                adv == [st EXCEPT !.ci = @ + 1]
            IN CASE mode \in {"comma", "open", "close"} -> [st |-> st, s |-> s, mode |-> mode]
                 [] mode = "squote" -> IF c = "'" THEN [st |-> adv, s |-> s, mode |-> mode] ELSE Loop(input, adv, Append(s, c), mode)
                 [] mode = "dquote" -> IF c = "\"" THEN [st |-> adv, s |-> s, mode |-> mode] ELSE Loop(input, adv, Append(s, c), mode)
                 [] mode = "bquote" -> IF c = "`" THEN [st |-> adv, s |-> s, mode |-> mode] ELSE Loop(input, adv, Append(s, c), mode)
                 [] mode = "operator" -> IF ~IsOpChar(st, c) THEN [st |-> st, s |-> s, mode |-> mode] ELSE Loop(input, adv, Append(s, c), mode)
                 [] mode = "arith" -> [st |-> st, s |-> s, mode |-> mode]
                 [] mode = "raw" ->
                      LET isDate == c = "-" /\ LooksLikeDate(s)
                          \* (a comma that ends the shell word of a root separates it from the next root)
                          stop == ~isDate /\
                                  (IF IsArithChar(st, c) THEN LooksLikeExpression(s)
                                   ELSE \/ (Len(input) = 1 \/ ~st.psr) /\ (c \in {" ", ","} \/ IsParen(c) \/ IsOpChar(st, c))
                                        \/ c = "," /\ st.psr /\ st.ci + 1 = Len(part))
                      IN IF stop THEN [st |-> st, s |-> s, mode |-> mode] ELSE Loop(input, adv, Append(s, c), mode)
                 [] mode = "undefined" ->
                      LET m == CASE c = " " -> "undefined" [] c = "'" -> "squote" [] c = "\"" -> "dquote" [] c = "`" -> "bquote"
                                 [] c = "," -> "comma" [] c \in {"(", "{"} -> "open" [] c \in {")", "}"} -> "close"
                                 [] OTHER -> (IF IsOpChar(st, c) THEN "operator" ELSE IF IsArithChar(st, c) THEN "arith" ELSE "raw")
                          s2 == IF m \in {"open", "close", "operator", "arith", "raw"} THEN Append(s, c) ELSE s
                      IN Loop(input, [adv EXCEPT !.ao = (m = "open")], s2, m)

(* next_lexem: [lexem, st] *)
RECURSIVE NextLexem(_, _)
NextLexem(input, st0) ==
  LET r == Loop(input, st0, <<>>, "undefined")
      st == r.st  s == r.s  low == LowerSeq(r.s)
      res == CASE r.mode \in {"squote", "dquote", "bquote"} -> [lx |-> Lx("string", s), st |-> st, again |-> FALSE]
               [] r.mode = "operator" -> [lx |-> Lx("operator", s), st |-> st, again |-> FALSE]
               [] r.mode = "arith" -> [lx |-> Lx("arith", s), st |-> st, again |-> FALSE]
               [] r.mode = "comma" -> [lx |-> Lx("comma", <<>>), st |-> st, again |-> FALSE]
               [] r.mode = "open" -> [lx |-> Lx(IF s = <<"(">> THEN "open" ELSE "curlyopen", <<>>), st |-> st, again |-> FALSE]
               [] r.mode = "close" -> [lx |-> Lx(IF s = <<")">> THEN "close" ELSE "curlyclose", <<>>), st |-> st, again |-> FALSE]
               [] r.mode = "raw" ->
                    (CASE low = <<"f","r","o","m">> -> [lx |-> Lx("from", <<>>), st |-> [st EXCEPT !.bf = FALSE, !.aw = FALSE], again |-> FALSE]
                       [] low = <<"w","h","e","r","e">> -> [lx |-> Lx("where", <<>>), st |-> [st EXCEPT !.aw = TRUE], again |-> FALSE]
                       [] low = <<"o","r">> -> [lx |-> Lx("or", <<>>), st |-> st, again |-> FALSE]
                       [] low = <<"a","n","d">> -> [lx |-> Lx("and", <<>>), st |-> st, again |-> FALSE]
                       [] low = <<"n","o","t">> /\ st.aw -> [lx |-> Lx("not", <<>>), st |-> st, again |-> FALSE]
                       [] low = <<"o","r","d","e","r">> -> [lx |-> Lx("order", <<>>), st |-> [st EXCEPT !.aw = TRUE], again |-> FALSE]
                       \* (GROUP BY keys may be arithmetic expressions; a search root may be called `group` too)
                       [] low = <<"g","r","o","u","p">> -> [lx |-> Lx("raw", s), st |-> (IF st.psr THEN st ELSE [st EXCEPT !.aw = TRUE]), again |-> FALSE]
                       [] low = <<"b","y">> -> [lx |-> Lx("by", <<>>), st |-> st, again |-> FALSE]
                       [] low = <<"a","s","c">> -> [lx |-> NoLexem, st |-> st, again |-> TRUE]
                       [] low = <<"d","e","s","c">> -> [lx |-> Lx("desc", <<>>), st |-> st, again |-> FALSE]
                       [] low = <<"l","i","m","i","t">> -> [lx |-> Lx("limit", <<>>), st |-> st, again |-> FALSE]
                       [] low = <<"i","n","t","o">> -> [lx |-> Lx("into", <<>>), st |-> st, again |-> FALSE]
                       [] low \in OperatorWords -> [lx |-> Lx("operator", s), st |-> st, again |-> FALSE]
                       [] low \in ArithWords -> [lx |-> Lx("arith", s), st |-> st, again |-> FALSE]
                       [] OTHER -> [lx |-> Lx("raw", s), st |-> st, again |-> FALSE])
               [] OTHER -> [lx |-> NoLexem, st |-> st, again |-> FALSE]
  IN IF res.again THEN NextLexem(input, res.st)        \* `"asc" => self.next_lexem()`: the flags of the inner call are final
     ELSE [lx |-> res.lx,
           st |-> [res.st EXCEPT !.psr = (res.lx.k = "from" \/ (res.lx.k = "comma" /\ ~res.st.bf /\ ~res.st.aw)),
                                 !.aop = (res.lx.k = "operator")]]

InitState == [ii |-> 1, ci |-> 0, bf |-> TRUE, psr |-> FALSE, ao |-> FALSE, aw |-> FALSE, aop |-> FALSE]
RECURSIVE LexFrom(_, _, _)
LexFrom(input, st, fuel) == IF fuel = 0 THEN <<Lx("FUEL", <<>>)>>
                            ELSE LET r == NextLexem(input, st) IN
                                 IF r.lx.k = "none" THEN <<>> ELSE <<r.lx>> \o LexFrom(input, r.st, fuel - 1)
(* Parser::parse keeps every lexem (empty strings included since the empty-literal fix) *)
LexAll(input) == LexFrom(input, InitState, 64)

(* splitting one argument at the blanks that are outside quotes: the argument vector a shell would pass *)
RECURSIVE SplitWords(_, _, _)
SplitWords(s, cur, q) ==
  IF s = <<>> THEN (IF cur = <<>> THEN <<>> ELSE <<cur>>)
  ELSE IF q # "" THEN SplitWords(Tail(s), Append(cur, s[1]), IF s[1] = q THEN "" ELSE q)
  ELSE IF s[1] \in {"'", "\"", "`"} THEN SplitWords(Tail(s), Append(cur, s[1]), s[1])
  ELSE IF s[1] = " " THEN (IF cur = <<>> THEN <<>> ELSE <<cur>>) \o SplitWords(Tail(s), <<>>, "")
  ELSE SplitWords(Tail(s), Append(cur, s[1]), "")
FullSplit(s) == SplitWords(s, <<>>, "")
=============================================================================
