SPECIFICATION Spec
CONSTANTS
  FmtPrecisions = {9, 0, 1, 2, 3}
  FmtUnits = {"", "b", "k", "kb", "kib", "m", "mb", "mib", "g", "gb", "gib", "t", "tb", "tib"}
INVARIANTS EmitWorld Emit
