SPECIFICATION Spec
CONSTANTS
  MaxKeys = 2
  KeyCols = {"name", "ext", "size", "hardlinks", "modified", "length(name)", "size + 1", "length(name) * 4", "is_dir", "day(modified)"}
  WorldSel = {0}
INVARIANTS EmitWorld Emit
