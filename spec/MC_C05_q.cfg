SPECIFICATION Spec
CONSTANTS
  MaxKeys = 2
  KeyCols = {"name", "ext", "size", "hardlinks", "modified", "length(name)", "size + 1", "size - 100", "-size", "2 * size", "length(name) * 4", "is_dir", "day(modified)", "dow(modified)", "-length(name)", "concat(size, name)"}
  WorldSel = {0}
INVARIANTS EmitWorld Emit
