----------------------------- MODULE Judge_C15 ------------------------------
(* Binding layer, trace judge for C15: every expression column of every row  *)
(* shows the value Arith!AEval gives that expression for that entry (where   *)
(* defined), whatever other columns stand next to it; WHERE on an expression *)
(* selects exactly the entries whose value satisfies the comparison.         *)
EXTENDS Arith, Agg, TLC, Json, IOUtils, FiniteSets

Rec == ndJsonDeserialize(IOEnv.OBS)
VARIABLE l

Verdict(r) ==
  LET w     == r.world
      all   == NodeIds(w)
      paths == [n \in all |-> <<".", "/">> \o RelPathC(w, n)]
      rows  == r.obs.q.rows
      IdOf(c) == IF \E n \in all : paths[n] = c THEN CHOOSE n \in all : paths[n] = c ELSE 0
      ids   == [i \in 1 .. Len(rows) |-> IdOf(rows[i][1])]
      wv    == [n \in all |-> AEval(r, n, r.exprs[1], 1)]
      must  == IF r.kind = "where" THEN { n \in all : wv[n].ok /\ IntCmp(r.wop, wv[n].v, r.wlit) } ELSE all
      may   == IF r.kind = "where" THEN { n \in all : ~wv[n].ok } ELSE {}
      \* positions of the expression cells and of the literal cells in a row (keytext-before: the literals come first)
      off   == IF r.kind = "keytext-before" THEN Len(r.lits) ELSE 0
      loff  == IF r.kind = "keytext-before" THEN 0 ELSE Len(r.exprs)
      badCell == IF r.kind = "where" THEN {}
                 ELSE { <<i, j>> \in (1 .. Len(rows)) \X (1 .. Len(r.exprs)) :
                          ids[i] # 0 /\ LET e == AEval(r, ids[i], r.exprs[j], 1) IN e.ok /\ ~CellIsInt(rows[i][1 + off + j], e.v) }
      badLit == IF r.kind = "bigproduct" THEN {}
                ELSE { <<i, k>> \in (1 .. Len(rows)) \X (1 .. Len(r.lits)) : rows[i][1 + loff + k] # r.lits[k] }
      \* the exact product of the factors, and the rows whose cell is not within 10^-9 of it
      BigOf(ds) == FromDigits([i \in 1 .. Len(ds) |-> DigitVal(ds[i])])
      RECURSIVE ProdFrom(_)
      ProdFrom(k) == IF k > Len(r.lits) THEN <<1>> ELSE Mul(BigOf(r.lits[k]), ProdFrom(k + 1))
      badBig == IF r.kind # "bigproduct" THEN {}
                ELSE { i \in 1 .. Len(rows) : LET d == ParseDec(rows[i][2]) IN ~(d.ok /\ ~d.neg /\ CloseRel(d.num, Pow10(d.scale), ProdFrom(1), <<1>>, 9)) }
      firstBad == CHOOSE p \in badCell : \A q \in badCell : p[2] <= q[2]
      y == IF r.obs.q.timed_out THEN "timeout" ELSE IF r.obs.q.panic THEN "crash"
           ELSE IF r.obs.q.status = 2 THEN "rejected-as-malformed"
           ELSE IF \E i \in 1 .. Len(ids) : ids[i] = 0 THEN "unknown-row"
           ELSE IF Cardinality({ ids[i] : i \in 1 .. Len(ids) }) # Len(ids) THEN "duplicate-row"
           ELSE IF { ids[i] : i \in 1 .. Len(ids) } \ (must \cup may) # {} THEN "extra-row"
           ELSE IF must \ { ids[i] : i \in 1 .. Len(ids) } # {} THEN "missing-row"
           ELSE IF badCell # {} THEN "wrong-value-column" \o ToString(firstBad[2])
           ELSE IF badLit # {} THEN "text-literal-shows-another-column"
           ELSE IF badBig # {} THEN "wrong-large-product"
           ELSE "ok"
  IN [id |-> r.id, ok |-> (y = "ok"), class |-> r.class, why |-> y, key |-> "C15/" \o r.class \o "/" \o y,
      nontrivial |-> (IF r.kind = "where" THEN must # {} /\ must # all
                      ELSE \E n \in all, j \in 1 .. Len(r.exprs) : AEval(r, n, r.exprs[j], 1).ok)]

Init == l = 1
Next == /\ l <= Len(Rec)
        /\ PrintT(<<"VERDICT", ToJson(Verdict(Rec[l]))>>)
        /\ l' = l + 1
Spec == Init /\ [][Next]_l
Judged == PrintT(<<"JUDGED", ToJson([n |-> TLCGet("stats").diameter - 1])>>)
=============================================================================
