-------------------------------- MODULE Agg ---------------------------------
(* Prop layer: the mathematical aggregates of C07/C08 over exact naturals    *)
(* (BigNat) and the acceptance of a printed decimal "up to floating-point    *)
(* rounding" (relative 10^-9 for AVG, 10^-6 for variances and deviations).   *)
EXTENDS Eval, BigNat

(* a printed number: optional '-', digits, optional '.' digits *)
ParseDec(cs) ==
  LET neg  == cs # <<>> /\ cs[1] = "-"
      body == IF neg THEN Tail(cs) ELSE cs
      dot  == IF HasChar(body, ".") THEN CHOOSE i \in 1 .. Len(body) : body[i] = "." ELSE 0
      ip   == IF dot = 0 THEN body ELSE SubSeq(body, 1, dot - 1)
      fp   == IF dot = 0 THEN <<>> ELSE SubSeq(body, dot + 1, Len(body))
      ok   == AllDigits(ip) /\ (dot = 0 \/ AllDigits(fp))
  IN IF ok THEN [ok |-> TRUE, neg |-> neg, num |-> FromDigits([i \in 1 .. Len(ip) + Len(fp) |-> DigitVal((ip \o fp)[i])]), scale |-> Len(fp)]
     ELSE [ok |-> FALSE, neg |-> FALSE, num |-> <<>>, scale |-> 0]

(* the value of an aggregated column for node n, as BigNat; a column may be undefined for an entry (line_count of a *)
(* directory): such an entry counts for COUNT and contributes nothing to SUM, MIN and MAX                           *)
Defined(r, n, col) == col \in {"size", "size * 2", "size + 1"} \/ Attr(r, n, col).t # "none"
SizeBig(r, n) == LET c == r.snapshot[n].sizec IN FromDigits([i \in 1 .. Len(c) |-> DigitVal(c[i])])
NatOf(r, n, col) ==
  IF col = "size" THEN SizeBig(r, n)
  ELSE IF col = "size * 2" THEN MulSmall(SizeBig(r, n), 2)              \* (an aggregate may wrap an arithmetic expression)
  ELSE IF col = "size + 1" THEN Add(SizeBig(r, n), <<1>>)
  ELSE FromInt(Attr(r, n, col).v)

RECURSIVE SumOver(_, _, _, _)
SumOver(r, S, col, sq) ==
  IF S = {} THEN <<>>
  ELSE LET n == CHOOSE x \in S : TRUE  v == IF Defined(r, n, col) THEN NatOf(r, n, col) ELSE <<>>
       IN Add(IF sq THEN Mul(v, v) ELSE v, SumOver(r, S \ {n}, col, sq))
DefinedIn(r, S, col) == { n \in S : Defined(r, n, col) }
MinOver(r, S, col) == LET D == DefinedIn(r, S, col) IN NatOf(r, CHOOSE n \in D : \A m \in D : Leq(NatOf(r, n, col), NatOf(r, m, col)), col)
MaxOver(r, S, col) == LET D == DefinedIn(r, S, col) IN NatOf(r, CHOOSE n \in D : \A m \in D : Leq(NatOf(r, m, col), NatOf(r, n, col)), col)

IsInt(d, v) == d.ok /\ ~(d.neg /\ ~IsZero(d.num)) /\ d.num = Mul(v, Pow10(d.scale))
Tiny(d) == d.ok /\ Leq(Mul(d.num, Pow10(6)), Pow10(d.scale))            \* |d| <= 10^-6

(* does the printed cell `cs` show aggregate fn(col) of the entries S ?  "U" where the statement leaves it undefined *)
AggOk(r, S, fn, col, cs) ==
  LET d  == ParseDec(cs)
      n  == Cardinality(S)
      s1 == SumOver(r, S, col, FALSE)
      s2 == SumOver(r, S, col, TRUE)
      v  == Sub(MulSmall(s2, n), Mul(s1, s1))          \* n*sum(x^2) - sum(x)^2  >= 0
      den == IF fn \in {"var_pop", "stddev_pop"} THEN n * n ELSE n * (n - 1)
      nd == Cardinality(DefinedIn(r, S, col))
  IN CASE fn = "count" -> B3(IsInt(d, FromInt(n)))
       [] fn = "sum" -> B3(IsInt(d, s1))
       [] fn = "min" -> IF nd = 0 THEN "U" ELSE B3(IsInt(d, MinOver(r, S, col)))
       [] fn = "max" -> IF nd = 0 THEN "U" ELSE B3(IsInt(d, MaxOver(r, S, col)))
       \* (the statement defines the variances only over entries that all have a value)
       [] fn \in {"var_pop", "var_samp", "stddev_pop", "stddev_samp"} /\ nd # n -> "U"
       [] fn = "avg" -> IF n = 0 THEN "U"
                        ELSE B3(d.ok /\ ~(d.neg /\ ~IsZero(d.num)) /\
                                (IF IsZero(s1) THEN IsZero(d.num) ELSE CloseRel(d.num, Pow10(d.scale), s1, FromInt(n), 9)))
       [] fn \in {"var_pop", "var_samp"} ->
            IF n = 0 \/ (fn = "var_samp" /\ n = 1) THEN "U"
            ELSE B3(d.ok /\ ~(d.neg /\ ~IsZero(d.num)) /\
                    (IF IsZero(v) THEN Tiny(d) ELSE CloseRel(d.num, Pow10(d.scale), v, FromInt(den), 6)))
       [] fn \in {"stddev_pop", "stddev_samp"} ->
            IF n = 0 \/ (fn = "stddev_samp" /\ n = 1) THEN "U"
            ELSE B3(d.ok /\ ~(d.neg /\ ~IsZero(d.num)) /\
                    (IF IsZero(v) THEN Tiny(d) ELSE CloseRel(Mul(d.num, d.num), Pow10(2 * d.scale), v, FromInt(den), 6)))
=============================================================================
