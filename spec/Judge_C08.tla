----------------------------- MODULE Judge_C08 ------------------------------
(* Binding layer, trace judge for C08: the group rows are in bijection with  *)
(* the distinct key tuples among the matching entries; each row shows its    *)
(* key and the aggregates Agg!AggOk accepts for exactly the entries with     *)
(* that key (hence the COUNTs and SUMs add up); ORDER BY on a key or an      *)
(* integer-valued aggregate sorts the rows (numerically when the values are  *)
(* integers, else by code points).                                           *)
EXTENDS Agg, TLC, Json, IOUtils

Rec == ndJsonDeserialize(IOEnv.OBS)
VARIABLE l

KeyText(r, n, k) ==
  CASE k = "ext" -> ExtC(NameC(r.world, n)) [] k = "dir" -> DirC(r.world, n) [] k = "mode" -> ModeChars(r.snapshot[n].mode)
    [] k = "is_dir" -> (IF r.world.nodes[n].kind = "dir" THEN <<"t","r","u","e">> ELSE <<"f","a","l","s","e">>)
    [] k = "uid" -> DigitsOfNat(r.snapshot[n].uidn) [] k = "length(name)" -> DigitsOfNat(Len(NameC(r.world, n)))
KeyTuple(r, n) == [i \in 1 .. Len(r.keys) |-> KeyText(r, n, r.keys[i])]
NumericKey(k) == k \in {"uid", "length(name)"}

(* -1/0/1 on two printed cells: numerically if both are naturals, else by code points *)
CellCmp(a, b, numeric) ==
  IF numeric /\ AllDigits(a) /\ AllDigits(b)
  THEN Cmp(FromDigits([i \in 1 .. Len(a) |-> DigitVal(a[i])]), FromDigits([i \in 1 .. Len(b) |-> DigitVal(b[i])]))
  \* non-negative decimals (an average): compared by value
  ELSE IF numeric /\ ParseDec(a).ok /\ ParseDec(b).ok /\ ~ParseDec(a).neg /\ ~ParseDec(b).neg
  THEN LET x == ParseDec(a) y == ParseDec(b) IN Cmp(Mul(x.num, Pow10(y.scale)), Mul(y.num, Pow10(x.scale)))
  ELSE IF a = b THEN 0 ELSE IF LexLeq(a, b) THEN -1 ELSE 1

Verdict(r) ==
  LET all  == NodeIds(r.world)
      sat  == [n \in all |-> Sat3(r, n, r.formula)]
      S    == { n \in all : sat[n] = "T" }
      nk   == Len(r.keys)
      sh   == r.shown                                         \* leading keys that are selected
      want == { KeyTuple(r, n) : n \in S }
      rows == r.obs.q.rows
      wellformed == \A i \in 1 .. Len(rows) : Len(rows[i]) = sh + Len(r.fns)
      got  == [i \in 1 .. Len(rows) |-> SubSeq(rows[i], 1, sh)]
      gotSet == { got[i] : i \in 1 .. Len(rows) }
      G(t) == { n \in S : KeyTuple(r, n) = t }
      \* all keys shown: the row names its group
      res  == [i \in 1 .. Len(rows) |-> [j \in 1 .. Len(r.fns) |-> AggOk(r, G(got[i]), r.fns[j], r.col, rows[i][sh + j])]]
      badAgg == \E i \in 1 .. Len(rows), j \in 1 .. Len(r.fns) : res[i][j] = "F"
      \* some key hidden (exact aggregates only): the rows, as a bag, are the groups' rows.  M[i] = groups row i can stand for
      M == [i \in 1 .. Len(rows) |-> { t \in want : SubSeq(t, 1, sh) = got[i]
                                                    /\ \A j \in 1 .. Len(r.fns) : AggOk(r, G(t), r.fns[j], r.col, rows[i][sh + j]) = "T" }]
      R(t) == { i \in 1 .. Len(rows) : t \in M[i] }
      bagOk == /\ \A i \in 1 .. Len(rows) : M[i] # {}
               /\ \A t \in want : Cardinality(R(t)) = Cardinality({ u \in want : R(u) = R(t) })
      o == r.order
      Pos(x) == IF x.by = "key" THEN x.i ELSE sh + x.i
      Numeric(x) == IF x.by = "key" THEN NumericKey(r.keys[x.i]) ELSE TRUE
      Dir(x, c) == IF x.desc THEN 0 - c ELSE c
      \* (ORDER BY an aggregate that is not selected: the rows name their groups, the judge computes the sums)
      HSum(i) == SumOver(r, G(got[i]), "size", FALSE)
      \* (ORDER BY a key that is not selected: rows i, k are in order if they can stand for two groups whose keys are in that order)
      HiddenKey == Len(o) = 1 /\ o[1].by = "key" /\ o[1].i > sh
      HKeyCmp(i, k) == IF \E t \in M[i], u \in M[k] : t # u /\ Dir(o[1], CellCmp(t[o[1].i], u[o[1].i], Numeric(o[1]))) <= 0 THEN 0 - 1 ELSE 1
      RowCmp(i, k) == IF HiddenKey THEN HKeyCmp(i, k) ELSE
                      IF o[1].by = "hsum" THEN Dir(o[1], Cmp(HSum(i), HSum(k))) ELSE
                      LET c1 == Dir(o[1], CellCmp(rows[i][Pos(o[1])], rows[k][Pos(o[1])], Numeric(o[1]))) IN
                      IF c1 # 0 \/ Len(o) = 1 THEN c1 ELSE Dir(o[2], CellCmp(rows[i][Pos(o[2])], rows[k][Pos(o[2])], Numeric(o[2])))
      sorted == o = <<>> \/ \A i \in 1 .. Len(rows) - 1 : RowCmp(i, i + 1) <= 0
      y == IF r.obs.q.timed_out THEN "timeout"
           ELSE IF r.obs.q.panic THEN "crash"
           ELSE IF r.obs.q.status = 2 THEN "rejected-as-malformed"
           ELSE IF ~wellformed THEN "wrong-cell-count"
           ELSE IF sh = nk /\ Len(rows) # Cardinality(gotSet) THEN "duplicate-group"
           ELSE IF sh = nk /\ gotSet \ want # {} THEN "unexpected-group"
           ELSE IF sh = nk /\ want \ gotSet # {} THEN "missing-group"
           ELSE IF sh = nk /\ badAgg THEN "wrong-aggregate"
           ELSE IF sh < nk /\ Len(rows) < Cardinality(want) THEN "missing-group"
           ELSE IF sh < nk /\ Len(rows) > Cardinality(want) THEN "unexpected-group"
           ELSE IF sh < nk /\ ~bagOk THEN "wrong-aggregate"
           ELSE IF ~sorted THEN "not-sorted"
           ELSE "ok"
  IN [id |-> r.id, ok |-> (y = "ok"), class |-> r.class, why |-> y,
      key |-> "C08/" \o r.class \o "/" \o y,
      nontrivial |-> (Cardinality(want) >= 2 /\ Cardinality(S) > Cardinality(want))]

Init == l = 1
Next == /\ l <= Len(Rec)
        /\ PrintT(<<"VERDICT", ToJson(Verdict(Rec[l]))>>)
        /\ l' = l + 1
Spec == Init /\ [][Next]_l
Judged == PrintT(<<"JUDGED", ToJson([n |-> TLCGet("stats").diameter - 1])>>)
=============================================================================
