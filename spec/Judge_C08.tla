----------------------------- MODULE Judge_C08 ------------------------------
(* Binding layer, trace judge for C08: the group rows are in bijection with  *)
(* the distinct key tuples among the matching entries; each row shows its    *)
(* key and the aggregates Agg!AggOk accepts for exactly the entries with     *)
(* that key (hence the COUNTs and SUMs add up); ORDER BY on a key or an      *)
(* integer-valued aggregate sorts the rows (numerically when the values are  *)
(* integers, else by code points).                                           *)
EXTENDS Agg, TLC, Json, IOUtils

Rec == ndJsonDeserialize(IOEnv.OBS)
VARIABLE l

KeyText(r, n, k) ==
  CASE k = "ext" -> ExtC(NameC(r.world, n)) [] k = "dir" -> DirC(r.world, n) [] k = "mode" -> ModeChars(r.snapshot[n].mode)
    [] k = "is_dir" -> (IF r.world.nodes[n].kind = "dir" THEN <<"t","r","u","e">> ELSE <<"f","a","l","s","e">>)
    [] k = "uid" -> DigitsOfNat(r.snapshot[n].uidn) [] k = "length(name)" -> DigitsOfNat(Len(NameC(r.world, n)))
KeyTuple(r, n) == [i \in 1 .. Len(r.keys) |-> KeyText(r, n, r.keys[i])]
NumericKey(k) == k \in {"uid", "length(name)"}

(* -1/0/1 on two printed cells: numerically if both are naturals, else by code points *)
CellCmp(a, b, numeric) ==
  IF numeric /\ AllDigits(a) /\ AllDigits(b)
  THEN Cmp(FromDigits([i \in 1 .. Len(a) |-> DigitVal(a[i])]), FromDigits([i \in 1 .. Len(b) |-> DigitVal(b[i])]))
  ELSE IF a = b THEN 0 ELSE IF LexLeq(a, b) THEN -1 ELSE 1

Verdict(r) ==
  LET all  == NodeIds(r.world)
      sat  == [n \in all |-> Sat3(r, n, r.formula)]
      S    == { n \in all : sat[n] = "T" }
      nk   == Len(r.keys)
      want == { KeyTuple(r, n) : n \in S }
      rows == r.obs.q.rows
      wellformed == \A i \in 1 .. Len(rows) : Len(rows[i]) = nk + Len(r.fns)
      got  == [i \in 1 .. Len(rows) |-> SubSeq(rows[i], 1, nk)]
      gotSet == { got[i] : i \in 1 .. Len(rows) }
      G(t) == { n \in S : KeyTuple(r, n) = t }
      res  == [i \in 1 .. Len(rows) |-> [j \in 1 .. Len(r.fns) |-> AggOk(r, G(got[i]), r.fns[j], r.col, rows[i][nk + j])]]
      badAgg == \E i \in 1 .. Len(rows), j \in 1 .. Len(r.fns) : res[i][j] = "F"
      o == r.order
      pos == IF o.by = "key" THEN o.i ELSE nk + o.i
      numeric == IF o.by = "key" THEN NumericKey(r.keys[o.i]) ELSE TRUE
      sorted == o.by = "none" \/
                \A i \in 1 .. Len(rows) - 1 :
                   LET c == CellCmp(rows[i][pos], rows[i + 1][pos], numeric) IN IF o.desc THEN c >= 0 ELSE c <= 0
      y == IF r.obs.q.timed_out THEN "timeout"
           ELSE IF r.obs.q.panic THEN "crash"
           ELSE IF r.obs.q.status = 2 THEN "rejected-as-malformed"
           ELSE IF ~wellformed THEN "wrong-cell-count"
           ELSE IF Len(rows) # Cardinality(gotSet) THEN "duplicate-group"
           ELSE IF gotSet \ want # {} THEN "unexpected-group"
           ELSE IF want \ gotSet # {} THEN "missing-group"
           ELSE IF badAgg THEN "wrong-aggregate"
           ELSE IF ~sorted THEN "not-sorted"
           ELSE "ok"
  IN [id |-> r.id, ok |-> (y = "ok"), class |-> r.class, why |-> y,
      key |-> "C08/" \o r.class \o "/" \o y,
      nontrivial |-> (Cardinality(want) >= 2 /\ Cardinality(S) > Cardinality(want))]

Init == l = 1
Next == /\ l <= Len(Rec)
        /\ PrintT(<<"VERDICT", ToJson(Verdict(Rec[l]))>>)
        /\ l' = l + 1
Spec == Init /\ [][Next]_l
Judged == PrintT(<<"JUDGED", ToJson([n |-> TLCGet("stats").diameter - 1])>>)
=============================================================================
