SPECIFICATION Spec
CONSTANTS
  WorldSel = {1, 2, 3, 4, 5, 6}
INVARIANTS EmitWorld Emit
