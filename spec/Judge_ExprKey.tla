---------------------------- MODULE Judge_ExprKey ---------------------------
(* Binding layer: conformance of ExprKey!ExprText (the model of `impl        *)
(* Display for Expr`) with the real code.  Each record carries the key the   *)
(* model computed for an expression (by TLC, in MC_ExprMemo) and the single  *)
(* JSON key the binary printed for `select <expr> ... into json` - which is  *)
(* that Display text.  A difference is DRIFT of the mechanism model.         *)
EXTENDS TLC, Json, IOUtils, Sequences, Integers

Rec == ndJsonDeserialize(IOEnv.OBS)
VARIABLE l
Verdict(r) ==
  LET y == IF r.obs.q.timed_out THEN "timeout" ELSE IF r.obs.q.panic THEN "crash"
           ELSE IF r.obs.q.status # 0 THEN "code-rejects-the-expression"
           ELSE IF r.obs.q.jsonkey = r.key THEN "ok" ELSE "exprkey-model-drift"
  IN [id |-> r.id, ok |-> (y = "ok"), class |-> r.class, why |-> y, key |-> "mech/" \o r.class \o "/" \o y, nontrivial |-> TRUE]
Init == l = 1
Next == /\ l <= Len(Rec)
        /\ PrintT(<<"VERDICT", ToJson(Verdict(Rec[l]))>>)
        /\ l' = l + 1
Spec == Init /\ [][Next]_l
Judged == PrintT(<<"JUDGED", ToJson([n |-> TLCGet("stats").diameter - 1])>>)
=============================================================================
