----------------------------- MODULE Judge_C13 ------------------------------
(* Binding layer, trace judge for C13: a literal denotes the closed interval *)
(* [r.a, r.b] (computed by the generator from Civil.tla in the scenario's    *)
(* zone and clock); for every entry time t (the second it falls in):         *)
(*   =  <=> a <= t <= b     != complement     <  <=> t < a     >  <=> t > b   *)
(*   <= <=> t <= b          >= <=> t >= a                                     *)
(* and `modified` prints StampText(t, offset).                               *)
EXTENDS Civil, TLC, Json, IOUtils, FiniteSets

Rec == ndJsonDeserialize(IOEnv.OBS)
WS == JsonDeserialize(IOEnv.WORLD)
W == WS.world
VARIABLE l
Nodes == 1 .. Len(W.nodes)
T(n) == WS.snapshot[n].mtime

(* range: `col >= lit and col <= lit`, the same interval as `=` *)
Holds(o, t, a, b) == CASE o \in {"eq", "range"} -> a <= t /\ t <= b [] o = "ne" -> ~(a <= t /\ t <= b)
                       [] o = "lt" -> t < a [] o = "gt" -> t > b [] o = "lte" -> t <= b [] o = "gte" -> t >= a

Verdict(r) ==
  LET rows == r.obs.q.rows
      got  == { rows[i][1] : i \in 1 .. Len(rows) }
      want == IF r.op = "stamp" THEN { W.nodes[n].name : n \in Nodes }
              \* (wall: the interval is in wall-clock seconds of the zone - the days on which the offset changes)
              ELSE { W.nodes[n].name : n \in { m \in Nodes : Holds(r.op, IF r.wall THEN T(m) + ZoneOffAt(r.off, T(m)) ELSE T(m), r.a, r.b) } }
      stampOk == r.op # "stamp" \/
                 \A i \in 1 .. Len(rows) : \A n \in Nodes : W.nodes[n].name = rows[i][1] => rows[i][2] = StampText(T(n), ZoneOffAt(r.off, T(n)))
      y == IF r.obs.q.timed_out THEN "timeout"
           ELSE IF r.obs.q.panic THEN "crash"
           ELSE IF r.obs.q.status = 2 THEN "rejected-as-malformed"
           ELSE IF Cardinality(got) # Len(rows) THEN "duplicate-row"
           ELSE IF got \ want # {} THEN "extra-row"
           ELSE IF want \ got # {} THEN "missing-row"
           ELSE IF ~stampOk THEN "wrong-modified-text"
           ELSE "ok"
  IN [id |-> r.id, ok |-> (y = "ok"), class |-> r.class, why |-> y,
      key |-> "C13/" \o r.class \o "/" \o y,
      nontrivial |-> (want # {} /\ (r.op = "stamp" \/ Cardinality(want) < Len(W.nodes)))]

Init == l = 1
Next == /\ l <= Len(Rec)
        /\ PrintT(<<"VERDICT", ToJson(Verdict(Rec[l]))>>)
        /\ l' = l + 1
Spec == Init /\ [][Next]_l
Judged == PrintT(<<"JUDGED", ToJson([n |-> TLCGet("stats").diameter - 1])>>)
=============================================================================
