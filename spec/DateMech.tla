------------------------------- MODULE DateMech -----------------------------
(* Mech layer: util::datetime::parse_datetime (src/util/datetime.rs) - how   *)
(* the text of a date literal becomes a pair (start, finish) of wall-clock   *)
(* times.  The text is a sequence of characters; the result is               *)
(* [ok, a, b] with a, b in wall-clock seconds (Civil!Epoch with offset 0),   *)
(* ok = FALSE for "Error ..." (status 2).  Modelled:                         *)
(*   - `today`, `yesterday` and signed day offsets against the local date    *)
(*     of the clock (`today` = the wall-clock day given as days since 1970)  *)
(*   - DATE_REGEX  (\d{4})(-|:)(\d{1,2})(-|:)(\d{1,2}) ?(\d{1,2})?:?(\d{1,2})?:?(\d{1,2})? *)
(*     searched for in the text (leftmost match, every part as long as it    *)
(*     can be), the parts that were not written spanning their whole range   *)
(*   - the calendar check of Local.with_ymd_and_hms and with_hour /          *)
(*     with_minute / with_second                                             *)
(* Not modelled (the model abstains, abstain = TRUE): free-form text handed  *)
(* to chrono-english.                                                        *)
EXTENDS Civil

IsSep(c) == c \in {"-", ":"}
(* the longest run of at most two digits at position i (0 when there is none) *)
Run2(cs, i) == IF i <= Len(cs) /\ IsDigitC(cs[i]) THEN (IF i + 1 <= Len(cs) /\ IsDigitC(cs[i + 1]) THEN 2 ELSE 1) ELSE 0
Num(cs, i, n) == NatOfDigits(SubSeq(cs, i, i + n - 1))

(* the regular expression anchored at position i: [ok, y, m, d, h, mi, s] with -1 for a part that was not written *)
MatchAt(cs, i) ==
  IF ~(i + 3 <= Len(cs) /\ \A k \in i .. i + 3 : IsDigitC(cs[k])) THEN [ok |-> FALSE]
  ELSE LET p1 == i + 4 IN
  IF ~(p1 <= Len(cs) /\ IsSep(cs[p1])) \/ Run2(cs, p1 + 1) = 0 THEN [ok |-> FALSE]
  ELSE LET nm == Run2(cs, p1 + 1)  p2 == p1 + 1 + nm IN
  IF ~(p2 <= Len(cs) /\ IsSep(cs[p2])) \/ Run2(cs, p2 + 1) = 0 THEN [ok |-> FALSE]
  ELSE LET nd == Run2(cs, p2 + 1)
           p3 == p2 + 1 + nd                                              \* after the day
           p4 == IF p3 <= Len(cs) /\ cs[p3] = " " THEN p3 + 1 ELSE p3     \* ` ?`
           nh == Run2(cs, p4)
           p5 == p4 + nh
           p6 == IF p5 <= Len(cs) /\ cs[p5] = ":" THEN p5 + 1 ELSE p5     \* `:?`
           nmi == Run2(cs, p6)
           p7 == p6 + nmi
           p8 == IF p7 <= Len(cs) /\ cs[p7] = ":" THEN p7 + 1 ELSE p7
           ns == Run2(cs, p8)
       IN [ok |-> TRUE, y |-> Num(cs, i, 4), m |-> Num(cs, p1 + 1, nm), d |-> Num(cs, p2 + 1, nd),
           h |-> IF nh = 0 THEN 0 - 1 ELSE Num(cs, p4, nh), mi |-> IF nmi = 0 THEN 0 - 1 ELSE Num(cs, p6, nmi), s |-> IF ns = 0 THEN 0 - 1 ELSE Num(cs, p8, ns)]
(* (when the hour is missing the optional `:` and the following digits can still be taken as minutes: `2017-05-01 :30`; the     *)
(*  expression allows it and so does the model)                                                                                 *)
Search(cs) == IF \E i \in 1 .. Len(cs) : MatchAt(cs, i).ok
              THEN MatchAt(cs, CHOOSE i \in 1 .. Len(cs) : MatchAt(cs, i).ok /\ \A j \in 1 .. i - 1 : ~MatchAt(cs, j).ok)
              ELSE [ok |-> FALSE]

ValidDay(y, m, d) == m \in 1 .. 12 /\ d >= 1 /\ d <= DaysInMonth(y, m)
Err == [ok |-> FALSE, abstain |-> FALSE, a |-> 0, b |-> 0]
Abstain == [ok |-> FALSE, abstain |-> TRUE, a |-> 0, b |-> 0]
Iv(a, b) == [ok |-> TRUE, abstain |-> FALSE, a |-> a, b |-> b]
WholeDay(days) == Iv(days * 86400, days * 86400 + 86399)

IsSigned(cs) == Len(cs) >= 2 /\ cs[1] \in {"+", "-"} /\ AllDigits(Tail(cs)) /\ Len(cs) <= 9
ParseDateTime(cs, today) ==
  IF cs = <<"t","o","d","a","y">> THEN WholeDay(today)
  ELSE IF cs = <<"y","e","s","t","e","r","d","a","y">> THEN WholeDay(today - 1)
  ELSE LET m == Search(cs) IN
  IF m.ok THEN
     (IF ~ValidDay(m.y, m.m, m.d) THEN Err
      ELSE LET h1 == IF m.h = 0 - 1 THEN 0 ELSE m.h    h2 == IF m.h = 0 - 1 THEN 23 ELSE m.h
               mi1 == IF m.mi = 0 - 1 THEN 0 ELSE m.mi  mi2 == IF m.mi = 0 - 1 THEN 59 ELSE m.mi
               s1 == IF m.s = 0 - 1 THEN 0 ELSE m.s     s2 == IF m.s = 0 - 1 THEN 59 ELSE m.s
           IN IF h2 > 23 \/ mi2 > 59 \/ s2 > 59 THEN Err
              ELSE Iv(Epoch(m.y, m.m, m.d, h1, mi1, s1, 0), Epoch(m.y, m.m, m.d, h2, mi2, s2, 0)))
  ELSE IF IsSigned(cs) THEN WholeDay(today + (IF cs[1] = "-" THEN 0 - NatOfDigits(Tail(cs)) ELSE NatOfDigits(Tail(cs))))
  ELSE IF Len(cs) >= 5 THEN Abstain            \* chrono-english
  ELSE Err
=============================================================================
