SPECIFICATION Spec
CONSTANTS
  MaxOps = 2
  Tables = {1, 2, 3, 4}
  WorldSel = {1, 2, 3, 4, 5, 6, 7, 8, 9, 10}
INVARIANTS EmitWorld Emit
