----------------------------- MODULE WorldC07 -------------------------------
(* World for C07/C08: files selectable by name prefix into sets of 0, 1, 3   *)
(* and many entries; means that are not integers (0,1,4 / 2,3,8); sizes      *)
(* beyond 32 bits (2^33) and large sizes with a small spread                 *)
(* (3000000001/3/5: variance 8/3), made cheap by sparse files; several       *)
(* extensions, owners, modes, directories and name lengths for GROUP BY;     *)
(* sizes, line counts and name lengths that cross a digit-count boundary.    *)
EXTENDS WorldC02

F7(i, p, nm, cont, big, md, u) ==
  [id |-> i, parent |-> p, kind |-> "file", namec |-> nm, name |-> Str(nm), content |-> cont, bigsize |-> big,
   mode |-> md, uid |-> u, gid |-> 0, mtime |-> T0 + i, mtime_ms |-> 0, linkto |-> 0, target |-> -3, tstyle |-> "rel"]
W7 == [nodes |-> <<
  F7(1,  0, <<"a","1",".","t","x","t">>, <<>>,        "",           420, 0),
  F7(2,  0, <<"a","2",".","l","o","g">>, Runs(0, 1),  "",           420, 1000),
  F7(3,  0, <<"b","1",".","t","x","t">>, Runs(1, 1),  "",           420, 0),
  F7(4,  0, <<"b","2">>,                 Runs(3, 0),  "",           384, 1000),
  F7(5,  0, <<"c","1",".","l","o","g">>, Runs(10, 0), "",           420, 0),
  F7(6,  0, <<"c","2",".","t","x","t">>, <<>>,        "1000003",    420, 0),
  F7(7,  0, <<"c","3",".","b","i","n">>, <<>>,        "8589934592", 493, 0),
  F7(8,  0, <<"d","1",".","d","a","t">>, <<>>,        "3000000001", 420, 0),
  F7(9,  0, <<"d","2",".","d","a","t">>, <<>>,        "3000000003", 420, 0),
  F7(10, 0, <<"d","3",".","d","a","t">>, <<>>,        "3000000005", 420, 1000),
  [id |-> 11, parent |-> 0, kind |-> "dir", namec |-> <<"s","u","b">>, name |-> "sub", content |-> <<>>, bigsize |-> "",
   mode |-> 493, uid |-> 0, gid |-> 0, mtime |-> T0, mtime_ms |-> 0, linkto |-> 0, target |-> -3, tstyle |-> "rel"],
  F7(12, 11, <<"a","3",".","t","x","t">>, Runs(2, 2), "",           420, 0),
  F7(13, 11, <<"b","3",".","l","o","g">>, Runs(8, 0), "",           384, 1000),
  \* values whose decimal texts order differently from the numbers (9 < 99 < 105 but "105" < "9" < "99"), a name of 16 characters
  F7(14, 0, <<"e","1",".","t","x","t">>, Runs(9, 3),   "", 420, 0),
  F7(15, 0, <<"e","2",".","l","o","g">>, Runs(105, 9), "", 420, 1000),
  F7(16, 11, <<"e","3","-","l","o","n","g","-","n","a","m","e",".","t","x","t">>, Runs(99, 11), "", 420, 0),
  \* one file under three names (hard links, one of them in the sub-directory): three entries, each counted
  F7(17, 0, <<"h","1",".","t","x","t">>, Runs(4, 1), "", 420, 0),
  [F7(18, 0, <<"h","2",".","t","x","t">>, Runs(4, 1), "", 420, 0) EXCEPT !.linkto = 17],
  [F7(19, 11, <<"h","3",".","l","o","g">>, Runs(4, 1), "", 420, 0) EXCEPT !.linkto = 17]
>>]
=============================================================================
