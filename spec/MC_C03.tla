------------------------------- MODULE MC_C03 -------------------------------
(* Binding layer, scenario generator for C03.  The state is a formula in     *)
(* Polish notation under construction (`toks`, with `open` operands still    *)
(* missing) over the atom names of one atom table; TLC's BFS enumerates      *)
(* every formula with at most MaxOps connectives.  Each complete formula is  *)
(* emitted in two renderings (minimal brackets / fully bracketed).           *)
EXTENDS WorldC03, WorldRnd, Lang, Json, FiniteSets

CONSTANTS MaxOps,      \* connectives (and/or/not) per formula
          Tables,      \* which atom tables to use (subset of 1..3)
          WorldSel     \* 0 = the fixed world W3, s > 0 = the pseudo-random tree WorldRnd!RndWorld(s)

VARIABLES tab, toks, open, ops, ws
vars == <<tab, toks, open, ops, ws>>

(* atom tables: every operator kind occurs in some table; A/B have documented infix negations *)
Atoms(t) ==
  CASE t = 1 -> [ A  |-> A("size", "between", IntL(10), IntL(1024), ""),
                  Ai |-> A("size", "notbetween", IntL(10), IntL(1024), ""),
                  B  |-> A1("name", "like", TextL(<<"%",".","t","x","t">>), ""),
                  Bi |-> A1("name", "notlike", TextL(<<"%",".","t","x","t">>), ""),
                  C  |-> A1("uid", "ne", IntL(0), "") ]
    [] t = 2 -> [ A  |-> A1("size", "gt", IntL(10), ""),
                  Ai |-> A1("size", "lte", IntL(1024), ""),
                  B  |-> A1("name", "eq", TextL(<<"*",".","l","o","g">>), ""),
                  Bi |-> A1("name", "eeq", TextL(<<"p","?",".","t","x","t">>), ""),
                  C  |-> A1("modified", "gte", DateL(T0 + 54000, T0 + 57599, "2017-05-01 15"), "") ]
    [] t = 3 -> [ A  |-> A1("size", "gte", IntL(1024), ""),
                  Ai |-> A1("size", "lt", IntL(10), ""),
                  B  |-> A1("name", "rx", RxL(<<"t","x","t">>, FALSE, TRUE), ""),
                  Bi |-> A1("name", "notrx", RxL(<<"p">>, TRUE, FALSE), ""),
                  C  |-> A1("is_dir", "istrue", BoolL(TRUE, ""), "") ]
    \* the same literal text as LIKE pattern and as regular expression within one formula (each keeps its own meaning)
    [] t = 4 -> [ A  |-> A1("name", "like", TextL(<<"p","%">>), ""),
                  Ai |-> A1("name", "rx", RxL(<<"p","%">>, FALSE, FALSE), ""),
                  B  |-> A1("name", "rx", RxL(<<"t">>, FALSE, FALSE), ""),
                  Bi |-> A1("name", "like", TextL(<<"t">>), ""),
                  C  |-> A1("size", "gt", IntL(100), "") ]
Leaves == {"A", "Ai", "B", "Bi", "C"}

Init == tab \in Tables /\ ws \in WorldSel /\ toks = <<>> /\ open = 1 /\ ops = 0

AddTok ==
  /\ open > 0
  /\ \/ \E t \in Leaves : toks' = Append(toks, t) /\ open' = open - 1 /\ ops' = ops
     \/ ops < MaxOps /\ toks' = Append(toks, "not") /\ open' = open /\ ops' = ops + 1
     \/ ops < MaxOps /\ \E c \in {"and", "or"} : toks' = Append(toks, c) /\ open' = open + 1 /\ ops' = ops + 1
  /\ UNCHANGED <<tab, ws>>
Next == AddTok
Spec == Init /\ [][Next]_vars

(* the laws named in the statement, as theorems of the Prop semantics, are checked in Judge_C03Laws *)

Has(t) == \E i \in 1 .. Len(toks) : toks[i] = t
NotBeforeBin == \E i \in 1 .. Len(toks) - 1 : toks[i] = "not" /\ toks[i + 1] \in {"and", "or"}
NotBeforeNot == \E i \in 1 .. Len(toks) - 1 : toks[i] = "not" /\ toks[i + 1] = "not"
NotBeforeLeaf(x) == \E i \in 1 .. Len(toks) - 1 : toks[i] = "not" /\ toks[i + 1] = x
AtomOp(x) == Atoms(tab)[x].op
NegatedOps == { AtomOp(toks[i + 1]) : i \in { j \in 1 .. Len(toks) - 1 : toks[j] = "not" /\ toks[j + 1] \in Leaves } }
RECURSIVE SetText(_)
SetText(S) == IF S = {} THEN "" ELSE LET x == CHOOSE y \in S : \A z \in S : Len(y) < Len(z) \/ (Len(y) = Len(z)) IN x \o "," \o SetText(S \ {x})
Class == "t" \o ToString(tab)
         \o (IF NotBeforeBin THEN "/not-bracket" ELSE "")
         \o (IF NotBeforeNot THEN "/not-not" ELSE "")
         \o (IF NegatedOps # {} THEN "/not-atom" ELSE "")
         \o (IF Has("Ai") \/ Has("Bi") THEN "/infix" ELSE "")
         \o (IF Has("and") /\ Has("or") THEN "/mixed" ELSE "")

WKey == IF ws = 0 THEN "W3" ELSE "R" \o ToString(ws)
Scn(style) == [prop |-> "C03", class |-> (IF ws = 0 THEN "" ELSE "rnd/") \o Class \o "/" \o style, world |-> WKey,
               formula |-> [f |-> "prefix", toks |-> toks, atoms |-> Atoms(tab)],
               env |-> [tz |-> "UTC", cwd |-> 0],
               runs |-> << [tag |-> "q", ncols |-> 1,
                            argv |-> << "select path from '.' where " \o FormulaText(toks, Atoms(tab), style) \o " into list" >>] >>]
EmitWorld == (toks = <<>>) => PrintT(<<"WORLD", ToJson([key |-> WKey, world |-> IF ws = 0 THEN W3 ELSE RndWorld(ws)])>>)
Emit == (open = 0) => /\ PrintT(<<"REPLAY", ToJson(Scn("min"))>>)
                       /\ PrintT(<<"REPLAY", ToJson(Scn("full"))>>)
=============================================================================
