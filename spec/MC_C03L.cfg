SPECIFICATION Spec
INVARIANTS EmitWorld Emit
CHECK_DEADLOCK FALSE
