------------------------------- MODULE MC_C18b ------------------------------
(* Binding layer, scenario generator for C18: link targets whose names are   *)
(* not text.  Two directories outside the root whose names differ only in a  *)
(* byte that is not valid UTF-8, each reached through its own link (one      *)
(* relative, one absolute); what lies in both must be listed.  Names are     *)
(* given as bytes; rows are identified by inode.                             *)
EXTENDS World, TLC, Json

VARIABLES spell, dfs, phase
vars == <<spell, dfs, phase>>
B(i, p, k, bytes, tg, st) == [id |-> i, parent |-> p, kind |-> k, name |-> bytes, target |-> tg, tstyle |-> st]
Wb == [nodes |-> << B(1, 0, "dir", <<114>>, -3, "abs"), B(2, 0, "dir", <<118, 255>>, -3, "abs"), B(3, 0, "dir", <<118, 254>>, -3, "abs"),
                    B(4, 2, "file", <<120, 49>>, -3, "abs"), B(5, 3, "file", <<120, 50>>, -3, "abs"), B(6, 3, "dir", <<255>>, -3, "abs"),
                    B(7, 6, "file", <<121>>, -3, "abs"), B(8, 1, "file", <<102>>, -3, "abs"),
                    B(9, 1, "symlink", <<108, 49>>, 2, "rel"), B(10, 1, "symlink", <<108, 50>>, 3, "abs"), B(11, 1, "dir", <<100>>, -3, "abs"),
                    B(12, 11, "symlink", <<108, 51>>, 6, "rel") >>]
Init == spell = "" /\ dfs = FALSE /\ phase = "start"
Choose == /\ phase = "start" /\ spell' \in {"dot", "rel", "abs"} /\ dfs' \in BOOLEAN /\ phase' = "done"
Spec == Init /\ [][Choose]_vars
RootText == CASE spell = "dot" -> "'.'" [] spell = "rel" -> "'r'" [] spell = "abs" -> "'@N1@'"
Q(opt) == "select inode, path from " \o RootText \o opt \o (IF dfs THEN " dfs" ELSE "") \o " into list"
Scenario == [prop |-> "C18", class |-> "names-as-bytes/" \o spell, min |-> 0, max |-> 0, world |-> Wb, root |-> 1, roots |-> <<1>>, followed |-> <<1>>,
             env |-> [tz |-> "UTC", cwd |-> IF spell = "dot" THEN 1 ELSE 0],
             runs |-> << [tag |-> "follow", ncols |-> 2, timeout |-> 10, argv |-> << Q(" symlinks") >>],
                         [tag |-> "plain", ncols |-> 2, timeout |-> 10, argv |-> << Q("") >>] >>]
Emit == phase = "done" => PrintT(<<"REPLAY", ToJson(Scenario)>>)
=============================================================================
