SPECIFICATION Spec
CONSTANTS
  PartialSplits = TRUE
INVARIANTS EmitWorld Emit
