-------------------------------- MODULE Lang --------------------------------
(* Prop/Binding layer: abstract syntax of conditions and its canonical       *)
(* rendering into query text (one argument, lower-case keywords, symbolic    *)
(* operators, round brackets, every string literal single-quoted).           *)
(* Alternative spellings are the business of C11 (Render).                   *)
EXTENDS Chars, Civil, TLC

(* literals: uniform records so that sets of them are comparable in TLC *)
Lit(lk, v, c, b, a, z, as, ae, name, text) ==
  [lk |-> lk, v |-> v, c |-> c, b |-> b, a |-> a, z |-> z, astart |-> as, aend |-> ae, name |-> name, text |-> text]
IntL(v) == Lit("int", v, <<>>, FALSE, 0, 0, FALSE, FALSE, "", ToString(v))
SizeL(v, txt) == Lit("int", v, <<>>, FALSE, 0, 0, FALSE, FALSE, "", txt)
DecL(n, d, txt) == Lit("dec", n, <<>>, FALSE, d, 0, FALSE, FALSE, "", txt)        \* the number n / d written as a decimal fraction
TextL(c) == Lit("text", 0, c, FALSE, 0, 0, FALSE, FALSE, "", "'" \o Str(c) \o "'")
BoolL(b, word) == Lit("bool", 0, <<>>, b, 0, 0, FALSE, FALSE, "", word)
DateL(a, z, txt) == Lit("date", 0, <<>>, FALSE, a, z, FALSE, FALSE, "", "'" \o txt \o "'")
RxL(c, as, ae) == Lit("rx", 0, c, FALSE, 0, 0, as, ae, "",
                      "'" \o (IF as THEN "^" ELSE "") \o Str(c) \o (IF ae THEN "$" ELSE "") \o "'")
ColL(name) == Lit("col", 0, <<>>, FALSE, 0, 0, FALSE, FALSE, name, name)

OpText(op) == CASE op = "eq" -> "=" [] op = "ne" -> "!=" [] op = "gt" -> ">" [] op = "gte" -> ">="
                [] op = "lt" -> "<" [] op = "lte" -> "<=" [] op = "eeq" -> "===" [] op = "ene" -> "!=="
                [] op = "rx" -> "=~" [] op = "notrx" -> "!=~" [] op = "like" -> "like" [] op = "notlike" -> "not like"
                [] op = "between" -> "between"

A(col, op, lit, lit2, class) == [col |-> col, op |-> op, lit |-> lit, lit2 |-> lit2, class |-> class]
A1(col, op, lit, class) == A(col, op, lit, lit, class)

CondText(a) == IF a.op = "istrue" THEN a.col
               ELSE IF a.op = "between" THEN a.col \o " between " \o a.lit.text \o " and " \o a.lit2.text
               ELSE IF a.op = "notbetween" THEN a.col \o " not between " \o a.lit.text \o " and " \o a.lit2.text
               \* (spell: the operator written with one of its documented aliases)
               ELSE a.col \o " " \o (IF "spell" \in DOMAIN a THEN a.spell ELSE OpText(a.op)) \o " " \o a.lit.text


(* Polish-notation formulas over named atoms -> text.  prec: or 1, and 2, not 3, atom 4.          *)
(* style "min": brackets only where precedence requires them; "full": every binary sub-formula    *)
(* bracketed (round at even depth, curly at odd depth).                                            *)
Prec(t) == IF t = "or" THEN 1 ELSE IF t = "and" THEN 2 ELSE IF t = "not" THEN 3 ELSE 4
Wrap(txt, depth, style) == IF style = "full" /\ depth % 2 = 1 THEN "{" \o txt \o "}" ELSE "(" \o txt \o ")"

RECURSIVE RenderP(_, _, _, _, _, _)
RenderP(toks, i, atoms, parentPrec, depth, style) ==    \* <<text, index after the sub-formula>>
  LET t == toks[i] IN
  IF t = "not" THEN
     LET s == RenderP(toks, i + 1, atoms, 3, depth + 1, style) IN << "not " \o s[1], s[2] >>
  ELSE IF t \in {"and", "or"} THEN
     LET a == RenderP(toks, i + 1, atoms, Prec(t), depth + 1, style)
         b == RenderP(toks, a[2], atoms, Prec(t), depth + 1, style)
         txt == a[1] \o " " \o t \o " " \o b[1]
         need == IF style = "full" THEN depth > 0 ELSE Prec(t) < parentPrec
     IN << IF need THEN Wrap(txt, depth, style) ELSE txt, b[2] >>
  ELSE << CondText(atoms[t]), i + 1 >>
FormulaText(toks, atoms, style) == RenderP(toks, 1, atoms, 0, 0, style)[1]
=============================================================================
