-------------------------------- MODULE Order -------------------------------
(* Prop layer: the order ORDER BY promises (C05, C06, C08): numeric columns  *)
(* numerically, date columns chronologically (at the displayed precision of  *)
(* one second), all other columns as strings by code points; `desc`          *)
(* reverses; later keys break ties of earlier ones.                          *)
EXTENDS Eval

KeyVal(r, n, col) == IF col = "size + 1" THEN IntV(r.snapshot[n].sizen + 1)
                     ELSE IF col = "-size" THEN IntV(0 - r.snapshot[n].sizen)                    \* (a key with a leading minus)
                     ELSE IF col = "-length(name)" THEN IntV(0 - Len(NameC(r.world, n)))               \* (a negated function call)
                     ELSE IF col = "concat(size, name)" THEN TextV(DigitsOfNat(r.snapshot[n].sizen) \o NameC(r.world, n))   \* (a text made from a number)
                     ELSE IF col = "size - 100" THEN IntV(r.snapshot[n].sizen - 100)          \* (negative key values)
                     ELSE IF col = "2 * size" THEN IntV(2 * r.snapshot[n].sizen)               \* (a key that starts with a number is not a position)
                     ELSE IF col = "length(name) * 4" THEN IntV(Len(NameC(r.world, n)) * 4)      \* arithmetic over a numeric function of a text column
                     ELSE IF col = "day(modified)" THEN IntV(LocalTime(r.snapshot[n].mtime, 0).d)
                     ELSE IF col = "dow(modified)" THEN IntV(LocalTime(r.snapshot[n].mtime, 0).dow)
                     ELSE IF col = "year(modified)" THEN IntV(LocalTime(r.snapshot[n].mtime, 0).y)
                     ELSE IF col = "blocks" THEN IntV(r.snapshot[n].blocksn)
                     ELSE IF col = "is_dir" THEN TextV(IF r.world.nodes[n].kind = "dir" THEN <<"t","r","u","e">> ELSE <<"f","a","l","s","e">>)
                     ELSE Attr(r, n, col)
(* -1, 0, 1 *)
Cmp1(x, y) == IF x.t = "text" THEN (IF x.c = y.c THEN 0 ELSE IF LexLeq(x.c, y.c) THEN -1 ELSE 1)
              ELSE (IF x.v = y.v THEN 0 ELSE IF x.v < y.v THEN -1 ELSE 1)
RECURSIVE CmpKeys(_, _, _, _, _)
CmpKeys(r, a, b, keys, i) ==
  IF i > Len(keys) THEN 0
  ELSE LET c == Cmp1(KeyVal(r, a, keys[i].col), KeyVal(r, b, keys[i].col))
           d == IF keys[i].desc THEN 0 - c ELSE c
       IN IF d # 0 THEN d ELSE CmpKeys(r, a, b, keys, i + 1)

=============================================================================
