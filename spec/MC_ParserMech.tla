---------------------------- MODULE MC_ParserMech ---------------------------
(* Mech => Prop for the parser (C03): for every formula TLC enumerates in     *)
(* MC_C03, the text rendered from the formula is lexed and parsed by the      *)
(* mechanism models (Lexer!LexAll, Parser!ParseWhere) and the resulting AST   *)
(* must have, under every truth assignment of the atoms, the truth value the  *)
(* Prop layer gives the formula (usual precedence, NOT = complement, De       *)
(* Morgan for negated brackets, infix negations).  The leaves of the AST are  *)
(* recognised structurally: the AST of an atom's own text, or its negation.   *)
EXTENDS MC_C03, Parser, AtomsC

MCKnown == { <<"s","i","z","e">>, <<"n","a","m","e">>, <<"u","i","d">>, <<"m","o","d","i","f","i","e","d">>, <<"i","s","_","d","i","r">> }
Prefix == <<"s","e","l","e","c","t"," ","p","a","t","h"," ","f","r","o","m"," ","'",".","'"," ","w","h","e","r","e"," ">>

(* the character-level twin of Lang!RenderP *)
RECURSIVE RenderC(_, _, _, _, _, _)
RenderC(tk, i, atoms, parentPrec, depth, style) ==
  LET t == tk[i] IN
  IF t = "not" THEN LET s == RenderC(tk, i + 1, atoms, 3, depth + 1, style) IN << <<"n","o","t"," ">> \o s[1], s[2] >>
  ELSE IF t \in {"and", "or"} THEN
     LET a == RenderC(tk, i + 1, atoms, Prec(t), depth + 1, style)
         b == RenderC(tk, a[2], atoms, Prec(t), depth + 1, style)
         txt == a[1] \o <<" ">> \o (IF t = "and" THEN <<"a","n","d">> ELSE <<"o","r">>) \o <<" ">> \o b[1]
         need == IF style = "full" THEN depth > 0 ELSE Prec(t) < parentPrec
         curly == style = "full" /\ depth % 2 = 1
     IN << IF need THEN (IF curly THEN <<"{">> ELSE <<"(">>) \o txt \o (IF curly THEN <<"}">> ELSE <<")">>) ELSE txt, b[2] >>
  ELSE << atoms[t], i + 1 >>
QueryC(style) == Prefix \o RenderC(toks, 1, AtomC(tab), 0, 0, style)[1]

(* Prop: truth value of the formula in Polish notation; Ai / Bi are the complements of A / B by construction of the tables 1 and 3, *)
(* independent atoms in table 2 *)
RECURSIVE EvalBool(_, _, _)
EvalBool(tk, i, v) == LET t == tk[i] IN
  IF t = "not" THEN LET s == EvalBool(tk, i + 1, v) IN <<~s[1], s[2]>>
  ELSE IF t = "and" THEN LET a == EvalBool(tk, i + 1, v) b == EvalBool(tk, a[2], v) IN <<a[1] /\ b[1], b[2]>>
  ELSE IF t = "or" THEN LET a == EvalBool(tk, i + 1, v) b == EvalBool(tk, a[2], v) IN <<a[1] \/ b[1], b[2]>>
  ELSE <<v[t], i + 1>>

(* an AST read as a formula over the atoms, once per state: a leaf is the AST of some atom or its folded negation. *)
(* tri is the set of triples <<atom, its AST, its negated AST>> (a set, so that TLC computes it once, eagerly).       *)
RECURSIVE Shape(_, _)
Shape(e, tri) ==
  IF \E p \in tri : e = p[2] THEN [k |-> "leaf", x |-> (CHOOSE p \in tri : e = p[2])[1], neg |-> FALSE]
  ELSE IF \E p \in tri : e = p[3] THEN [k |-> "leaf", x |-> (CHOOSE p \in tri : e = p[3])[1], neg |-> TRUE]
  ELSE IF IsNone(e) \/ e.logical_op = "None" THEN [k |-> "bad"]
  ELSE [k |-> e.logical_op, l |-> Shape(e.left, tri), r |-> Shape(e.right, tri)]
RECURSIVE ShapeOk(_)
ShapeOk(s) == s.k # "bad" /\ (s.k = "leaf" \/ (ShapeOk(s.l) /\ ShapeOk(s.r)))
RECURSIVE ShapeVal(_, _)
ShapeVal(s, v) == IF s.k = "leaf" THEN (v[s.x] # s.neg) ELSE IF s.k = "And" THEN ShapeVal(s.l, v) /\ ShapeVal(s.r, v) ELSE ShapeVal(s.l, v) \/ ShapeVal(s.r, v)

(* assignments respect the complements the tables contain (Ai is the infix negation of A in the tables 1 and 3): whenever *)
(* the AST of one atom is the folded negation of another's, their values are opposite *)
Triples(t) == { LET a == ParseWhere(LexAll(<<Prefix \o AtomC(t)[x]>>)).e IN <<x, a, NegateExpr(a)>> : x \in Leaves }
Refines ==
  LET tri == Triples(tab)
      assignments == { v \in [Leaves -> BOOLEAN] : \A p, q \in tri : p[2] = q[3] => v[p[1]] = ~v[q[1]] }
      one(style) == LET ast == ParseWhere(LexAll(<<QueryC(style)>>))
                        sh == Shape(ast.e, tri)
                    IN ast.ok /\ ShapeOk(sh) /\ \A v \in assignments : ShapeVal(sh, v) = EvalBool(toks, 1, v)[1]
  IN one("min") /\ one("full")
MechRefinesProp == (open = 0) => Refines
(* the character twin renders exactly what the string renderer renders *)
SameText == (open = 0) => Str(QueryC("min")) = "select path from '.' where " \o FormulaText(toks, Atoms(tab), "min")
=============================================================================
