SPECIFICATION Spec
INVARIANT Emit
CHECK_DEADLOCK FALSE
