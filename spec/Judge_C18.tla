----------------------------- MODULE Judge_C18 ------------------------------
(* Binding layer, trace judge for C18.  Prop: with `symlinks` the rows,      *)
(* identified by inode, are exactly the entries of every real directory      *)
(* reachable from the root through directories and links that resolve        *)
(* (through any chain of links) to directories - each entry once - and the   *)
(* run terminates with status 0; without the option the rows are the entries *)
(* reachable without crossing a link.                                        *)
EXTENDS World, TLC, Json, IOUtils, FiniteSets

Rec == ndJsonDeserialize(IOEnv.OBS)
VARIABLE l

(* Resolve, Reachable and Behind are World.tla's (shared with the Mech model WalkerL) *)

Verdict(r) ==
  LET w == r.world  all == NodeIds(w)
      IdOf(s) == IF \E n \in all : r.snapshot[n].ino = s THEN CHOOSE n \in all : r.snapshot[n].ino = s ELSE 0
      f == r.obs.follow  p == r.obs.plain
      fids == [i \in 1 .. Len(f.rows) |-> IdOf(f.rows[i][1])]
      pids == { IdOf(p.rows[i][1]) : i \in 1 .. Len(p.rows) }
      roots == { r.roots[i] : i \in 1 .. Len(r.roots) }
      fol == { r.followed[i] : i \in 1 .. Len(r.followed) }          \* the roots that carry the option
      \* Roots that differ in the option: a directory below a root without the option is searched by that root, without
      \* following the links in it, and - once per query - by nobody else.  So the rows that MUST appear are the plain listing
      \* of every root plus what the following roots reach without passing through such a directory; the rows that MAY appear
      \* are what following from every root would give.
      plainDirs == UNION { { rt } \cup { d \in NodeIds(w) : Below(w, rt, d) /\ w.nodes[d].kind = "dir" } : rt \in roots \ fol }
      must == UNION { Listed(w, rt, 0, 0) : rt \in roots }
              \cup UNION { ChildrenOf(w, d) : d \in ClosureAvoid(w, fol, plainDirs) \ plainDirs }
      cut == r.min > 1 \/ r.max > 0                                    \* a depth window that cuts (one root, with the option)
      rt1 == r.roots[1]
      want == IF cut THEN { n \in Behind(w, rt1) : DueInWindow(w, rt1, n, r.min, r.max, 8) }
              ELSE IF fol = roots THEN UNION { Behind(w, rt) : rt \in roots } ELSE must
      may  == IF cut THEN { n \in Behind(w, rt1) : AdmissibleInWindow(w, rt1, n, r.min, r.max, 8) }
              ELSE UNION { Behind(w, rt) : rt \in roots }
      plain == UNION { Listed(w, rt, r.min, r.max) : rt \in roots }
      got == { fids[i] : i \in 1 .. Len(fids) }
      y == IF f.timed_out THEN "hang"
           ELSE IF f.panic THEN "crash"
           ELSE IF want \ got # {} THEN "missing-entry-behind-link"
           ELSE IF got \ (IF fol = roots /\ ~cut THEN want ELSE may) # {} THEN (IF 0 \in got THEN "row-from-outside-the-world" ELSE "extra-row")
           ELSE IF Cardinality(got) # Len(fids) THEN "entry-listed-twice"
           ELSE IF f.status # 0 THEN "status-" \o ToString(f.status)
           ELSE IF pids # plain \/ Len(p.rows) # Cardinality(pids) THEN "without-option-wrong-rows"
           ELSE "ok"
  IN [id |-> r.id, ok |-> (y = "ok"), class |-> r.class, why |-> y, key |-> "C18/" \o r.class \o "/" \o y,
      nontrivial |-> (want # plain)]

Init == l = 1
Next == /\ l <= Len(Rec)
        /\ PrintT(<<"VERDICT", ToJson(Verdict(Rec[l]))>>)
        /\ l' = l + 1
Spec == Init /\ [][Next]_l
Judged == PrintT(<<"JUDGED", ToJson([n |-> TLCGet("stats").diameter - 1])>>)
=============================================================================
