SPECIFICATION Spec
CONSTANTS
  MaxOps = 2
  Tables = {1, 2, 3, 4}
  WorldSel = {0}
  KnownWords <- MCKnown
INVARIANTS MechRefinesProp SameText
