SPECIFICATION Spec
CONSTANTS
  MaxOps = 2
  Tables = {1, 2, 3}
  KnownWords <- MCKnown
INVARIANTS MechRefinesProp SameText
