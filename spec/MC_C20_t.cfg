SPECIFICATION Spec
CONSTANTS
  MaxLines = 3
  Tools = {"git", "docker", "hgglob", "hgrx"}
INVARIANT Emit
