----------------------------- MODULE MC_WriterMech --------------------------
(* Mech => Prop for the CSV and HTML writers (C09): what WriterMech writes   *)
(* for a table is accepted by the format's recogniser of Formats.tla and     *)
(* decodes to the same table - for every table of up to MaxRows rows and     *)
(* MaxCols columns whose cells are drawn from Cells (all the characters that *)
(* matter to either format, alone and in pairs).  One TLC state per table.   *)
EXTENDS WriterMech, TLC

CONSTANTS MaxRows, MaxCols
VARIABLE table
Special == {"a", ",", "\"", "\n", "\r", "<", ">", "&", "'", " ", "\t"}
Cells == {<<>>} \cup { <<c>> : c \in Special } \cup { <<"a", c>> : c \in {",", "\"", "\n", "<", "&"} } \cup { <<"\"", "\"">>, <<"&", "l", "t", ";">>, <<"<", "t", "d", ">">> }
Init == table = <<>>
AddRow == /\ Len(table) < MaxRows
          /\ \E n \in 1 .. MaxCols : (IF table = <<>> THEN TRUE ELSE n = Len(table[1])) /\ \E row \in [1 .. n -> Cells] : table' = Append(table, row)
Spec == Init /\ [][AddRow]_table
CsvRoundTrip == LET d == DecodeCsv(CsvMech(table)) IN d.ok /\ d.rows = table
HtmlRoundTrip == LET d == DecodeHtml(HtmlMech(table)) IN d.ok /\ d.rows = table
ASSUME CsvMech(<< <<<<"a">>, <<"b", ",">>>> >>) = <<"a", ",", "\"", "b", ",", "\"", "\n">>
ASSUME CsvMech(<< <<<<>>>> >>) = <<"\"", "\"", "\n">> /\ CsvMech(<< <<<<>>, <<>>>> >>) = <<",", "\n">>
=============================================================================
