----------------------------- MODULE MC_WriterMech --------------------------
(* Mech => Prop for the CSV, HTML, JSON writers (C09): what WriterMech writes   *)
(* for a table is accepted by the format's recogniser of Formats.tla and     *)
(* decodes to the same table - for every table of up to MaxRows rows and     *)
(* MaxCols columns whose cells are drawn from Cells (all the characters that *)
(* matter to either format, alone and in pairs).  One TLC state per table.   *)
EXTENDS WriterMech, TLC

CONSTANTS MaxRows, MaxCols
VARIABLE table
Special == {"a", ",", "\"", "\n", "\r", "<", ">", "&", "'", " ", "\t"}
Cells == {<<>>} \cup { <<c>> : c \in Special } \cup { <<"a", c>> : c \in {",", "\"", "\n", "<", "&"} } \cup { <<"\"", "\"">>, <<"&", "l", "t", ";">>, <<"<", "t", "d", ">">> }
Init == table = <<>>
AddRow == /\ Len(table) < MaxRows
          /\ \E n \in 1 .. MaxCols : (IF table = <<>> THEN TRUE ELSE n = Len(table[1])) /\ \E row \in [1 .. n -> Cells] : table' = Append(table, row)
Spec == Init /\ [][AddRow]_table
CsvRoundTrip == LET d == DecodeCsv(CsvMech(table)) IN d.ok /\ d.rows = table
HtmlRoundTrip == LET d == DecodeHtml(HtmlMech(table)) IN d.ok /\ d.rows = table
(* json: U+0001 .. U+001F stand as "^1" .. "^31" here (tab, LF, CR as themselves); keys deliberately not in byte order, the third repeats the first *)
Ctl == [v \in 1 .. 31 |-> IF v = 9 THEN "\t" ELSE IF v = 10 THEN "\n" ELSE IF v = 13 THEN "\r" ELSE "^" \o ToString(v)]
JKeys == << <<"b", "\"">>, <<"B">>, <<"b", "\"">> >>
JCell(c) == IF c = <<"a">> THEN <<Ctl[1]>> ELSE IF c = <<" ">> THEN <<Ctl[8], Ctl[12]>> ELSE IF c = <<"'">> THEN <<"\\", Ctl[31]>> ELSE IF c = <<">">> THEN <<"\\", "n">> ELSE c
JTable == [i \in 1 .. Len(table) |-> [j \in 1 .. Len(table[i]) |-> JCell(table[i][j])]]
JsonRoundTrip == LET n == IF table = <<>> THEN 1 ELSE Len(table[1])
                     keys == SubSeq(JKeys, 1, n)
                     d == DecodeJson(JsonMech(keys, JTable, Ctl), Ctl) IN
                 d.ok /\ d.rows = [i \in 1 .. Len(table) |-> JsonRowVals(keys, JTable[i])]
ASSUME JsonMech(<< <<"b">>, <<"a">> >>, << << <<"x", "\"">>, <<Ctl[1], "\n">> >> >>, Ctl)
         = <<"[", "{", "\"", "a", "\"", ":", "\"", "\\", "u", "0", "0", "0", "1", "\\", "n", "\"", ",", "\"", "b", "\"", ":", "\"", "x", "\\", "\"", "\"", "}", "]">>
ASSUME JsonMech(<<>>, <<>>, Ctl) = <<"[", "]">>
ASSUME CsvMech(<< <<<<"a">>, <<"b", ",">>>> >>) = <<"a", ",", "\"", "b", ",", "\"", "\n">>
ASSUME CsvMech(<< <<<<>>>> >>) = <<"\"", "\"", "\n">> /\ CsvMech(<< <<<<>>, <<>>>> >>) = <<",", "\n">>
=============================================================================
