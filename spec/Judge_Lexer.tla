----------------------------- MODULE Judge_Lexer ----------------------------
(* Binding layer: conformance of the Lexer Mech model.  For every generated  *)
(* query the token list the real lexer printed (`debug = true`) must equal   *)
(* Lexer!LexAll of the same argument vector.  A mismatch is DRIFT of the     *)
(* mechanism model (it is not a verdict about a property).                   *)
EXTENDS Lexer, TLC, Json, IOUtils

Rec == ndJsonDeserialize(IOEnv.OBS)
VARIABLE l
MCKnown == { <<"s","i","z","e">>, <<"n","a","m","e">>, <<"l","e","n">>, <<"l","i","n","e","_","c","o","u","n","t">> }

KindName(k) == CASE k = "raw" -> "RawString" [] k = "string" -> "String" [] k = "operator" -> "Operator" [] k = "arith" -> "ArithmeticOperator"
                 [] k = "comma" -> "Comma" [] k = "from" -> "From" [] k = "where" -> "Where" [] k = "open" -> "Open" [] k = "close" -> "Close"
                 [] k = "curlyopen" -> "CurlyOpen" [] k = "curlyclose" -> "CurlyClose" [] k = "and" -> "And" [] k = "or" -> "Or" [] k = "not" -> "Not"
                 [] k = "order" -> "Order" [] k = "by" -> "By" [] k = "desc" -> "DescendingOrder" [] k = "limit" -> "Limit" [] k = "into" -> "Into"
                 [] OTHER -> k
Verdict(r) ==
  LET model == LexAll(<<r.query>>)
      seen == r.obs.one.lexems
      Same(m, o) == Len(m) = Len(o) /\ \A i \in 1 .. Len(m) : KindName(m[i].k) = o[i].k /\ m[i].s = o[i].s
      y == IF r.obs.one.timed_out \/ r.obs.split.timed_out THEN "timeout" ELSE IF r.obs.one.panic \/ r.obs.split.panic THEN "crash"
           ELSE IF ~Same(model, seen) THEN "lexer-model-drift(one-argument)"
           ELSE IF ~Same(LexAll(FullSplit(r.query)), r.obs.split.lexems) THEN "lexer-model-drift(split-arguments)"
           ELSE "ok"
  IN [id |-> r.id, ok |-> (y = "ok"), class |-> r.class, why |-> y, key |-> "C11/" \o r.class \o "/" \o y, nontrivial |-> Len(model) >= 2]

Init == l = 1
Next == /\ l <= Len(Rec)
        /\ PrintT(<<"VERDICT", ToJson(Verdict(Rec[l]))>>)
        /\ l' = l + 1
Spec == Init /\ [][Next]_l
Judged == PrintT(<<"JUDGED", ToJson([n |-> TLCGet("stats").diameter - 1])>>)
=============================================================================
