----------------------------- MODULE Judge_C14 ------------------------------
(* Binding layer, trace judge for C14.                                       *)
(* kind "lit": the names returned for `size OP <number><unit>` are exactly   *)
(*   the files whose byte count (lstat, as BigNat) compares that way with    *)
(*   the literal's value number x multiplier (computed by the generator from *)
(*   the documented unit table).                                             *)
(* kind "fmt": every rendering parses by the specifier grammar               *)
(*   digits[.digits][space]unit, has the unit family/level the flags select, *)
(*   the number of decimals asked for, and value x unit within one unit of   *)
(*   the last displayed place of the size; value x unit is non-decreasing    *)
(*   along the size grid.                                                    *)
EXTENDS BigNat, Chars, TLC, Json, IOUtils, FiniteSets

Rec == ndJsonDeserialize(IOEnv.OBS)
WS == JsonDeserialize(IOEnv.WORLD)
W == WS.world
VARIABLE l
Nodes == 1 .. Len(W.nodes)
NatOfChars(c) == FromDigits([i \in 1 .. Len(c) |-> DigitVal(c[i])])
SizeOf(n) == NatOfChars(WS.snapshot[n].sizec)
CmpOp(o, c) == CASE o = "eq" -> c = 0 [] o = "ne" -> c # 0 [] o = "gt" -> c > 0 [] o = "gte" -> c >= 0 [] o = "lt" -> c < 0 [] o = "lte" -> c <= 0

(* ---- formatting ---- *)
DigitRun(cs, from) == CHOOSE k \in 0 .. (Len(cs) - from + 1) :
                        (\A i \in from .. from + k - 1 : IsDigitC(cs[i])) /\ (from + k > Len(cs) \/ ~IsDigitC(cs[from + k]))
ParseFmt(cs) ==
  LET ni == DigitRun(cs, 1)
      hasdot == ni + 1 <= Len(cs) /\ cs[ni + 1] = "."
      nf == IF hasdot THEN DigitRun(cs, ni + 2) ELSE 0
      p1 == IF hasdot THEN ni + 2 + nf ELSE ni + 1              \* first position after the number
      sp == p1 <= Len(cs) /\ cs[p1] = " "
      unit == SubSeq(cs, IF sp THEN p1 + 1 ELSE p1, Len(cs))
  IN [ok |-> ni >= 1 /\ (~hasdot \/ nf >= 1), space |-> sp, unit |-> unit, scale |-> nf,
      num |-> NatOfChars(SubSeq(cs, 1, ni) \o (IF hasdot THEN SubSeq(cs, ni + 2, ni + 1 + nf) ELSE <<>>))]

Has(s, c) == s = c \/ s = c \o "s" \/ s = "c" \o c \/ s = "d" \o c     \* flags strings: "", c, d, s, cs, ds
Family(spec) == IF spec.flags \in {"d", "ds"} THEN "dec" ELSE IF spec.flags \in {"c", "cs"} THEN "conv"
                ELSE IF spec.unit \in {"kb", "mb", "gb", "tb"} THEN "dec" ELSE "bin"
Short(spec) == spec.flags \in {"s", "cs", "ds"}
Letters == <<"K", "M", "G", "T", "P", "E">>
UnitChars(level, fam, short) == IF level = 0 THEN <<"B">>
                                ELSE IF short THEN <<Letters[level]>>
                                ELSE IF fam = "bin" THEN <<Letters[level], "i", "B">> ELSE <<Letters[level], "B">>
FixedLevel(u) == CASE u = "" -> -1 [] u = "b" -> 0 [] u \in {"k", "kb", "kib"} -> 1 [] u \in {"m", "mb", "mib"} -> 2
                   [] u \in {"g", "gb", "gib"} -> 3 [] u \in {"t", "tb", "tib"} -> 4
LevelOf(unit, fam, short) == IF \E k \in 0 .. 6 : UnitChars(k, fam, short) = unit
                             THEN CHOOSE k \in 0 .. 6 : UnitChars(k, fam, short) = unit ELSE -1
MultOf(level, fam) == Pow(IF fam = "dec" THEN 1000 ELSE 1024, level)

FmtWhy(spec, size, cs) ==
  LET p == ParseFmt(cs)  fam == Family(spec)  sh == Short(spec)
      lvl == LevelOf(p.unit, fam, sh)
      M == MultOf(lvl, fam)
  IN IF ~p.ok THEN "unparsable-rendering"
     ELSE IF p.space # spec.space THEN "space-flag-ignored"
     ELSE IF lvl = -1 THEN "wrong-unit-family"
     ELSE IF FixedLevel(spec.unit) # -1 /\ lvl # FixedLevel(spec.unit) THEN "wrong-fixed-unit"
     \* %.N: N decimals; a value that is exact in its unit may be shown without decimals (the statement asks for
     \* fidelity "up to the displayed precision", and whole values are displayed whole)
     ELSE IF spec.prec # 9 /\ p.scale # spec.prec /\ ~(p.scale = 0 /\ Mul(p.num, M) = size) THEN "wrong-precision"
     ELSE IF ~Leq(AbsDiff(Mul(p.num, M), Mul(size, Pow10(p.scale))), M) THEN "value-off-by-more-than-displayed-precision"
     ELSE "ok"
(* value x unit as a fraction <<numerator, denominator>> *)
Shown(spec, cs) == LET p == ParseFmt(cs) fam == Family(spec) IN
                   <<Mul(p.num, MultOf(LevelOf(p.unit, fam, Short(spec)), fam)), Pow10(p.scale)>>

Verdict(r) ==
  IF r.kind = "lit" THEN
    LET rows == r.obs.r1.rows
        got  == { rows[i][1] : i \in 1 .. Len(rows) }
        want == { W.nodes[n].name : n \in { m \in Nodes : CmpOp(r.op, Cmp(SizeOf(m), r.val)) } }
        y == IF r.obs.r1.timed_out THEN "timeout" ELSE IF r.obs.r1.panic THEN "crash"
             ELSE IF r.obs.r1.status = 2 THEN "rejected-as-malformed"
             ELSE IF Cardinality(got) # Len(rows) THEN "duplicate-row"
             ELSE IF got \ want # {} THEN "extra-row" ELSE IF want \ got # {} THEN "missing-row" ELSE "ok"
    IN [id |-> r.id, ok |-> (y = "ok"), class |-> r.class, why |-> y, key |-> "C14/" \o r.class \o "/" \o y,
        nontrivial |-> (want # {} /\ Cardinality(want) < Len(W.nodes))]
  ELSE
    LET n == Len(r.sizes)
        cell(i) == LET o == r.obs["r" \o ToString(i)] IN
                   IF o.timed_out \/ o.panic \/ Len(o.rows) # 1 \/ o.status # 0 THEN <<>> ELSE o.rows[1][1]
        whys == [i \in 1 .. n |-> IF cell(i) = <<>> THEN "no-output" ELSE FmtWhy(r.spec, r.sizes[i], cell(i))]
        bad == { i \in 1 .. n : whys[i] # "ok" }
        mono == \A i \in 1 .. n - 1 :
                  LET a == Shown(r.spec, cell(i))  b == Shown(r.spec, cell(i + 1)) IN Leq(Mul(a[1], b[2]), Mul(b[1], a[2]))
        y == IF bad # {} THEN whys[CHOOSE i \in bad : \A j \in bad : i <= j]
             ELSE IF ~mono THEN "not-monotone" ELSE "ok"
    IN [id |-> r.id, ok |-> (y = "ok"), class |-> r.class, why |-> y, key |-> "C14/" \o r.class \o "/" \o y,
        nontrivial |-> TRUE]

Init == l = 1
Next == /\ l <= Len(Rec)
        /\ PrintT(<<"VERDICT", ToJson(Verdict(Rec[l]))>>)
        /\ l' = l + 1
Spec == Init /\ [][Next]_l
Judged == PrintT(<<"JUDGED", ToJson([n |-> TLCGet("stats").diameter - 1])>>)
=============================================================================
