----------------------------- MODULE Judge_C05 ------------------------------
(* Binding layer, trace judge for C05: the ordered run must be a permutation *)
(* of the rows of the unordered run and every consecutive pair must be in    *)
(* non-decreasing order under the key list (numeric columns numerically,     *)
(* date columns chronologically at the displayed precision, everything else  *)
(* by code points; `desc` reverses).  Key values come from the world, so     *)
(* keys need not be selected.                                                *)
EXTENDS Order, TLC, Json, IOUtils, FiniteSets

Rec == ndJsonDeserialize(IOEnv.OBS)
VARIABLE l

PathStr(w, n) == "./" \o RelPath(w, n)
Count(s, x) == Cardinality({ i \in 1 .. Len(s) : s[i] = x })
Range(s) == { s[i] : i \in 1 .. Len(s) }

Verdict(r) ==
  LET w     == r.world
      all   == NodeIds(w)
      paths == [n \in all |-> PathStr(w, n)]
      plain == r.obs.plain.rows
      ord   == r.obs.ord.rows
      ids   == [i \in 1 .. Len(ord) |-> IF \E n \in all : paths[n] = ord[i][1]
                                        THEN CHOOSE n \in all : paths[n] = ord[i][1] ELSE 0]
      perm  == Len(ord) = Len(plain) /\ \A x \in Range(ord) \cup Range(plain) : Count(ord, x) = Count(plain, x)
      sorted == \A i \in 1 .. Len(ids) - 1 : CmpKeys(r, ids[i], ids[i + 1], r.keys, 1) <= 0
      plainIds == [i \in 1 .. Len(plain) |-> IF \E n \in all : paths[n] = plain[i][1]
                                             THEN CHOOSE n \in all : paths[n] = plain[i][1] ELSE 0]
      plainSorted == (\A i \in 1 .. Len(plainIds) : plainIds[i] # 0) /\
                     \A i \in 1 .. Len(plainIds) - 1 : CmpKeys(r, plainIds[i], plainIds[i + 1], r.keys, 1) <= 0
      y == IF r.obs.ord.timed_out \/ r.obs.plain.timed_out THEN "timeout"
           ELSE IF r.obs.ord.panic THEN "crash"
           ELSE IF r.obs.ord.status = 2 THEN "rejected-as-malformed"
           ELSE IF ~perm THEN "not-a-permutation"
           ELSE IF r.sel = "keysonly" THEN "ok"           \* (rows without identity: the permutation is what can be judged)
           ELSE IF \E i \in 1 .. Len(ids) : ids[i] = 0 THEN "unknown-row"
           ELSE IF ~sorted THEN "not-sorted"
           ELSE "ok"
  IN [id |-> r.id, ok |-> (y = "ok"), class |-> r.class, why |-> y,
      key |-> "C05/" \o r.class \o "/" \o y,
      nontrivial |-> (Len(plain) >= 3 /\ ~plainSorted)]

Init == l = 1
Next == /\ l <= Len(Rec)
        /\ PrintT(<<"VERDICT", ToJson(Verdict(Rec[l]))>>)
        /\ l' = l + 1
Spec == Init /\ [][Next]_l
Judged == PrintT(<<"JUDGED", ToJson([n |-> TLCGet("stats").diameter - 1])>>)
=============================================================================
