------------------------------ MODULE Conforms ------------------------------
(* Mech layer: implementation-shaped model of Searcher::conforms and of the  *)
(* value conversions it relies on (src/searcher.rs, src/function.rs Variant, *)
(* src/util: parse_filesize, str_to_bool, parse_datetime, glob.rs).          *)
(* Input: the Expr tree built by Parser.tla and an entry                     *)
(*   [name |-> chars, ext |-> chars, size, uid, gid |-> Nat, isdir, isfile   *)
(*    |-> BOOLEAN, mtime |-> epoch seconds (the zone of the run is UTC)].    *)
(* Output: [ok, b] - b is the Boolean the code computes; ok = FALSE when the *)
(* evaluation leaves the part of the code that is modelled (functions,       *)
(* arithmetic, fractional numbers, regular expressions beyond literal text   *)
(* with anchors): the model abstains, it does not guess.                     *)
(*                                                                           *)
(*   logical_op  And / Or with the code's short circuit                      *)
(*   op          the operands are evaluated to Variants (GetVal); the kind   *)
(*               of the LEFT value selects the comparison family:            *)
(*     String    = / != : glob when the literal has * or ? (translated by    *)
(*               GlobXlate to an anchored, case-blind regular expression     *)
(*               where a wildcard also matches a line feed), else plain      *)
(*               equality; === / !== plain equality; like / notlike the same *)
(*               translation with % and _; =~ / !=~ regular expression       *)
(*               search; ordering operators by value when both are numbers   *)
(*     Int       literal through ToInt (i64, else size with unit, else 0);   *)
(*               a literal with a decimal point is compared by value         *)
(*     Bool      literal through str_to_bool                                 *)
(*     DateTime  literal through parse_datetime to [start, finish]:          *)
(*               = inside, != outside, > after finish, >= from start,        *)
(*               < before start, <= up to finish, === / !== against start    *)
EXTENDS Parser, Regex, Civil

V(t, s, i, b) == [t |-> t, s |-> s, i |-> i, b |-> b]
SV(s) == V("S", s, 0, FALSE)   IV(i) == V("I", <<>>, i, FALSE)   BV(b) == V("B", <<>>, 0, b)   DV(d) == V("D", <<>>, d, FALSE)
Abstain == [ok |-> FALSE, b |-> FALSE]
Res(b) == [ok |-> TRUE, b |-> b]

(* get_column_expr_value for the operand shapes the model covers *)
Covered(e) == ~IsNone(e) /\ e.arithmetic_op = NONE /\ e.function = NONE /\ IsNone(e.left) /\ IsNone(e.right)
GetVal(e, f) ==
  IF e.field # NONE THEN
     (CASE e.field = "Name" -> SV(f.name)
        [] e.field = "Size" -> IV(IF e.minus THEN 0 - f.size ELSE f.size)
        [] e.field = "Uid" -> IV(IF e.minus THEN 0 - f.uid ELSE f.uid)
        [] e.field = "Gid" -> IV(IF e.minus THEN 0 - f.gid ELSE f.gid)
        [] e.field = "Extension" -> SV(f.ext)
        [] e.field = "IsFile" -> BV(f.isfile)
        [] e.field = "IsHidden" -> BV(f.name # <<>> /\ f.name[1] = ".")
        [] e.field = "IsDir" -> BV(f.isdir)
        [] e.field = "Modified" -> DV(f.mtime)
        [] OTHER -> V("?", <<>>, 0, FALSE))
  ELSE SV(IF e.minus THEN <<"-">> \o e.val.c ELSE e.val.c)                   \* Variant::from_signed_string

(* Variant::to_int of a literal: i64, else parse_filesize (whole number and unit), else 0 *)
IsI64Text(s) == AllDigits(s) \/ (Len(s) >= 2 /\ s[1] = "-" /\ AllDigits(Tail(s)))
I64Of(s) == IF s[1] = "-" THEN 0 - NatOfDigits(Tail(s)) ELSE NatOfDigits(s)
RECURSIVE DigitPrefix(_)
DigitPrefix(s) == IF s = <<>> \/ ~IsDigitC(s[1]) THEN 0 ELSE 1 + DigitPrefix(Tail(s))
UnitMult(u) == CASE u \in {<<>>, <<"b">>} -> 1 [] u \in {<<"k">>, <<"k","i","b">>} -> 1024 [] u = <<"k","b">> -> 1000
                 [] u \in {<<"m">>, <<"m","i","b">>} -> 1048576 [] u = <<"m","b">> -> 1000000
                 [] u \in {<<"g">>, <<"g","i","b">>} -> 1073741824 [] u = <<"g","b">> -> 1000000000 [] OTHER -> 0
HasDot(s) == HasChar(s, ".")
ToInt(s) == IF IsI64Text(s) THEN [ok |-> TRUE, i |-> I64Of(s)]
            ELSE IF HasDot(s) THEN [ok |-> FALSE, i |-> 0]                      \* fractions: not modelled
            ELSE LET k == DigitPrefix(s)  u == LowerSeq(SubSeq(s, k + 1, Len(s))) IN
                 IF k >= 1 /\ k <= 6 /\ UnitMult(u) > 0 /\ UnitMult(u) < 2000 THEN [ok |-> TRUE, i |-> NatOfDigits(SubSeq(s, 1, k)) * UnitMult(u)]
                 ELSE IF k >= 1 /\ k <= 3 /\ UnitMult(u) > 0 /\ UnitMult(u) < 2000000 THEN [ok |-> TRUE, i |-> NatOfDigits(SubSeq(s, 1, k)) * UnitMult(u)]
                 ELSE IF k >= 1 /\ UnitMult(u) > 0 THEN [ok |-> FALSE, i |-> 0]   \* beyond 32-bit model arithmetic
                 ELSE [ok |-> TRUE, i |-> 0]                                     \* not a number, not a size: 0

(* str_to_bool; anything else is false for the comparison (Variant::to_bool) *)
ToBool(s) == LowerSeq(s) \in { <<"t","r","u","e">>, <<"1">>, <<"y","e","s">>, <<"y">> }

(* parse_datetime on `YYYY(-|:)M(-|:)D[ H[:M[:S]]]` (DATE_REGEX); other spellings are not modelled *)
RECURSIVE SplitNums(_, _)
SplitNums(s, cur) == IF s = <<>> THEN (IF cur = <<>> THEN <<>> ELSE <<cur>>)
                     ELSE IF IsDigitC(s[1]) THEN SplitNums(Tail(s), Append(cur, s[1]))
                     ELSE (IF cur = <<>> THEN <<>> ELSE <<cur>>) \o SplitNums(Tail(s), <<>>)
DateShape(s) == Len(s) >= 8 /\ (\A i \in 1 .. 4 : IsDigitC(s[i])) /\ s[5] \in {"-", ":"}
                /\ \A i \in 1 .. Len(s) : IsDigitC(s[i]) \/ s[i] \in {"-", ":", " "}
ToInterval(s) ==
  LET p == SplitNums(s, <<>>) n == Len(p) IN
  IF ~DateShape(s) \/ n < 3 \/ n > 6 \/ (\E i \in 1 .. n : Len(p[i]) > 4) THEN [ok |-> FALSE, a |-> 0, z |-> 0]
  ELSE LET y == NatOfDigits(p[1]) m == NatOfDigits(p[2]) d == NatOfDigits(p[3])
           hh == IF n >= 4 THEN NatOfDigits(p[4]) ELSE 0
           mi == IF n >= 5 THEN NatOfDigits(p[5]) ELSE 0
           ss == IF n >= 6 THEN NatOfDigits(p[6]) ELSE 0
           valid == m >= 1 /\ m <= 12 /\ d >= 1 /\ d <= DaysInMonth(y, m) /\ hh <= 23 /\ mi <= 59 /\ ss <= 59 /\ y >= 1971 /\ y <= 2037
           a == Epoch(y, m, d, hh, mi, ss, 0)
           span == IF n = 3 THEN 86399 ELSE IF n = 4 THEN 3599 ELSE IF n = 5 THEN 59 ELSE 0
       IN IF valid THEN [ok |-> TRUE, a |-> a, z |-> a + span] ELSE [ok |-> FALSE, a |-> 0, z |-> 0]

(* glob.rs: every character is itself except the two wildcards; anchored, case-blind, `s` flag *)
XlateEl(c, many, one) == IF c = many THEN [ch |-> "ANYLF", q |-> "*"] ELSE IF c = one THEN [ch |-> "ANYLF", q |-> "1"] ELSE [ch |-> ToLowerC(c), q |-> "1"]
GlobXlate(p, many, one) == [els |-> [i \in 1 .. Len(p) |-> XlateEl(p[i], many, one)], astart |-> TRUE, aend |-> TRUE]
WildHolds(p, s, many, one) == RxMatch(GlobXlate(p, many, one), LowerSeq(s))
IsGlob(p) == HasChar(p, "*") \/ HasChar(p, "?")
(* a user regular expression: literal text with optional ^ and $ is modelled, anything with other metacharacters is not *)
RxMeta == {".", "+", "*", "?", "(", ")", "[", "]", "{", "}", "|", "\\"}
RxOfText(s) ==
  LET as == s # <<>> /\ s[1] = "^"
      ae == Len(s) >= 1 /\ s[Len(s)] = "$" /\ ~(as /\ Len(s) = 1)
      body == SubSeq(s, (IF as THEN 2 ELSE 1), (IF ae THEN Len(s) - 1 ELSE Len(s)))
  IN [ok |-> \A i \in 1 .. Len(body) : body[i] \notin RxMeta \cup {"^", "$"},
      rx |-> [els |-> [i \in 1 .. Len(body) |-> [ch |-> body[i], q |-> "1"]], astart |-> as, aend |-> ae]]
IsNumText(s) == IsI64Text(s)

Leaf(op, l, r) ==       \* l, r: Variants
  IF l.t = "S" THEN
     LET val == r.s fv == l.s IN
     IF r.t # "S" THEN Abstain
     ELSE CASE op = "Eq" -> Res(IF IsGlob(val) THEN WildHolds(val, fv, "*", "?") ELSE val = fv)
            [] op = "Ne" -> Res(IF IsGlob(val) THEN ~WildHolds(val, fv, "*", "?") ELSE val # fv)
            [] op = "Eeq" -> Res(val = fv)
            [] op = "Ene" -> Res(val # fv)
            [] op = "Like" -> Res(WildHolds(val, fv, "%", "_"))
            [] op = "NotLike" -> Res(~WildHolds(val, fv, "%", "_"))
            [] op \in {"Rx", "NotRx"} -> LET x == RxOfText(val) IN
                   IF ~x.ok THEN Abstain ELSE Res(IF op = "Rx" THEN RxMatch(x.rx, fv) ELSE ~RxMatch(x.rx, fv))
            [] op \in {"Gt", "Gte", "Lt", "Lte"} ->
                   IF IsNumText(fv) /\ IsNumText(val)
                   THEN Res(CASE op = "Gt" -> I64Of(fv) > I64Of(val) [] op = "Gte" -> I64Of(fv) >= I64Of(val)
                              [] op = "Lt" -> I64Of(fv) < I64Of(val) [] OTHER -> I64Of(fv) <= I64Of(val))
                   \* (texts that are not both numbers are ordered by their characters; decimals: the model abstains)
                   ELSE IF HasDot(fv) \/ HasDot(val) THEN Abstain
                   ELSE Res(CASE op = "Gt" -> ~LexLeq(fv, val) [] op = "Gte" -> LexLeq(val, fv)
                              [] op = "Lt" -> ~LexLeq(val, fv) [] OTHER -> LexLeq(fv, val))
            [] OTHER -> Res(FALSE)
  \* (the text operators see a number as it is printed; the model covers whole numbers that are not negative)
  ELSE IF l.t = "I" /\ op \in {"Like", "NotLike", "Rx", "NotRx"} THEN
     IF l.i < 0 \/ r.t # "S" THEN Abstain
     ELSE LET val == r.s  fv == DigitsOfNat(l.i) IN
          IF op \in {"Like", "NotLike"} THEN Res(IF op = "Like" THEN WildHolds(val, fv, "%", "_") ELSE ~WildHolds(val, fv, "%", "_"))
          ELSE LET x == RxOfText(val) IN IF ~x.ok THEN Abstain ELSE Res(IF op = "Rx" THEN RxMatch(x.rx, fv) ELSE ~RxMatch(x.rx, fv))
  ELSE IF l.t = "I" THEN
     LET c == IF r.t = "I" THEN [ok |-> TRUE, i |-> r.i] ELSE IF r.t = "S" THEN ToInt(r.s) ELSE [ok |-> FALSE, i |-> 0] IN
     IF ~c.ok THEN Abstain
     ELSE CASE op \in {"Eq", "Eeq"} -> Res(l.i = c.i) [] op \in {"Ne", "Ene"} -> Res(l.i # c.i)
            [] op = "Gt" -> Res(l.i > c.i) [] op = "Gte" -> Res(l.i >= c.i) [] op = "Lt" -> Res(l.i < c.i) [] op = "Lte" -> Res(l.i <= c.i)
            [] OTHER -> Res(FALSE)
  ELSE IF l.t = "B" THEN
     LET val == IF r.t = "B" THEN r.b ELSE IF r.t = "S" THEN ToBool(r.s) ELSE FALSE IN
     CASE op \in {"Eq", "Eeq"} -> Res(l.b = val) [] op \in {"Ne", "Ene"} -> Res(l.b # val)
       [] op = "Gt" -> Res(l.b /\ ~val) [] op = "Gte" -> Res(l.b \/ ~val) [] op = "Lt" -> Res(~l.b /\ val) [] op = "Lte" -> Res(~l.b \/ val)
       [] OTHER -> Res(FALSE)
  ELSE IF l.t = "D" THEN
     LET iv == IF r.t = "S" THEN ToInterval(r.s) ELSE [ok |-> FALSE, a |-> 0, z |-> 0]  dt == l.i IN
     IF ~iv.ok THEN Abstain
     ELSE CASE op = "Eeq" -> Res(dt = iv.a) [] op = "Ene" -> Res(dt # iv.a)
            [] op = "Eq" -> Res(dt >= iv.a /\ dt <= iv.z) [] op = "Ne" -> Res(dt < iv.a \/ dt > iv.z)
            [] op = "Gt" -> Res(dt > iv.z) [] op = "Gte" -> Res(dt >= iv.a) [] op = "Lt" -> Res(dt < iv.a) [] op = "Lte" -> Res(dt <= iv.z)
            [] OTHER -> Res(FALSE)
  ELSE Abstain

RECURSIVE ConformsR(_, _)
ConformsR(e, f) ==
  IF IsNone(e) THEN Abstain
  ELSE IF e.logical_op # NONE THEN
     LET a == ConformsR(e.left, f) IN
     IF ~a.ok THEN Abstain
     ELSE IF e.logical_op = "And" THEN (IF ~a.b THEN Res(FALSE) ELSE ConformsR(e.right, f))          \* short circuit
     ELSE (IF a.b THEN Res(TRUE) ELSE ConformsR(e.right, f))
  ELSE IF e.op # NONE THEN
     IF ~Covered(e.left) \/ ~Covered(e.right) THEN Abstain
     ELSE LET l == GetVal(e.left, f) r == GetVal(e.right, f) IN IF l.t = "?" THEN Abstain ELSE Leaf(e.op, l, r)
  ELSE Abstain
=============================================================================
