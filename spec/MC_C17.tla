------------------------------- MODULE MC_C17 -------------------------------
(* Binding layer, scenario generator for C17 (fault isolation).              *)
(*  dirs   every set of at most two directories made unlistable (searched as *)
(*         an unprivileged user), plus a root that is not a directory, x     *)
(*         result path (streamed, ordered, aggregate) x bfs/dfs              *)
(*  files  every set of at most two files made unreadable x column set       *)
(*         (metadata, content-derived, aggregates)                           *)
(*  pipe   standard output closed after k bytes, for every k in 0..MaxK, x   *)
(*         six formats x four result paths (fault injected by the shim)      *)
EXTENDS World, TLC, Json

CONSTANTS MaxK, KStep

VARIABLES kind, baddirs, badfiles, path, dfs, fmt, k, phase
vars == <<kind, baddirs, badfiles, path, dfs, fmt, k, phase>>

Nd(i, p, kd, nm, cont) == [id |-> i, parent |-> p, kind |-> kd, name |-> nm, content |-> cont, mode |-> IF kd = "dir" THEN 493 ELSE 420]
Tree == << Nd(1, 0, "dir", "d1", ""), Nd(2, 1, "file", "f1.txt", "one\ntwo\n"), Nd(3, 1, "dir", "d2", ""), Nd(4, 3, "file", "f2.txt", "#!x\n"),
           Nd(5, 0, "dir", "d3", ""), Nd(6, 5, "file", "f3.txt", "a\nb\nc"), Nd(7, 0, "file", "f0.txt", ""), Nd(8, 3, "dir", "d4", ""),
           Nd(9, 8, "file", "f4.txt", "zz\n"),
           \* an image whose dimensions are read from its content, and a directory that is named like one
           Nd(10, 0, "file", "p.svg", "<svg xmlns=\"http://www.w3.org/2000/svg\" width=\"5\" height=\"5\"></svg>\n"), Nd(11, 0, "dir", "dd.svg", ""),
           \* links that lead nowhere are entries like any other: listing them is not a failure
           Nd(12, 0, "symlink", "dang", "") @@ [target |-> -1, tstyle |-> "rel"], Nd(13, 3, "symlink", "dang2", "") @@ [target |-> -1, tstyle |-> "abs"],
           \* files named like archives that are none (path "archived": the search is told to look into archives): entries like any other
           Nd(14, 1, "file", "x.zip", "not an archive\n"), Nd(15, 0, "file", "e.jar", "") >>
Dirs == {1, 3, 5, 8}
Files == {2, 4, 6, 7, 9, 10, 14}
(* mode 0 makes a directory unlistable / a file unreadable for the unprivileged user the search runs as *)
W(bd, bf) == [nodes |-> [i \in 1 .. Len(Tree) |-> IF i \in bd \cup bf THEN [Tree[i] EXCEPT !.mode = 0] ELSE Tree[i]]]
Subsets2(S) == { {} } \cup { {a} : a \in S } \cup { {a, b} : a \in S, b \in S }

(* a bigger directory for the closed-pipe scenarios: the stream must exceed the standard output buffer *)
Big == [nodes |-> [i \in 1 .. 40 |-> [id |-> i, parent |-> 0, kind |-> "file", content |-> "x", mode |-> 420,
                                       name |-> "file-with-a-rather-long-name-number-" \o ToString(i) \o ".txt"]]]

Init == kind = "" /\ baddirs = {} /\ badfiles = {} /\ path = "" /\ dfs = FALSE /\ fmt = "" /\ k = 0 /\ phase = "start"
ChooseDirs == /\ phase = "start" /\ kind' = "dirs" /\ baddirs' \in Subsets2(Dirs) /\ badfiles' = {}
              /\ path' \in {"streamed", "ordered", "aggregate"} /\ dfs' \in BOOLEAN /\ fmt' = "list" /\ k' = 0 /\ phase' = "done"
(* notdir: a root that is a regular file; missing: a root that does not exist (fails when its path is resolved, before listing) *)
(* rxfile / rxmissing: a `regexp` root whose pattern segment sits under a regular file / under a directory that does not exist *)
ChooseNotDir == /\ phase = "start" /\ kind' \in {"notdir", "missing", "rxfile", "rxmissing"} /\ baddirs' = {} /\ badfiles' = {}
                /\ path' \in {"streamed", "ordered"} /\ dfs' \in BOOLEAN /\ fmt' = "list" /\ k' = 0 /\ phase' = "done"
ChooseFiles == /\ phase = "start" /\ kind' = "files" /\ badfiles' \in Subsets2(Files) /\ baddirs' = {}
               /\ path' \in {"metadata", "content", "aggregate", "media", "archived"} /\ dfs' = FALSE /\ fmt' = "list" /\ k' = 0 /\ phase' = "done"
ChoosePipe == /\ phase = "start" /\ kind' = "pipe" /\ baddirs' = {} /\ badfiles' = {}
              /\ fmt' \in {"tabs", "lines", "list", "csv", "json", "html"}
              /\ path' \in {"streamed", "ordered", "aggregate", "grouped"}
              /\ k' \in { x \in 0 .. MaxK : x % KStep = 0 } /\ dfs' = FALSE /\ phase' = "done"
Next == ChooseDirs \/ ChooseNotDir \/ ChooseFiles \/ ChoosePipe
Spec == Init /\ [][Next]_vars

Mode == IF dfs THEN " dfs" ELSE ""
DirQuery == CASE path = "streamed" -> "select inode, path from '.'" \o Mode \o " into list"
              [] path = "ordered" -> "select inode, path from '.'" \o Mode \o " order by path into list"
              [] path = "aggregate" -> "select count(*), count(*) from '.'" \o Mode \o " into list"
FileQuery == CASE path = "metadata" -> "select path, size, mode, hardlinks from '.' into list"
               [] path = "content" -> "select path, line_count, sha1, is_shebang from '.' into list"
               [] path = "aggregate" -> "select count(*), sum(size), sum(line_count), max(size), min(line_count), max(line_count) from '.' into list"
               [] path = "archived" -> "select path, size, mode, hardlinks from '.' archives into list"
               [] path = "media" -> "select path, width, height, line_count from '.' into list"
PipeQuery == (CASE path = "streamed" -> "select name, size, path from '.'"
                [] path = "ordered" -> "select name, size, path from '.' order by name"
                [] path = "aggregate" -> "select count(*), sum(size), max(name) from '.'"
                [] path = "grouped" -> "select name, count(*) from '.' group by name order by name") \o " into " \o fmt
RECURSIVE SetText(_)
SetText(S) == IF S = {} THEN "" ELSE LET m == CHOOSE x \in S : \A y \in S : x <= y IN Tree[m].name \o (IF S = {m} THEN "" ELSE "+") \o SetText(S \ {m})
Scenario ==
  CASE kind = "dirs" ->
        [prop |-> "C17", kind |-> kind, class |-> "unlistable=" \o SetText(baddirs) \o "/" \o path \o (IF dfs THEN "/dfs" ELSE "/bfs"),
         world |-> W(baddirs, {}), bad |-> baddirs, path |-> path, k |-> 0,
         env |-> [tz |-> "UTC", cwd |-> 0, uid |-> 65534],
         runs |-> << [tag |-> "q", ncols |-> 2, argv |-> <<DirQuery>>] >>]
    [] kind \in {"notdir", "missing", "rxfile", "rxmissing"} ->
        [prop |-> "C17", kind |-> IF kind = "notdir" THEN "notdir" ELSE "missing",
         class |-> (CASE kind = "notdir" -> "root-not-a-directory/" [] kind = "missing" -> "root-does-not-exist/"
                      [] kind = "rxfile" -> "regexp-root-under-a-file/" [] OTHER -> "regexp-root-under-nothing/") \o path \o (IF dfs THEN "/dfs" ELSE "/bfs"),
         world |-> W({}, {}), bad |-> {}, path |-> path, k |-> 0,
         env |-> [tz |-> "UTC", cwd |-> 0, uid |-> 65534],
         runs |-> << [tag |-> "q", ncols |-> 2, probes |-> IF kind = "rxfile" THEN <<"f0.txt">> ELSE <<"gone-root">>,
                      argv |-> << "select inode, path from 'd3'" \o Mode
                                  \o (CASE kind = "notdir" -> ", 'f0.txt'" \o Mode [] kind = "missing" -> ", 'gone-root'" \o Mode
                                         [] kind = "rxfile" -> ", 'f0.txt/s*' depth 1 rx" \o Mode [] OTHER -> ", 'gone-root/s*' depth 1 rx" \o Mode)
                                  \o ", 'd1'" \o Mode
                                  \o (IF path = "ordered" THEN " order by path" ELSE "") \o " into list" >>] >>]
    [] kind = "files" ->
        [prop |-> "C17", kind |-> kind, class |-> "unreadable=" \o SetText(badfiles) \o "/" \o path,
         world |-> W({}, badfiles), bad |-> badfiles, path |-> path, k |-> 0, digests |-> TRUE,
         env |-> [tz |-> "UTC", cwd |-> 0, uid |-> 65534],
         runs |-> << [tag |-> "q", ncols |-> IF path = "aggregate" THEN 6 ELSE 4, argv |-> <<FileQuery>>] >>]
    [] kind = "pipe" ->
        [prop |-> "C17", kind |-> kind, class |-> "stdout-closed/" \o fmt \o "/" \o path, world |-> "Big", bad |-> {}, path |-> path, k |-> k,
         env |-> [tz |-> "UTC", cwd |-> 0],
         runs |-> << [tag |-> "free", fmt |-> "bytes", argv |-> <<PipeQuery>>],
                     [tag |-> "q", fmt |-> "bytes", fail_after |-> k, argv |-> <<PipeQuery>>] >>]
EmitWorld == (phase = "start") => PrintT(<<"WORLD", ToJson([key |-> "Big", world |-> Big])>>)
Emit == phase = "done" => PrintT(<<"REPLAY", ToJson(Scenario)>>)
=============================================================================
