SPECIFICATION Spec
INVARIANTS EmitWorld Emit
