SPECIFICATION Spec
CONSTANTS
  MaxLen = 0
  RxChars = {"a"}
  Ops = {"like", "rx"}
INVARIANTS EmitWorld Emit
