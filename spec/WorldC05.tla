----------------------------- MODULE WorldC05 -------------------------------
(* World for C05/C06: many ties, multi-digit sizes (string order differs     *)
(* from numeric order: 9 < 10 < 100 but "10" < "100" < "9"), equal names in  *)
(* different directories, link counts 1, 2 and 12, three distinct days.      *)
EXTENDS WorldC02, TLC

F5(i, p, nm, sz, mt, lt) == N(i, p, "file", nm, Runs(sz, 0), 420, 0, 0, mt, lt, -3)
D5(i, p, nm, mt) == N(i, p, "dir", nm, <<>>, 493, 0, 0, mt, 0, -3)
Day1 == T0  Day2 == T0 + 86400  Day3 == T0 + 200000

W5 == [nodes |-> <<
  F5(1,  0, <<"b",".","t","x","t">>, 9,   Day2, 0),
  F5(2,  0, <<"a",".","t","x","t">>, 10,  Day1, 0),
  F5(3,  0, <<"B",".","l","o","g">>, 100, Day3, 0),
  F5(4,  0, <<"c",".","l","o","g">>, 2,   Day2, 0),
  D5(5,  0, <<"d","1">>, Day1),
  F5(6,  5, <<"a",".","t","x","t">>, 10,  Day1, 0),
  F5(7,  5, <<"z">>,                 100, Day3, 0),
  F5(8,  5, <<"1","0">>,             9,   Day2 + 1, 0),
  D5(9,  0, <<"h">>, Day2),
  F5(10, 9, <<"l","0","1">>, 2, Day2, 4),  F5(11, 9, <<"l","0","2">>, 2, Day2, 4),
  F5(12, 9, <<"l","0","3">>, 2, Day2, 4),  F5(13, 9, <<"l","0","4">>, 2, Day2, 4),
  F5(14, 9, <<"l","0","5">>, 2, Day2, 4),  F5(15, 9, <<"l","0","6">>, 2, Day2, 4),
  F5(16, 9, <<"l","0","7">>, 2, Day2, 4),  F5(17, 9, <<"l","0","8">>, 2, Day2, 4),
  F5(18, 9, <<"l","0","9">>, 2, Day2, 4),  F5(19, 9, <<"l","1","0">>, 2, Day2, 4),
  F5(20, 9, <<"l","1","1">>, 2, Day2, 4),
  F5(21, 5, <<"a","2">>, 10, Day1, 2),
  D5(22, 5, <<"e">>, Day3),
  \* two sizes beyond 2^24 that differ by one (equal as 32-bit floats), named so that a tie would be resolved the other way
  F5(23, 0, <<"b","i","g","0">>, 0, Day2, 0) @@ [bigsize |-> "16777216"],
  F5(24, 0, <<"b","i","g","1">>, 0, Day2, 0) @@ [bigsize |-> "16777217"],
  \* a time inside the hour that the zone with daylight saving time has twice (2017-11-05 05:30 UTC = 01:30 EDT)
  F5(25, 0, <<"r","e","p">>, 3, 1509859800, 0),
  \* names made of digits: as texts "10" < "100" < "9"
  F5(26, 0, <<"9">>, 1, Day2, 0), F5(27, 5, <<"1","0","0">>, 1, Day1, 0)
>>]
=============================================================================
