---------------------------- MODULE Judge_Filter ----------------------------
(* Binding layer, trace judge shared by C02 and C03: the record carries an   *)
(* abstract condition (r.formula, an Eval formula), the world and the rows   *)
(* (`path`) the real binary returned for `select path from '.' where ...`.   *)
(* Accepted iff  Must(formula) \subseteq rows \subseteq Must \cup May,       *)
(* without duplicates or unknown rows.                                       *)
EXTENDS Eval, TLC, Json, IOUtils, FiniteSets

Rec == ndJsonDeserialize(IOEnv.OBS)
VARIABLE l

PathStr(w, n) == "./" \o RelPath(w, n)
IdOfPath(r, s) == IF \E n \in NodeIds(r.world) : PathStr(r.world, n) = s
                  THEN CHOOSE n \in NodeIds(r.world) : PathStr(r.world, n) = s ELSE 0
Ids(r) == LET rows == r.obs.q.rows IN [i \in 1 .. Len(rows) |-> IdOfPath(r, rows[i][1])]
Range(s) == { s[i] : i \in 1 .. Len(s) }
NoDup(s) == \A i, j \in 1 .. Len(s) : i # j => s[i] # s[j]

All(r) == NodeIds(r.world)
MustSet(r) == Must(r, r.formula, All(r))
MaySet(r) == May(r, r.formula, All(r))

Why(r) == LET ids == Ids(r) IN
  IF r.obs.q.timed_out THEN "timeout"
  ELSE IF \E i \in 1 .. Len(ids) : ids[i] = 0 THEN "unknown-row"
  ELSE IF ~NoDup(ids) THEN "duplicate-row"
  ELSE IF Range(ids) \ (MustSet(r) \cup MaySet(r)) # {} THEN "extra-row"
  ELSE IF MustSet(r) \ Range(ids) # {} THEN (IF r.obs.q.status = 2 THEN "rejected-as-malformed" ELSE IF r.obs.q.panic THEN "crash" ELSE "missing-row")
  ELSE "ok"

(* a scenario exercises the property when the condition separates the entries *)
NonTrivial(r) == MustSet(r) # {} /\ MustSet(r) # All(r)

Verdict(r) == LET y == Why(r) IN
  [id |-> r.id, ok |-> (y = "ok"), class |-> r.class, why |-> y,
   key |-> r.prop \o "/" \o r.class \o "/" \o y, nontrivial |-> NonTrivial(r)]

Init == l = 1
Next == /\ l <= Len(Rec)
        /\ PrintT(<<"VERDICT", ToJson(Verdict(Rec[l]))>>)
        /\ l' = l + 1
Spec == Init /\ [][Next]_l
Judged == PrintT(<<"JUDGED", ToJson([n |-> TLCGet("stats").diameter - 1])>>)
=============================================================================
