---------------------------- MODULE Judge_Filter ----------------------------
(* Binding layer, trace judge shared by C02 and C03: the record carries an   *)
(* abstract condition (r.formula, an Eval formula), the world and the rows   *)
(* (`path`) the real binary returned for `select path from '.' where ...`.   *)
(* Accepted iff  Must(formula) \subseteq rows \subseteq Must \cup May,       *)
(* without duplicates or unknown rows.                                       *)
EXTENDS Eval, TLC, Json, IOUtils, FiniteSets

Rec == ndJsonDeserialize(IOEnv.OBS)
VARIABLE l

PathStr(w, n) == "./" \o RelPath(w, n)
Range(s) == { s[i] : i \in 1 .. Len(s) }
NoDup(s) == \A i, j \in 1 .. Len(s) : i # j => s[i] # s[j]

(* the laws of C03 as relations between the row sets of the runs a, b, c, d of one scenario (MC_C03L) *)
LawVerdict(r) ==
  LET w     == r.world
      all   == { PathStr(w, n) : n \in NodeIds(w) }
      RowSet(t) == { r.obs[t].rows[i][1] : i \in 1 .. Len(r.obs[t].rows) }
      tags  == DOMAIN r.obs
      A == RowSet("a")  B == RowSet("b")
      C == IF "c" \in tags THEN RowSet("c") ELSE {}
      D == IF "d" \in tags THEN RowSet("d") ELSE {}
      holds == CASE r.law \in {"complement", "complement-prefix"} -> A \cap B = {} /\ A \cup B = all
                 [] r.law = "doubleneg" -> B = A /\ C = A
                 [] r.law = "and" -> C = A \cap B
                 [] r.law = "or" -> C = A \cup B
                 [] r.law \in {"demorgan-and", "demorgan-or"} -> A = B
                 [] r.law = "precedence" -> D = A \cup (B \cap C)
      y == IF \E t \in tags : r.obs[t].timed_out THEN "timeout"
           ELSE IF \E t \in tags : r.obs[t].panic THEN "crash"
           ELSE IF \E t \in tags : r.obs[t].status = 2 THEN "rejected-as-malformed"
           ELSE IF \E t \in tags : ~(RowSet(t) \subseteq all) THEN "unknown-row"
           ELSE IF \E t \in tags : Cardinality(RowSet(t)) # Len(r.obs[t].rows) THEN "duplicate-row"
           ELSE IF ~holds THEN "law-broken"
           ELSE "ok"
  IN [id |-> r.id, ok |-> (y = "ok"), class |-> r.class, why |-> y, key |-> r.prop \o "/" \o r.class \o "/" \o y,
      nontrivial |-> (A # {} /\ A # all)]

(* everything that is needed more than once is bound by LET so that TLC evaluates it once per record *)
Verdict(r) == IF "law" \in DOMAIN r THEN LawVerdict(r) ELSE
  LET w     == r.world
      all   == NodeIds(w)
      paths == [n \in all |-> PathStr(w, n)]
      rows  == r.obs.q.rows
      ids   == [i \in 1 .. Len(rows) |-> IF \E n \in all : paths[n] = rows[i][1]
                                         THEN CHOOSE n \in all : paths[n] = rows[i][1] ELSE 0]
      sat   == [n \in all |-> Sat3(r, n, r.formula)]
      must  == { n \in all : sat[n] = "T" }
      may   == { n \in all : sat[n] = "U" }
      y     == IF r.obs.q.timed_out THEN "timeout"
               ELSE IF \E i \in 1 .. Len(ids) : ids[i] = 0 THEN "unknown-row"
               ELSE IF ~NoDup(ids) THEN "duplicate-row"
               ELSE IF Range(ids) \ (must \cup may) # {} THEN "extra-row"
               ELSE IF must \ Range(ids) # {}
                    THEN (IF r.obs.q.status = 2 THEN "rejected-as-malformed" ELSE IF r.obs.q.panic THEN "crash" ELSE "missing-row")
               ELSE "ok"
  IN [id |-> r.id, ok |-> (y = "ok"), class |-> r.class, why |-> y,
      key |-> r.prop \o "/" \o r.class \o "/" \o y,
      \* a scenario exercises the property when the condition separates the entries
      nontrivial |-> (must # {} /\ must # all)]

Init == l = 1
Next == /\ l <= Len(Rec)
        /\ PrintT(<<"VERDICT", ToJson(Verdict(Rec[l]))>>)
        /\ l' = l + 1
Spec == Init /\ [][Next]_l
Judged == PrintT(<<"JUDGED", ToJson([n |-> TLCGet("stats").diameter - 1])>>)
=============================================================================
