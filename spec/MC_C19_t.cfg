SPECIFICATION Spec
CONSTANTS
  MaxTruncate = 540
  TruncStep = 1
  MaxFlip = 260
INVARIANT Emit
