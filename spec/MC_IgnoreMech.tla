---------------------------- MODULE MC_IgnoreMech ---------------------------
(* Mech => Prop for the ignore-file matchers (C20): for every line of up to  *)
(* MaxLen characters over Alphabet and every well-formed relative path of up *)
(* to MaxPath characters over PathAlphabet, the matcher that hg.rs /         *)
(* docker.rs build from the characters of the line (IgnoreMech) gives the    *)
(* verdict of the reference matchers of Ignore.tla on the token reading of   *)
(* the same line; two-line docker files check the last-match-wins fold with  *)
(* negations; regexp lines are checked over RxSet.  One TLC state per line.  *)
EXTENDS IgnoreMech, TLC, FiniteSets

CONSTANTS MaxLen, MaxPath, Alphabet, PathAlphabet
VARIABLE cs
Init == cs = <<>>
Next == Len(cs) < MaxLen /\ \E c \in Alphabet : cs' = Append(cs, c)
Spec == Init /\ [][Next]_cs

SeqsUpTo(S, n) == UNION { [1 .. k -> S] : k \in 1 .. n }
WellFormed(p) == p[1] # "/" /\ p[Len(p)] # "/" /\ \A i \in 1 .. Len(p) - 1 : ~(p[i] = "/" /\ p[i + 1] = "/")
Paths == { p \in SeqsUpTo(PathAlphabet, MaxPath) : WellFormed(p) }

PropLine(c) == LET neg == DockerNeg(c)  body == IF neg THEN Tail(c) ELSE c IN
               [kind |-> "docker", glob |-> Tok(TrimEnd(TrimStart(body))), neg |-> neg]
HgAgree == \A p \in Paths : HgGlob(Tok(TrimEnd(cs)), p) <=> HgGlobMech(cs, p)
DockerAgree == \A p \in Paths : DockerLineMatches(PropLine(cs).glob, p) <=> DockerLineMech(cs, p)

MechLine(c) == [kind |-> "docker", chars |-> c]
Seconds == { <<"!", "a">>, <<"*">>, <<"!", "a", "/", "b">>, <<"a">>, <<"!", "*", "*", "/", "b">> }
FoldAgree == \A s \in Seconds, p \in Paths :
   /\ DockerIgnored(<<PropLine(cs), PropLine(s)>>, p) <=> DockerIgnoredMech(<<MechLine(cs), MechLine(s)>>, p)
   /\ DockerIgnored(<<PropLine(s), PropLine(cs)>>, p) <=> DockerIgnoredMech(<<MechLine(s), MechLine(cs)>>, p)

RxEls == { [ch |-> c, q |-> q] : c \in {"a", "/", "ANY"}, q \in {"1", "*", "+", "?"} }
RxSet == { [els |-> e, astart |-> s, aend |-> t] : e \in SeqsUpTo(RxEls, 2), s \in BOOLEAN, t \in BOOLEAN }
RxAgree == (cs = <<>>) => \A rx \in RxSet, p \in Paths : HgRegexp(rx, p) <=> HgRegexpMech(rx, p)

(* what the pieces are, on examples (and a guard against a vacuous comparison: both sides match something) *)
C(s) == s
ASSUME Conv(<<"*", "*", "/", "a", "*", "?", "*", "*">>) = <<"optdirs", "a", "seg", "one", "any">>
ASSUME HgGlobMech(<<"*", ".", "a">>, <<"b", "/", "x", ".", "a">>) /\ HgGlob(<<"*", ".", "a">>, <<"b", "/", "x", ".", "a">>)
ASSUME HgGlobMech(<<"b">>, <<"b", "/", "x">>) /\ ~HgGlobMech(<<"b">>, <<"b", "b", "/", "x">>) /\ ~HgGlobMech(<<"?">>, <<"a", "a">>)
ASSUME DockerLineMech(<<"a", "/">>, <<"a", "/", "b">>) /\ ~DockerLineMech(<<"a">>, <<"b", "/", "a">>) /\ DockerLineMech(<<"*", "*", "/", "a">>, <<"b", "/", "a">>)
ASSUME DockerIgnoredMech(<<MechLine(<<"*">>), MechLine(<<"!", "a">>)>>, <<"b">>) /\ ~DockerIgnoredMech(<<MechLine(<<"*">>), MechLine(<<"!", "a">>)>>, <<"a">>)
ASSUME Cardinality(Paths) > 100
=============================================================================
