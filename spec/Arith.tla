-------------------------------- MODULE Arith -------------------------------
(* Prop layer: arithmetic expressions (C15) in Polish notation over the      *)
(* tokens "+", "-", "*", "/", "%", "neg" (unary minus), integer literals and  *)
(* the columns size, hardlinks, length(name).                                *)
(* Meaning: usual precedence is a matter of rendering (ArithText); the value *)
(* of a tree is defined by structural recursion.  `/` is judged only when    *)
(* exact and `%` only on non-negative operands (ok = FALSE otherwise: the    *)
(* statement leaves real-vs-integer division open).                          *)
EXTENDS Eval

BinOps == {"+", "-", "*", "/", "%"}
IsNumTok(t) == AllDigits(t)         \* tokens are tuples of characters? no: see LeafVal
LeafVal(r, n, t) == CASE t = "size" -> r.snapshot[n].sizen [] t = "hardlinks" -> r.snapshot[n].nlinkn
                      [] t = "length(name)" -> Len(NameC(r.world, n))
                      [] t = "line_count" -> CountByte(r.world.nodes[n].content, 10)
                      [] t = "0" -> 0 [] t = "1" -> 1 [] t = "2" -> 2 [] t = "3" -> 3 [] t = "4" -> 4 [] t = "5" -> 5
                      [] t = "7" -> 7 [] t = "10" -> 10 [] t = "12" -> 12 [] t = "20" -> 20 [] t = "100" -> 100

RECURSIVE AEval(_, _, _, _)
AEval(r, n, toks, i) ==        \* [ok, v, next]
  LET t == toks[i] IN
  IF t = "neg" THEN LET a == AEval(r, n, toks, i + 1) IN [ok |-> a.ok, v |-> 0 - a.v, next |-> a.next]
  ELSE IF t \in BinOps THEN
     LET a == AEval(r, n, toks, i + 1)
         b == AEval(r, n, toks, a.next)
     IN CASE t = "+" -> [ok |-> a.ok /\ b.ok, v |-> a.v + b.v, next |-> b.next]
          [] t = "-" -> [ok |-> a.ok /\ b.ok, v |-> a.v - b.v, next |-> b.next]
          [] t = "*" -> [ok |-> a.ok /\ b.ok, v |-> a.v * b.v, next |-> b.next]
          [] t = "/" -> IF a.ok /\ b.ok /\ a.v >= 0 /\ b.v > 0 /\ a.v % b.v = 0
                        THEN [ok |-> TRUE, v |-> a.v \div b.v, next |-> b.next] ELSE [ok |-> FALSE, v |-> 0, next |-> b.next]
          [] t = "%" -> IF a.ok /\ b.ok /\ a.v >= 0 /\ b.v > 0
                        THEN [ok |-> TRUE, v |-> a.v % b.v, next |-> b.next] ELSE [ok |-> FALSE, v |-> 0, next |-> b.next]
  ELSE [ok |-> TRUE, v |-> LeafVal(r, n, t), next |-> i + 1]

(* rendering with the usual precedence: * / % bind tighter than + -, equal precedence associates to the left *)
APrec(t) == IF t \in {"+", "-"} THEN 1 ELSE IF t \in {"*", "/", "%"} THEN 2 ELSE IF t = "neg" THEN 3 ELSE 4
RECURSIVE ARender(_, _, _, _, _)
ARender(toks, i, parentPrec, rightChild, style) ==     \* <<text, next>>
  LET t == toks[i] IN
  IF t = "neg" THEN
     LET inner == toks[i + 1]
         s == ARender(toks, i + 1, 3, FALSE, style)
     \* (a negated negation is written with a bracket: -(-x))
     IN << IF inner = "neg" THEN "-(" \o s[1] \o ")" ELSE "-" \o s[1], s[2] >>
  ELSE IF t \in BinOps THEN
     LET a == ARender(toks, i + 1, APrec(t), FALSE, style)
         b == ARender(toks, a[2], APrec(t), TRUE, style)
         sp == IF style = "tight" THEN "" ELSE " "                \* tight: the minimal bracketing written without blanks (`line_count+1`)
         txt == a[1] \o sp \o t \o sp \o b[1]
         need == IF style = "full" THEN parentPrec > 0
                 ELSE APrec(t) < parentPrec \/ (APrec(t) = parentPrec /\ rightChild)
     IN << IF need THEN "(" \o txt \o ")" ELSE txt, b[2] >>
  ELSE << t, i + 1 >>
ArithText(toks, style) == ARender(toks, 1, 0, FALSE, style)[1]

(* a printed cell equals integer v *)
CellIsInt(cs, v) ==
  LET neg == cs # <<>> /\ cs[1] = "-"
      body == IF neg THEN Tail(cs) ELSE cs
      dot == IF HasChar(body, ".") THEN CHOOSE k \in 1 .. Len(body) : body[k] = "." ELSE 0
      ip == IF dot = 0 THEN body ELSE SubSeq(body, 1, dot - 1)
      fp == IF dot = 0 THEN <<>> ELSE SubSeq(body, dot + 1, Len(body))
  IN AllDigits(ip) /\ (\A k \in 1 .. Len(fp) : fp[k] = "0")
     /\ NatOfDigits(ip) = (IF v < 0 THEN 0 - v ELSE v) /\ (neg <=> v < 0 \/ (neg /\ v = 0))
=============================================================================
