----------------------------- MODULE Judge_C12 ------------------------------
(* Binding layer, trace judge for C12: for one pattern and one operator the  *)
(* names returned must be exactly the names of world W12 the textbook        *)
(* matcher (Match.tla, Regex.tla) accepts.  The world (420 names) is shared  *)
(* by all records and read once from IOEnv.WORLD.                            *)
EXTENDS Match, Regex, TLC, Json, IOUtils, FiniteSets

Rec == ndJsonDeserialize(IOEnv.OBS)
WS == JsonDeserialize(IOEnv.WORLD)
W == WS.world
VARIABLE l

Nodes == 1 .. Len(W.nodes)
(* "T" / "F" / "U": wildcard-free `=` on text that differs from the subject only by letter case is left open *)
Holds(o, p, rx, s) ==
  CASE o = "eq" -> (IF IsGlobPattern(p) THEN (IF GlobMatch(p, s) THEN "T" ELSE "F")
                    ELSE IF p = s THEN "T" ELSE IF EqCI(p, s) THEN "U" ELSE "F")
    [] o = "ne" -> (IF IsGlobPattern(p) THEN (IF GlobMatch(p, s) THEN "F" ELSE "T")
                    ELSE IF p = s THEN "F" ELSE IF EqCI(p, s) THEN "U" ELSE "T")
    [] o = "like" -> IF LikeMatch(p, s) THEN "T" ELSE "F"
    [] o = "notlike" -> IF LikeMatch(p, s) THEN "F" ELSE "T"
    [] o = "eeq" -> IF p = s THEN "T" ELSE "F"
    [] o = "ene" -> IF p = s THEN "F" ELSE "T"
    [] o = "rx" -> IF RxMatch(rx, s) THEN "T" ELSE "F"
    [] o = "notrx" -> IF RxMatch(rx, s) THEN "F" ELSE "T"

Verdict(r) ==
  LET h1   == [n \in Nodes |-> Holds(r.op, r.pat, r.rx, W.nodes[n].namec)]
      h    == IF r.conn = "none" THEN h1
              ELSE [n \in Nodes |-> LET x == h1[n]  y == Holds(r.op2, r.pat, r.rx, W.nodes[n].namec) IN
                      IF r.conn = "and" THEN (IF x = "F" \/ y = "F" THEN "F" ELSE IF x = "T" /\ y = "T" THEN "T" ELSE "U")
                      ELSE (IF x = "T" \/ y = "T" THEN "T" ELSE IF x = "F" /\ y = "F" THEN "F" ELSE "U")]
      must == { W.nodes[n].name : n \in { m \in Nodes : h[m] = "T" } }
      may  == { W.nodes[n].name : n \in { m \in Nodes : h[m] = "U" } }
      rows == r.obs.q.rows
      got  == { rows[i][1] : i \in 1 .. Len(rows) }
      y == IF r.obs.q.timed_out THEN "timeout"
           ELSE IF r.obs.q.panic THEN "crash"
           ELSE IF Cardinality(got) # Len(rows) THEN "duplicate-row"
           ELSE IF got \ (must \cup may) # {} THEN "extra-row"
           ELSE IF must \ got # {} THEN (IF r.obs.q.status = 2 THEN "rejected-as-malformed" ELSE "missing-row")
           ELSE "ok"
  IN [id |-> r.id, ok |-> (y = "ok"), class |-> r.class, why |-> y,
      key |-> "C12/" \o r.class \o "/" \o y,
      nontrivial |-> (must # {} /\ Cardinality(must) < Len(W.nodes))]

Init == l = 1
Next == /\ l <= Len(Rec)
        /\ PrintT(<<"VERDICT", ToJson(Verdict(Rec[l]))>>)
        /\ l' = l + 1
Spec == Init /\ [][Next]_l
Judged == PrintT(<<"JUDGED", ToJson([n |-> TLCGet("stats").diameter - 1])>>)
=============================================================================
