--------------------------- MODULE Judge_WriterMech -------------------------
(* Binding layer, conformance judge for the Mech model of the CSV, HTML and  *)
(* JSON writers: for every C09 scenario in one of these formats whose rows   *)
(* come in a defined order, the characters the binary wrote are exactly what      *)
(* WriterMech writes for the table that the `into list` run of the same      *)
(* query shows.  A difference is DRIFT, not a verdict.                       *)
EXTENDS WriterMech, TLC, Json, IOUtils

Rec == ndJsonDeserialize(IOEnv.OBS)
VARIABLE l
Verdict(r) ==
  LET ref == DecodeList(r.obs.list.chars, r.nul, r.ncols)
      out == r.obs.f.chars
      covered == r.fmt \in {"csv", "html", "json"} /\ r.path # "grouped" /\ ref.ok /\ ~r.obs.f.timed_out /\ ~r.obs.f.panic /\ r.obs.f.status = 0
      want == CASE r.fmt = "csv" -> CsvMech(ref.rows) [] r.fmt = "html" -> HtmlMech(ref.rows)
                [] r.fmt = "json" -> JsonMech([i \in 1 .. Len(r.keys) |-> JsonKey(r.path, r.keys[i])], ref.rows, r.ctl)
      y == IF ~covered THEN "ok" ELSE IF out = want THEN "ok" ELSE "writer-model-drift"
  IN [id |-> r.id, ok |-> (y = "ok"), class |-> r.class, why |-> y, key |-> "mech/" \o r.class \o "/" \o y, nontrivial |-> (covered /\ ref.rows # <<>>)]
Init == l = 1
Next == /\ l <= Len(Rec)
        /\ PrintT(<<"VERDICT", ToJson(Verdict(Rec[l]))>>)
        /\ l' = l + 1
Spec == Init /\ [][Next]_l
Judged == PrintT(<<"JUDGED", ToJson([n |-> TLCGet("stats").diameter - 1])>>)
=============================================================================
