------------------------------- MODULE MC_C01 -------------------------------
(* Binding layer, scenario generator for C01 (traversal is exact).          *)
(* The state is a scenario under construction: a forest, a root list and a  *)
(* depth window.  TLC's breadth-first search enumerates every scenario      *)
(* within the constants; each complete scenario is one state and is emitted *)
(* once as a REPLAY record (abstract world + rendered argv for bfs and dfs).*)
EXTENDS World, TLC, Json

CONSTANTS MaxN,        \* maximal number of nodes
          Kinds,       \* leaf kinds besides "dir"
          TwoRoots,    \* BOOLEAN: also generate two-root scenarios
          Extra        \* window bounds go up to depth + Extra

VARIABLES nodes, phase, roots, win

vars == <<nodes, phase, roots, win>>

W == [nodes |-> nodes]
Dirs == { n \in 1 .. Len(nodes) : nodes[n].kind = "dir" }
LastParent == IF nodes = <<>> THEN 0 ELSE nodes[Len(nodes)].parent

(* names: a kind letter, an awkward character on some nodes (backslash, space, dash: legal in file  *)
(* names, special to shells, path splitting and the lexer), the node number; some with a leading dot *)
NameOf(i, k, hid) == (IF hid THEN "." ELSE "") \o
                     (CASE k = "dir" -> "d" [] k = "file" -> "f" [] k = "symlink" -> "l"
                        [] k = "fifo" -> "p" [] k = "socket" -> "s" [] k = "chr" -> "c" [] k = "blk" -> "b")
                     \o (CASE i % 4 = 1 -> "\\" [] i % 4 = 2 -> " " [] i % 4 = 0 -> "-" [] OTHER -> "")
                     \o ToString(i)

Init == nodes = <<>> /\ phase = "build" /\ roots = <<>> /\ win = <<0, 0>>

(* nodes are added in breadth-first order of their parents (canonical form) *)
AddNode ==
  /\ phase = "build" /\ Len(nodes) < MaxN
  /\ \E p \in {0} \cup Dirs, k \in {"dir"} \cup Kinds :
       /\ p >= LastParent
       /\ LET i == Len(nodes) + 1
              \* a dot-name on every third node; links point at the top directory or the first directory
              hid == (i % 3 = 0)
              tgt == IF k = "symlink" THEN (IF Dirs = {} THEN 0 ELSE CHOOSE d \in Dirs : \A e \in Dirs : d <= e) ELSE -3
          IN nodes' = Append(nodes, [id |-> i, parent |-> p, kind |-> k, name |-> NameOf(i, k, hid),
                                     target |-> tgt, tstyle |-> IF i % 2 = 0 THEN "abs" ELSE "rel"])
  /\ UNCHANGED <<phase, roots, win>>

ChooseRoots ==
  /\ phase = "build" /\ nodes # <<>>
  /\ \/ roots' = <<0>>
     \/ \E d \in Dirs : ChildrenOf(W, d) # {} /\ roots' = <<d>>
     \/ /\ TwoRoots
        /\ \E d1, d2 \in Dirs : d1 < d2 /\ Disjoint(W, d1, d2) /\ roots' = <<d1, d2>>
     \/ /\ TwoRoots
        /\ \E d1, d2 \in Dirs : d1 < d2 /\ Disjoint(W, d1, d2) /\ roots' = <<d2, d1>>
  /\ phase' = "window"
  /\ UNCHANGED <<nodes, win>>

ChooseWindow ==
  /\ phase = "window"
  /\ \E mn, mx \in 0 .. (MaxDepth(W) + Extra) : win' = <<mn, mx>>
  /\ phase' = "done"
  /\ UNCHANGED <<nodes, roots>>

Next == AddNode \/ ChooseRoots \/ ChooseWindow

Spec == Init /\ [][Next]_vars

-----------------------------------------------------------------------------
(* Rendering (canonical spelling; spelling variants belong to C11).  The    *)
(* root spelling and the optional tokens rotate deterministically with the  *)
(* scenario so that every spelling is exercised without multiplying states. *)
Rot == Len(nodes) + win[1] + 2 * win[2] + Len(roots)

RootText(r, j) ==
  IF r = 0 THEN (CASE (Rot + j) % 4 = 0 -> "'.'" [] (Rot + j) % 4 = 1 -> "'@ROOT@'"
                   [] (Rot + j) % 4 = 2 -> "'./'" [] OTHER -> "")
  ELSE (CASE (Rot + j) % 4 = 0 -> "'" \o RelPath(W, r) \o "'"
          [] (Rot + j) % 4 = 1 -> "'@N" \o ToString(r) \o "@'"
          [] (Rot + j) % 4 = 2 -> "'./" \o RelPath(W, r) \o "'"
          [] OTHER -> "'" \o RelPath(W, r) \o "/'")

WindowText == (IF win[1] = 0 /\ Rot % 2 = 0 THEN "" ELSE " mindepth " \o ToString(win[1])) \o
              (IF win[2] = 0 /\ Rot % 3 = 0 THEN "" ELSE " maxdepth " \o ToString(win[2]))

ModeText(m) == IF m = "dfs" THEN " dfs" ELSE IF Rot % 2 = 1 THEN " bfs" ELSE ""

RECURSIVE RootsText(_, _)
RootsText(j, m) == IF j > Len(roots) THEN ""
                   ELSE (IF j > 1 THEN "," ELSE "") \o
                        (IF RootText(roots[j], j) = "" THEN "" ELSE " " \o RootText(roots[j], j))
                        \o WindowText \o ModeText(m) \o RootsText(j + 1, m)

FromText(m) == IF Len(roots) = 1 /\ RootText(roots[1], 1) = ""
               THEN WindowText \o ModeText(m)             \* default root: options without FROM
               ELSE " from" \o RootsText(1, m)

Query(m) == "select inode, path" \o FromText(m) \o " into list"

HasKind(k) == \E n \in 1 .. Len(nodes) : nodes[n].kind = k
Class == "roots=" \o ToString(Len(roots)) \o (IF roots[1] = 0 THEN "top" ELSE "sub")
         \o (IF HasKind("symlink") THEN "/link" ELSE "") \o (IF HasKind("fifo") THEN "/fifo" ELSE "")
         \o (IF win[1] = 0 THEN "/min0" ELSE "/minN") \o (IF win[2] = 0 THEN "/max0" ELSE "/maxN")

Scenario == [prop |-> "C01", class |-> Class, world |-> W,
             roots |-> roots, min |-> win[1], max |-> win[2],
             env |-> [tz |-> "UTC", cwd |-> 0],
             runs |-> << [tag |-> "bfs", ncols |-> 2, argv |-> <<Query("bfs")>>],
                         [tag |-> "dfs", ncols |-> 2, argv |-> <<Query("dfs")>>] >>]

Emit == phase = "done" => PrintT(<<"REPLAY", ToJson(Scenario)>>)
=============================================================================
