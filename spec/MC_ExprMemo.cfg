SPECIFICATION Spec
CONSTANTS
  KnownWords <- MCKnownA
INVARIANTS KeysInjective SameTextA EmitWorld EmitKey
