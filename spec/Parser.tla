-------------------------------- MODULE Parser ------------------------------
(* Mech layer: implementation-shaped model of the expression part of          *)
(* src/parser.rs - parse_expr / parse_and / parse_cond / parse_add_sub /      *)
(* parse_mul_div / parse_paren / parse_func_scalar / parse_function, the      *)
(* prefix-NOT folder (negate_expr_op, Op::negate), BETWEEN desugaring and the *)
(* short boolean syntax - over the token list of Lexer!LexAll.                *)
(* Every parse function returns [ok, e, i]: ok = FALSE models Err(..), e is   *)
(* an Expr record or the string "None" (Ok(None)), i the token cursor after   *)
(* the call (next_lexem = read and advance, drop_lexem = step back).          *)
(* Expr records have exactly the fields of the Rust struct, absent options    *)
(* being the string "None", so that they can be compared with the binary's    *)
(* own debug dump of the parsed query (Judge_Parser).                         *)
EXTENDS Lexer

Expr(left, aop, lop, op, right, minus, field, function, args, val) ==
  [left |-> left, arithmetic_op |-> aop, logical_op |-> lop, op |-> op, right |-> right, minus |-> minus,
   field |-> field, function |-> function, args |-> args, val |-> val]
(* absent values: the string "None" for enum-valued options; for Expr-valued options and the argument list a record   *)
(* of its own shape (TLC compares records of different shapes as unequal, but refuses to compare a record to a string) *)
NONE == "None"
NE == [none |-> TRUE]
IsNone(e) == DOMAIN e = {"none"}
NoArgs == [some |-> FALSE, list |-> <<>>]
(* a literal value travels as characters (a TLA+ string cannot be taken apart, and Conforms.tla has to read numbers, units and dates out of it) *)
NoVal == [some |-> FALSE, c |-> <<>>]
Val(c) == [some |-> TRUE, c |-> c]
Args(l) == [some |-> TRUE, list |-> l]
EField(f, minus) == Expr(NE, NONE, NONE, NONE, NE, minus, f, NONE, NoArgs, NoVal)
EValue(v, minus) == Expr(NE, NONE, NONE, NONE, NE, minus, NONE, NONE, NoArgs, Val(v))
EOp(l, op, r) == Expr(l, NONE, NONE, op, r, FALSE, NONE, NONE, NoArgs, NoVal)
ELogical(l, lop, r) == Expr(l, NONE, lop, NONE, r, FALSE, NONE, NONE, NoArgs, NoVal)
EArith(l, aop, r) == Expr(l, aop, NONE, NONE, r, FALSE, NONE, NONE, NoArgs, NoVal)
EFunction(fn) == Expr(NE, NONE, NONE, NONE, NE, FALSE, NONE, fn, Args(<<>>), NoVal)
Ok(e, i) == [ok |-> TRUE, e |-> e, i |-> i]
Err(i) == [ok |-> FALSE, e |-> NE, i |-> i]

(* Field::from_str / Function::from_str restricted to the names the generators use: lower-case spelling -> variant name *)
FieldOf(s) == LET t == Str(LowerSeq(s)) IN
  CASE t = "name" -> "Name" [] t = "size" -> "Size" [] t = "uid" -> "Uid" [] t = "gid" -> "Gid" [] t \in {"ext", "extension"} -> "Extension"
    [] t \in {"dir", "directory", "dirname"} -> "Directory" [] t = "path" -> "Path" [] t = "modified" -> "Modified" [] t = "hardlinks" -> "Hardlinks"
    [] t = "mode" -> "Mode" [] t = "is_dir" -> "IsDir" [] t = "is_file" -> "IsFile" [] t = "is_symlink" -> "IsSymlink" [] t = "line_count" -> "LineCount"
    [] t = "is_hidden" -> "IsHidden" [] OTHER -> NONE
BooleanFields == {"IsDir", "IsFile", "IsSymlink", "IsHidden"}
FunctionOf(s) == LET t == Str(LowerSeq(s)) IN
  CASE t \in {"length", "len"} -> "Length" [] t \in {"lower", "lowercase", "lcase"} -> "Lower" [] t \in {"upper", "uppercase", "ucase"} -> "Upper"
    [] t \in {"substr", "substring"} -> "Substring" [] t = "abs" -> "Abs" [] t \in {"power", "pow"} -> "Power" [] t = "concat" -> "Concat"
    [] t = "contains" -> "Contains" [] t \in {"curdate", "cur_date", "current_date"} -> "CurrentDate" [] OTHER -> NONE
BooleanFunctions == {"Contains"}
NoArgFunctions == {"CurrentDate"}

OpOf(s) == LET t == Str(LowerSeq(s)) IN
  CASE t \in {"=", "==", "eq"} -> "Eq" [] t \in {"!=", "<>", "ne"} -> "Ne" [] t \in {"===", "eeq"} -> "Eeq" [] t \in {"!==", "ene"} -> "Ene"
    [] t \in {">", "gt"} -> "Gt" [] t \in {">=", "gte", "ge"} -> "Gte" [] t \in {"<", "lt"} -> "Lt" [] t \in {"<=", "lte", "le"} -> "Lte"
    [] t \in {"~=", "=~", "regexp", "rx"} -> "Rx" [] t \in {"!=~", "!~=", "notrx"} -> "NotRx" [] t = "like" -> "Like" [] t = "notlike" -> "NotLike"
    [] t = "between" -> "Between" [] OTHER -> NONE
NegateOp(op) == CASE op = "Eq" -> "Ne" [] op = "Ne" -> "Eq" [] op = "Eeq" -> "Ene" [] op = "Ene" -> "Eeq" [] op = "Gt" -> "Lte" [] op = "Lt" -> "Gte"
                  [] op = "Gte" -> "Lt" [] op = "Lte" -> "Gt" [] op = "Rx" -> "NotRx" [] op = "NotRx" -> "Rx" [] op = "Like" -> "NotLike"
                  [] op = "NotLike" -> "Like" [] op = "Between" -> "NotBetween" [] op = "NotBetween" -> "Between" [] OTHER -> op
ArithOf(s) == LET t == Str(LowerSeq(s)) IN
  CASE t \in {"+", "plus"} -> "Add" [] t \in {"-", "minus"} -> "Subtract" [] t \in {"*", "mul"} -> "Multiply" [] t \in {"/", "div"} -> "Divide"
    [] t \in {"%", "mod"} -> "Modulo" [] OTHER -> NONE

RECURSIVE NegateExpr(_)
NegateExpr(e) == IF IsNone(e) THEN e
                 ELSE [e EXCEPT !.left = NegateExpr(e.left), !.right = NegateExpr(e.right),
                                !.op = IF e.op = NONE THEN NONE ELSE NegateOp(e.op),
                                !.logical_op = IF e.logical_op = "And" THEN "Or" ELSE IF e.logical_op = "Or" THEN "And" ELSE NONE]

K(toks, i) == IF i >= 1 /\ i <= Len(toks) THEN toks[i].k ELSE "eof"
S(toks, i) == toks[i].s

RECURSIVE PExpr(_, _), PAnd(_, _), PCond(_, _), PAddSub(_, _), PMulDiv(_, _), PParen(_, _), PFuncScalar(_, _), PFunction(_, _, _),
          POrTail(_, _, _, _), PAndTail(_, _, _, _), PAddTail(_, _, _), PMulTail(_, _, _), PNots(_, _, _), PArgs(_, _, _, _, _)

(* expr := and (OR and)*      the right operands are folded among themselves first: A or (B or C) *)
PExpr(toks, i) == LET l == PAnd(toks, i) IN IF ~l.ok THEN l ELSE POrTail(toks, l.i, l.e, NE)
POrTail(toks, i, left, right) ==
  IF K(toks, i) = "or"
  THEN LET r == PAnd(toks, i + 1) IN
       IF ~r.ok THEN r
       ELSE IF IsNone(right) THEN POrTail(toks, r.i, left, r.e)
       ELSE IF IsNone(r.e) THEN Err(r.i)                              \* expr.clone().unwrap() on None: a panic in the code
       ELSE POrTail(toks, r.i, left, ELogical(right, "Or", r.e))
  ELSE IF IsNone(right) THEN Ok(left, i)
  ELSE IF IsNone(left) THEN Err(i) ELSE Ok(ELogical(left, "Or", right), i)
PAnd(toks, i) == LET l == PCond(toks, i) IN IF ~l.ok THEN l ELSE PAndTail(toks, l.i, l.e, NE)
PAndTail(toks, i, left, right) ==
  IF K(toks, i) = "and"
  THEN LET r == PCond(toks, i + 1) IN
       IF ~r.ok THEN r
       ELSE IF IsNone(right) THEN PAndTail(toks, r.i, left, r.e)
       ELSE IF IsNone(r.e) THEN Err(r.i)
       ELSE PAndTail(toks, r.i, left, ELogical(right, "And", r.e))
  ELSE IF IsNone(right) THEN Ok(left, i)
  ELSE IF IsNone(left) THEN Err(i) ELSE Ok(ELogical(left, "And", right), i)

(* leading NOTs: [negate, i] *)
PNots(toks, i, neg) == IF K(toks, i) = "not" THEN PNots(toks, i + 1, ~neg) ELSE [neg |-> neg, i |-> i]
PCond(toks, i0) ==
  LET pn == PNots(toks, i0, FALSE)
      l == PAddSub(toks, pn.i)
  IN IF ~l.ok THEN l
     ELSE LET infixNot == K(toks, l.i) = "not"
              j == IF infixNot THEN l.i + 1 ELSE l.i
              res ==
                IF K(toks, j) = "operator" /\ Str(LowerSeq(S(toks, j))) = "between"
                THEN LET a == PAddSub(toks, j + 1) IN
                     IF ~a.ok THEN a
                     ELSE IF K(toks, a.i) # "and" THEN Err(a.i)
                     ELSE LET b == PAddSub(toks, a.i + 1) IN
                          IF ~b.ok THEN b
                          ELSE IF IsNone(l.e) \/ IsNone(a.e) \/ IsNone(b.e) THEN Err(b.i)
                          ELSE Ok(ELogical(EOp(l.e, IF infixNot THEN "Lt" ELSE "Gte", a.e), IF infixNot THEN "Or" ELSE "And",
                                           EOp(l.e, IF infixNot THEN "Gt" ELSE "Lte", b.e)), b.i)
                ELSE IF K(toks, j) = "operator"
                THEN LET r == PAddSub(toks, j + 1)
                         op0 == OpOf(S(toks, j))
                         op == IF op0 = NONE THEN NONE ELSE IF infixNot THEN NegateOp(op0) ELSE op0
                     IN IF ~r.ok THEN r ELSE IF IsNone(l.e) \/ op = NONE \/ IsNone(r.e) THEN Err(r.i) ELSE Ok(EOp(l.e, op, r.e), r.i)
                ELSE Ok(l.e, j)                 \* (an infix NOT without an operator stays consumed, as in the code)
          IN IF ~res.ok THEN res
             ELSE LET e == res.e
                      short == IF ~IsNone(e) /\ e.field # NONE /\ IsNone(e.left) /\ IsNone(e.right) /\ e.field \in BooleanFields
                               THEN EOp(EField(e.field, FALSE), "Eq", EValue(<<"t","r","u","e">>, FALSE))
                               ELSE IF ~IsNone(e) /\ e.field = NONE /\ e.function # NONE /\ IsNone(e.right) /\ e.args.list = <<>> /\ e.function \in BooleanFunctions
                               THEN EOp([EFunction(e.function) EXCEPT !.left = e.left], "Eq", EValue(<<"t","r","u","e">>, FALSE))
                               ELSE e
                  IN Ok(IF pn.neg /\ ~IsNone(short) THEN NegateExpr(short) ELSE short, res.i)

PAddSub(toks, i) == LET l == PMulDiv(toks, i) IN IF ~l.ok THEN l ELSE PAddTail(toks, l.i, l.e)
PAddTail(toks, i, left) ==
  IF K(toks, i) = "arith" /\ ArithOf(S(toks, i)) \in {"Add", "Subtract"}
  THEN LET r == PMulDiv(toks, i + 1) IN
       IF ~r.ok THEN r
       ELSE IF IsNone(left) THEN PAddTail(toks, r.i, r.e)
       ELSE IF IsNone(r.e) THEN Err(r.i) ELSE PAddTail(toks, r.i, EArith(left, ArithOf(S(toks, i)), r.e))
  ELSE Ok(left, i)
PMulDiv(toks, i) == LET l == PParen(toks, i) IN IF ~l.ok THEN l ELSE PMulTail(toks, l.i, l.e)
PMulTail(toks, i, left) ==
  IF K(toks, i) = "arith" /\ ArithOf(S(toks, i)) \in {"Multiply", "Divide", "Modulo"}
  THEN LET r == PParen(toks, i + 1) IN
       IF ~r.ok THEN r
       ELSE IF IsNone(left) THEN PMulTail(toks, r.i, r.e)
       ELSE IF IsNone(r.e) THEN Err(r.i) ELSE PMulTail(toks, r.i, EArith(left, ArithOf(S(toks, i)), r.e))
  ELSE Ok(left, i)

PParen(toks, i) ==
  IF K(toks, i) \in {"open", "curlyopen"}
  THEN LET r == PExpr(toks, i + 1)
           closing == IF K(toks, i) = "open" THEN "close" ELSE "curlyclose"
       IN IF ~r.ok THEN r ELSE IF K(toks, r.i) = closing THEN Ok(r.e, r.i + 1) ELSE Err(r.i + 1)
  ELSE PFuncScalar(toks, i)

PFuncScalar(toks, i0) ==
  LET isArith == K(toks, i0) = "arith"
      minus == isArith /\ S(toks, i0) = <<"-">>
      plus == isArith /\ S(toks, i0) = <<"+">>
      i == IF minus \/ plus THEN i0 + 1 ELSE i0          \* any other arithmetic token is looked at again and fails below
  IN IF minus /\ K(toks, i) \in {"open", "curlyopen"}
     THEN LET r == PParen(toks, i) IN IF ~r.ok \/ IsNone(r.e) THEN r ELSE Ok([r.e EXCEPT !.minus = ~@], r.i)
     ELSE IF K(toks, i) = "string" THEN Ok(EValue(S(toks, i), minus), i + 1)
     ELSE IF K(toks, i) = "raw"
     THEN IF FieldOf(S(toks, i)) # NONE THEN Ok(EField(FieldOf(S(toks, i)), minus), i + 1)
          ELSE IF FunctionOf(S(toks, i)) # NONE
          THEN LET r == PFunction(toks, i + 1, FunctionOf(S(toks, i))) IN IF ~r.ok THEN r ELSE Ok([r.e EXCEPT !.minus = minus], r.i)
          ELSE Ok(EValue((IF plus THEN <<"+">> ELSE <<>>) \o S(toks, i), minus), i + 1)
     ELSE Err(i + 1)

PFunction(toks, i, fn) ==
  IF K(toks, i) = "eof" THEN
     (LET a == PExpr(toks, i) IN Ok(EFunction(fn), i))                 \* no token at all: parse_expr fails, the bare function is returned
  ELSE IF K(toks, i) \notin {"open", "curlyopen"}
  THEN IF fn \in BooleanFunctions \cup NoArgFunctions THEN Ok(EFunction(fn), i) ELSE Err(i)
  ELSE LET curly == K(toks, i) = "curlyopen"
           a == PExpr(toks, i + 1)
       IN IF ~a.ok \/ IsNone(a.e) THEN Ok(EFunction(fn), IF a.ok THEN a.i ELSE i + 1)
          ELSE PArgs(toks, a.i, [EFunction(fn) EXCEPT !.left = a.e], <<>>, curly)
PArgs(toks, i, fe, args, curly) ==
  IF K(toks, i) = "comma"
  THEN LET a == PExpr(toks, i + 1) IN IF ~a.ok \/ IsNone(a.e) THEN Err(a.i) ELSE PArgs(toks, a.i, fe, Append(args, a.e), curly)
  ELSE IF (K(toks, i) = "close" /\ ~curly) \/ (K(toks, i) = "curlyclose" /\ curly) THEN Ok([fe EXCEPT !.args = Args(args)], i + 1)
  ELSE Err(i + 1)

(* parse_fields: the select list - expressions separated by commas up to the first token that cannot start one (FROM, WHERE, ...)  *)
(* or that spells a root option; `select` itself is skipped wherever it stands.  Returns [ok, list, i].  Not modelled (the model   *)
(* abstains, ok = FALSE): `*` as a column and a column list that runs into GROUP BY.                                              *)
StartsWith(s, p) == Len(s) >= Len(p) /\ SubSeq(s, 1, Len(p)) = p
IsRootOptionWord(low) ==            \* is_root_option_keyword
  \/ low \in { <<"d","e","p","t","h">>, <<"m","i","n","d","e","p","t","h">>, <<"m","a","x","d","e","p","t","h">>, <<"b","f","s">>, <<"d","f","s">> }
  \/ \E p \in { <<"a","r","c">>, <<"s","y","m">>, <<"g","i","t">>, <<"h","g">>, <<"d","o","c","k">>, <<"n","o","g","i","t">>, <<"n","o","h","g">>,
                 <<"n","o","d","o","c","k">>, <<"r","e","g","e","x">> } : StartsWith(low, p)
RECURSIVE PFields(_, _, _)
PFields(toks, i, acc) ==
  IF K(toks, i) = "comma" THEN PFields(toks, i + 1, acc)
  ELSE IF K(toks, i) \in {"string", "raw", "arith"} THEN
     LET low == LowerSeq(S(toks, i)) IN
     IF low = <<"s","e","l","e","c","t">> THEN PFields(toks, i + 1, acc)
     ELSE IF S(toks, i) = <<"*">> \/ low = <<"g","r","o","u","p">> THEN [ok |-> FALSE, list |-> acc, i |-> i]
     ELSE IF IsRootOptionWord(low) THEN [ok |-> acc # <<>>, list |-> acc, i |-> i]
     ELSE LET e == PExpr(toks, i) IN
          IF ~e.ok THEN [ok |-> FALSE, list |-> acc, i |-> e.i]
          ELSE IF e.i = i THEN [ok |-> FALSE, list |-> acc, i |-> i]                 \* (nothing consumed: the code would not advance either)
          ELSE PFields(toks, e.i, IF IsNone(e.e) THEN acc ELSE Append(acc, e.e))
  ELSE IF K(toks, i) \in {"open", "curlyopen"} THEN
     LET e == PExpr(toks, i) IN
     IF ~e.ok THEN [ok |-> FALSE, list |-> acc, i |-> e.i] ELSE PFields(toks, e.i, IF IsNone(e.e) THEN acc ELSE Append(acc, e.e))
  ELSE [ok |-> acc # <<>>, list |-> acc, i |-> i]
ParseFields(toks) == PFields(toks, 1, <<>>)

(* parse_where on a whole query: the expression after the WHERE token, "None" without WHERE *)
WhereIndex(toks) == IF \E i \in 1 .. Len(toks) : toks[i].k = "where" THEN CHOOSE i \in 1 .. Len(toks) : toks[i].k = "where" /\ \A j \in 1 .. i - 1 : toks[j].k # "where" ELSE 0
ParseWhere(toks) == IF WhereIndex(toks) = 0 THEN Ok(NE, 1) ELSE PExpr(toks, WhereIndex(toks) + 1)
=============================================================================
