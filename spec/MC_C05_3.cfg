SPECIFICATION Spec
CONSTANTS
  MaxKeys = 3
  KeyCols = {"ext", "name", "is_dir"}
  WorldSel = {0}
INVARIANTS EmitWorld Emit
