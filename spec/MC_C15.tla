------------------------------- MODULE MC_C15 -------------------------------
(* Binding layer, scenario generator for C15.  Scenario kinds:               *)
(*   one     a single expression column (every tree with one operator over   *)
(*           six leaves; every tree with two operators over three leaves,    *)
(*           both association shapes; unary minus on leaves and brackets)    *)
(*   pairop  two columns differing only in the operator                      *)
(*   pairbr  two columns differing only in bracket placement                 *)
(*   where   WHERE <expression> OP literal                                   *)
(*   list    a select list of five expressions in two orders                 *)
EXTENDS WorldC02, Arith, Lang, Json, FiniteSets

VARIABLES kind, exprs, wop, wlit, style, lits, phase
vars == <<kind, exprs, wop, wlit, style, lits, phase>>

Big15(i, nm, sz, szn) == N(i, 0, "file", nm, <<>>, 420, 0, 0, T0 + i, 0, -3) @@ [bigsize |-> sz, bign |-> szn]
F15(i, nm, sz, lt) == N(i, 0, "file", nm, Runs(sz, 0), 420, 0, 0, T0 + i, lt, -3)
W15 == [nodes |-> << F15(1, <<"a","a">>, 12, 0), F15(2, <<"b","b","b">>, 7, 0), F15(3, <<"c","c">>, 7, 2),
                     F15(4, <<"d","d","d","d">>, 100, 0), F15(5, <<"e">>, 0, 0), F15(6, <<"f","f","f","f","f">>, 3, 0),
                     [F15(7, <<"g","g">>, 0, 0) EXCEPT !.content = Runs(5, 3)] >>]
(* the same tree with sparse files whose sizes differ by one in the ninth digit (for comparisons between large values) *)
W15b == [nodes |-> W15.nodes \o << Big15(8, <<"h","8">>, "99999999", 99999999), Big15(9, <<"h","9">>, "100000000", 100000000),
                                    Big15(10, <<"h","1","0">>, "100000001", 100000001),
                                    Big15(11, <<"h","1","1">>, "999999999", 999999999), Big15(12, <<"h","1","2">>, "1000000007", 1000000007) >>]

Leaves6 == {"2", "3", "10", "size", "hardlinks", "length(name)"}
Leaves3 == {"2", "3", "size"}
One == { <<o, a, b>> : o \in BinOps, a \in Leaves6, b \in Leaves6 }
TwoL == { <<o2, o1, a, b, c>> : o1 \in BinOps, o2 \in BinOps, a \in Leaves3, b \in Leaves3, c \in Leaves3 }      \* (a o1 b) o2 c
TwoR == { <<o1, a, o2, b, c>> : o1 \in BinOps, o2 \in BinOps, a \in Leaves3, b \in Leaves3, c \in Leaves3 }      \* a o1 (b o2 c)
Negs == { <<"neg", a>> : a \in Leaves6 } \cup { <<o, <<"neg">>[1], a, b>> : o \in {"+", "*", "-"}, a \in {"size", "3"}, b \in {"size", "2"} }
        \cup { <<o, a, "neg", b>> : o \in {"+", "*", "-"}, a \in {"size", "3"}, b \in {"size", "2"} }
        \cup { <<"neg", o, a, b>> : o \in {"+", "*"}, a \in {"size", "3"}, b \in {"hardlinks", "2"} }
        \* a minus directly after an opening bracket: c * (-a o b), c - (-a), (-(a o b)) o c
        \cup { <<"*", c, o, "neg", a, b>> : c \in {"2"}, o \in {"+", "-"}, a \in {"size", "3", "length(name)"}, b \in {"20", "size"} }
        \cup { <<"-", c, "neg", a>> : c \in {"2", "size"}, a \in {"size", "3"} }
        \cup { <<"*", "2", "-", "neg", "+", "size", "1", "3">> }
        \* a negation of a negation: -(-x), -(-(a + b)), c - -(-3)
        \cup { <<"neg", "neg", a>> : a \in {"size", "3", "length(name)"} }
        \cup { <<"neg", "neg", "+", "size", "1">>, <<"-", "10", "neg", "neg", "3">>, <<"neg", "neg", "neg", "size">>, <<"*", "neg", "neg", "size", "2">> }

(* written without blanks (`line_count+1`, `2*size`): one operator, columns with and without an underscore in their names *)
Tight == { <<o, a, b>> : o \in {"+", "-", "*"}, a \in {"size", "hardlinks", "line_count"}, b \in {"1", "2", "line_count"} }
         \cup { <<o, "2", b>> : o \in {"+", "*"}, b \in {"size", "line_count"} }
Init == kind = "" /\ exprs = <<>> /\ wop = "" /\ wlit = 0 /\ style = "min" /\ lits = <<>> /\ phase = "start"
ChooseOne == /\ phase = "start" /\ kind' = "one" /\ \E e \in One \cup TwoL \cup TwoR \cup Negs : exprs' = <<e>>
             /\ style' \in {"min", "full"} /\ wop' = "" /\ wlit' = 0 /\ phase' = "done"
ChooseTight == /\ phase = "start" /\ kind' = "one" /\ \E e \in Tight : exprs' = <<e>>
               /\ style' = "tight" /\ wop' = "" /\ wlit' = 0 /\ phase' = "done"
ChoosePairOp == /\ phase = "start" /\ kind' = "pairop"
                /\ \E a \in Leaves6, b \in Leaves6, o1 \in BinOps, o2 \in BinOps : o1 # o2 /\ exprs' = << <<o1, a, b>>, <<o2, a, b>> >>
                /\ style' = "min" /\ wop' = "" /\ wlit' = 0 /\ phase' = "done"
ChoosePairBr == /\ phase = "start" /\ kind' = "pairbr"
                /\ \E a \in Leaves3, b \in Leaves3, c \in Leaves3, o1 \in BinOps, o2 \in BinOps, flip \in BOOLEAN :
                     exprs' = IF flip THEN << <<o2, o1, a, b, c>>, <<o1, a, o2, b, c>> >> ELSE << <<o1, a, o2, b, c>>, <<o2, o1, a, b, c>> >>
                /\ style' = "min" /\ wop' = "" /\ wlit' = 0 /\ phase' = "done"
ChooseWhere == /\ phase = "start" /\ kind' = "where"
               /\ \E e \in One \cup Negs : exprs' = <<e>>
               /\ wop' \in {"gt", "eq", "lte"} /\ wlit' \in {0, 5, 14, 24, 0 - 5, 0 - 14} /\ style' = "min" /\ phase' = "done"
(* comparisons between large values that differ by one (equality is exact whatever the magnitude) *)
ChooseBigWhere == /\ phase = "start" /\ kind' = "where"
                  /\ exprs' \in { << <<"+", "size", "0">> >>, << <<"*", "size", "1">> >>, << <<"-", "size", "1">> >>, << <<"+", "size", "1">> >> }
                  /\ wop' \in {"eq", "ne", "gt", "lte"} /\ wlit' \in {100000000, 99999999, 999999999, 1000000007} /\ style' = "min" /\ phase' = "done"
Lists == { << <<"+", "size", "1">>, <<"-", "size", "1">>, <<"*", "size", "2">>, <<"neg", "size">>, <<"+", "*", "2", "3", "4">> >>,
           << <<"+", "*", "2", "3", "4">>, <<"neg", "size">>, <<"*", "size", "2">>, <<"-", "size", "1">>, <<"+", "size", "1">> >>,
           << <<"*", "+", "2", "3", "4">>, <<"+", "2", "*", "3", "4">>, <<"%", "size", "5">>, <<"/", "size", "1">>, <<"size">> >>,
           \* the same negated bracket more than once in a row, alone and as a sub-expression
           << <<"*", "neg", "+", "size", "1", "2">>, <<"neg", "+", "size", "1">>, <<"neg", "+", "size", "1">>, <<"+", "size", "1">> >>,
           << <<"neg", "%", "size", "5">>, <<"%", "size", "5">>, <<"neg", "%", "size", "5">>, <<"-", "10", "neg", "*", "size", "2">>, <<"neg", "*", "size", "2">> >>,
           \* a remainder with a negative dividend (the sign of the result follows the dividend)
           << <<"%", "neg", "size", "3">>, <<"%", "size", "3">>, <<"%", "-", "2", "size", "4">>, <<"neg", "size">> >>,
           \* the same negated function call more than once in a row, alone and inside a sum
           << <<"+", "neg", "length(name)", "1">>, <<"neg", "length(name)">>, <<"neg", "length(name)">>, <<"length(name)">>, <<"-", "size", "neg", "length(name)">> >> }
ChooseList == /\ phase = "start" /\ kind' = "list" /\ exprs' \in Lists /\ style' = "min" /\ wop' = "" /\ wlit' = 0 /\ phase' = "done"
(* text literals that spell the internal name of a column or of an expression selected next to them (the key of the per-row value   *)
(* cache): each column shows its own value - the literal its text, the expression its number - in either order                      *)
KeyTexts == << <<"S","i","z","e">>, <<"(","S","i","z","e"," ","+"," ","1",")">>, <<"L","e","n","g","t","h","(","N","a","m","e",")">>, <<"H","a","r","d","l","i","n","k","s">> >>
(* function calls whose text arguments render to the same text when written without quotes: `concat('a, b')` and `concat('a', 'b')` *)
ChooseArgText == /\ phase = "start" /\ kind' = "argtext" /\ exprs' = <<>> /\ lits' = << <<"a",","," ","b">>, <<"a","b">>, <<"a",","," ","b">> >>
                 /\ style' = "min" /\ wop' = "" /\ wlit' = 0 /\ phase' = "done"
(* products beyond 64 bits: the factors travel as digit texts in `lits`, the judge multiplies them exactly (BigNat) and accepts the *)
(* printed value within relative 10^-9 (such values are floating-point numbers)                                                    *)
BigSets == { << <<"3","0","0","0","0","0","0","0","0","0">>, <<"4">>, <<"1","0","0","0","0","0","0","0","0","0">> >>,
             << <<"4","2","9","4","9","6","7","2","9","6">>, <<"4","2","9","4","9","6","7","2","9","6">> >>,
             << <<"2","1","4","7","4","8","3","6","4","8">>, <<"2">> >>,
             << <<"9","2","2","3","3","7","2","0","3","6","8","5","4","7","7","5","8","0","7">>, <<"3">> >> }
ChooseBig == /\ phase = "start" /\ kind' = "bigproduct" /\ exprs' = <<>> /\ lits' \in BigSets
             /\ style' = "min" /\ wop' = "" /\ wlit' = 0 /\ phase' = "done"
ChooseKeyText == /\ phase = "start" /\ kind' \in {"keytext-after", "keytext-before"}
                 /\ exprs' = << <<"size">>, <<"+", "size", "1">>, <<"length(name)">>, <<"hardlinks">> >> /\ lits' = KeyTexts
                 /\ style' = "min" /\ wop' = "" /\ wlit' = 0 /\ phase' = "done"
Next == ((ChooseOne \/ ChooseTight \/ ChooseBigWhere \/ ChoosePairOp \/ ChoosePairBr \/ ChooseWhere \/ ChooseList) /\ lits' = <<>>) \/ ChooseKeyText \/ ChooseArgText \/ ChooseBig
Spec == Init /\ [][Next]_vars

RECURSIVE ColsText(_)
ColsText(i) == IF i > Len(exprs) THEN "" ELSE ", " \o ArithText(exprs[i], style) \o ColsText(i + 1)
RECURSIVE ProdText(_)
ProdText(i) == IF i > Len(lits) THEN "" ELSE (IF i > 1 THEN " * " ELSE "") \o Str(lits[i]) \o ProdText(i + 1)
RECURSIVE LitsText(_)
LitsText(i) == IF i > Len(lits) THEN "" ELSE ", '" \o Str(lits[i]) \o "'" \o LitsText(i + 1)
HasTok(t) == \E j \in 1 .. Len(exprs) : \E i \in 1 .. Len(exprs[j]) : exprs[j][i] = t
NegOnColumn == \E j \in 1 .. Len(exprs) : \E i \in 1 .. Len(exprs[j]) - 1 :
                  exprs[j][i] = "neg" /\ exprs[j][i + 1] \in {"size", "hardlinks", "length(name)"}
NegOnBracket == \E j \in 1 .. Len(exprs) : \E i \in 1 .. Len(exprs[j]) - 1 : exprs[j][i] = "neg" /\ exprs[j][i + 1] \in BinOps
BareLiteral == kind = "where" /\ exprs[1][1] = "neg" /\ \A i \in 1 .. Len(exprs[1]) : exprs[1][i] \in {"neg", "2", "3", "10"}      \* a negated literal: no column, no operator
Class == kind \o (IF kind = "where" /\ wlit > 1000 THEN "/large" ELSE "") \o (IF BareLiteral THEN "/bare-literal" ELSE "") \o (IF NegOnColumn THEN "/minus-column" ELSE "") \o (IF NegOnBracket THEN "/minus-bracket" ELSE "")
         \o (IF HasTok("neg") /\ ~NegOnColumn /\ ~NegOnBracket THEN "/minus-number" ELSE "") \o "/" \o style
Query == IF kind = "where"
         THEN "select path from '.' where " \o ArithText(exprs[1], style) \o " " \o OpText(wop) \o " " \o ToString(wlit) \o " into list"
         ELSE IF kind = "bigproduct" THEN "select path, " \o ProdText(1) \o " from '.' into list"
         ELSE IF kind = "argtext" THEN "select path, concat('a, b'), concat('a', 'b'), concat('a, b') from '.' into list"
         ELSE IF kind = "keytext-before" THEN "select path" \o LitsText(1) \o ColsText(1) \o " from '.' into list"
         ELSE "select path" \o ColsText(1) \o LitsText(1) \o " from '.' into list"
Scenario == [prop |-> "C15", world |-> (IF kind = "where" /\ wlit > 1000 THEN "W15b" ELSE "W15"), class |-> Class, kind |-> kind, exprs |-> exprs, wop |-> wop, wlit |-> wlit, lits |-> lits,
             env |-> [tz |-> "UTC", cwd |-> 0],
             runs |-> << [tag |-> "q", ncols |-> IF kind = "where" THEN 1 ELSE IF kind = "bigproduct" THEN 2 ELSE 1 + Len(exprs) + Len(lits), chars |-> TRUE, argv |-> << Query >>] >>]
EmitWorld == (phase = "start") => PrintT(<<"WORLD", ToJson([key |-> "W15", world |-> W15])>>) /\ PrintT(<<"WORLD", ToJson([key |-> "W15b", world |-> W15b])>>)
Emit == phase = "done" => PrintT(<<"REPLAY", ToJson(Scenario)>>)
=============================================================================
