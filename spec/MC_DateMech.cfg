SPECIFICATION Spec
INVARIANTS SameText AbsAgrees RelAgrees
CHECK_DEADLOCK FALSE
