------------------------------ MODULE ExprEval ------------------------------
(* Mech layer: Searcher::get_column_expr_value (src/searcher.rs) over the    *)
(* Parser model's trees - how the value of a select-list or WHERE operand    *)
(* expression is computed for one entry, with the per-row cache (file_map)   *)
(* that is keyed by the text of the expression (ExprKey!ExprText) and shared *)
(* by all columns of the row.  Numbers are modelled as integers: a result    *)
(* that is not a whole number, a division by zero and text operands make the *)
(* model abstain (ok = FALSE, which spreads to whatever is computed from it).*)
(*   f      the entry: [size, hardlinks, lines, name]                               *)
(*   cache  a set of <<key, ok, v>> with at most one triple per key          *)
(* EV returns [ok, v, cache]: the value and the cache after the call.        *)
EXTENDS ExprKey

Hit(cache, k) == \E p \in cache : p[1] = k
Get(cache, k) == CHOOSE p \in cache : p[1] = k
Put(cache, k, ok, v) == { p \in cache : p[1] # k } \cup { <<k, ok, v>> }            \* HashMap::insert replaces
R(ok, v, cache) == [ok |-> ok, v |-> v, cache |-> cache]
Neg(minus, v) == IF minus THEN 0 - v ELSE v                                          \* apply_minus
AbsI(x) == IF x < 0 THEN 0 - x ELSE x
SgnI(x) == IF x < 0 THEN 0 - 1 ELSE 1
(* ArithmeticOp::calc on floating-point numbers, where the result is a whole number *)
Calc(op, a, b) ==
  CASE op = "Add" -> [ok |-> TRUE, v |-> a + b]
    [] op = "Subtract" -> [ok |-> TRUE, v |-> a - b]
    [] op = "Multiply" -> [ok |-> TRUE, v |-> a * b]
    [] op = "Divide" -> IF b # 0 /\ AbsI(a) % AbsI(b) = 0 THEN [ok |-> TRUE, v |-> SgnI(a) * SgnI(b) * (AbsI(a) \div AbsI(b))] ELSE [ok |-> FALSE, v |-> 0]
    [] op = "Modulo" -> IF b # 0 THEN [ok |-> TRUE, v |-> SgnI(a) * (AbsI(a) % AbsI(b))] ELSE [ok |-> FALSE, v |-> 0]      \* the sign of the dividend (fmod)
    [] OTHER -> [ok |-> FALSE, v |-> 0]

IsLiteral(e) == e.function = NONE /\ e.field = NONE /\ IsNone(e.left) /\ e.val.some
FieldVal(fd, f) == CASE fd = "Size" -> [ok |-> TRUE, v |-> f.size] [] fd = "Hardlinks" -> [ok |-> TRUE, v |-> f.hardlinks]
                     [] fd = "LineCount" -> [ok |-> TRUE, v |-> f.lines] [] OTHER -> [ok |-> FALSE, v |-> 0]

RECURSIVE EV(_, _, _)
EV(e, f, cache) ==
  IF IsNone(e) THEN R(FALSE, 0, cache)
  \* a literal is its own value and bypasses the cache (Variant::from_signed_string)
  ELSE IF IsLiteral(e) THEN R(AllDigits(e.val.c), IF AllDigits(e.val.c) THEN Neg(e.minus, NatOfDigits(e.val.c)) ELSE 0, cache)
  ELSE LET k == ExprText(e) IN
  IF Hit(cache, k) THEN LET p == Get(cache, k) IN R(p[2], p[3], cache)
  ELSE IF e.function # NONE THEN
     \* get_function_value: the first argument is evaluated (and cached) first; LENGTH counts the characters of its text
     LET a == EV(e.left, f, cache)
         isLen == e.function = "Length" /\ ~IsNone(e.left) /\ e.left.field = "Name" /\ ~e.left.minus /\ e.args.list = <<>>
         v == Neg(e.minus, Len(f.name))
     IN R(isLen, IF isLen THEN v ELSE 0, Put(a.cache, k, isLen, IF isLen THEN v ELSE 0))
  ELSE IF e.field # NONE THEN
     LET x == FieldVal(e.field, f) IN R(x.ok, Neg(e.minus, x.v), Put(cache, k, x.ok, Neg(e.minus, x.v)))
  ELSE IF e.val.some THEN R(FALSE, 0, cache)
  ELSE IF ~IsNone(e.left) THEN
     LET l == EV(e.left, f, cache) IN
     IF e.arithmetic_op # NONE /\ ~IsNone(e.right)
     THEN LET r == EV(e.right, f, l.cache)
              c == IF l.ok /\ r.ok THEN Calc(e.arithmetic_op, l.v, r.v) ELSE [ok |-> FALSE, v |-> 0]
          IN R(c.ok, Neg(e.minus, c.v), Put(r.cache, k, c.ok, Neg(e.minus, c.v)))
     ELSE l                                                   \* (no operator: the operand's value; the node's own minus is not looked at)
  ELSE R(FALSE, 0, cache)

(* the columns of a row, left to right, over one cache: the sequence of [ok, v] *)
RECURSIVE RowVals(_, _, _)
RowVals(es, f, cache) == IF es = <<>> THEN <<>>
                         ELSE LET x == EV(es[1], f, cache) IN <<[ok |-> x.ok, v |-> x.v]>> \o RowVals(Tail(es), f, x.cache)
=============================================================================
