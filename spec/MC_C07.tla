------------------------------- MODULE MC_C07 -------------------------------
(* Binding layer, scenario generator for C07: aggregate lists x aggregated   *)
(* column x WHERE filter over world W7.  One TLC state per scenario.         *)
EXTENDS WorldC07, Lang, Json, FiniteSets

VARIABLES fns, col, flt, wrap, phase
vars == <<fns, col, flt, wrap, phase>>

Fns == {"count", "sum", "min", "max", "avg", "var_pop", "var_samp", "stddev_pop", "stddev_samp"}
Lists == { <<f>> : f \in Fns } \cup
         { <<"count", "sum", "avg">>, <<"avg", "sum", "count">>, <<"min", "max">>, <<"var_pop", "avg", "var_samp">>,
           <<"stddev_pop", "stddev_samp", "count">>, <<"sum", "min", "max", "avg", "count", "var_pop", "var_samp", "stddev_pop", "stddev_samp">> }
Cols == {"size", "hardlinks", "uid", "line_count", "length(name)", "size * 2", "size + 1"}

LikeA(c) == A1("name", "like", TextL(<<c, "%">>), "")
Filters == [ all |-> <<"T">>, a |-> <<"A">>, b |-> <<"B">>, c |-> <<"C">>, d |-> <<"D">>, none |-> <<"Z">>,
             one |-> <<"E">>, ab |-> <<"or", "A", "B">>, notd |-> <<"not", "D">>,
             e |-> <<"F">>, ae |-> <<"or", "A", "F">>, sa |-> <<"or", "S", "A">>, se |-> <<"or", "S", "F">>,
             h |-> <<"H">>, ah |-> <<"or", "A", "H">> ]
FAtoms == [ A |-> LikeA("a"), B |-> LikeA("b"), C |-> LikeA("c"), D |-> LikeA("d"), Z |-> LikeA("z"),
            E |-> A1("name", "eq", TextL(<<"a","1",".","t","x","t">>), ""), F |-> LikeA("e"), S |-> LikeA("s"), H |-> LikeA("h"), T |-> A1("length(name)", "gte", IntL(0), "") ]
SmallOnly == {"a", "b", "none", "one", "ab", "e", "ae", "sa", "se", "h", "ah"}      \* filters that keep the sparse giants away from line_count

Init == fns = <<>> /\ col = "" /\ flt = "" /\ wrap = "" /\ phase = "start"
Choose == /\ phase = "start"
          /\ fns' \in Lists /\ col' \in Cols
          /\ flt' \in (IF col' = "line_count" THEN SmallOnly ELSE DOMAIN Filters)
          \* wrap: every aggregate of the list stands inside a scalar function or an arithmetic expression that leaves its value as it is
          /\ wrap' \in (IF col' \in {"size", "hardlinks"} /\ \A i \in 1 .. Len(fns') : fns'[i] \in {"count", "sum", "min", "max"} THEN {"", "abs", "plus0"} ELSE {""})
          /\ phase' = "done"
Next == Choose
Spec == Init /\ [][Next]_vars

FnText0(f) == IF f = "count" THEN "count(*)" ELSE f \o "(" \o col \o ")"
FnText(f) == CASE wrap = "abs" -> "abs(" \o FnText0(f) \o ")" [] wrap = "plus0" -> "0 + " \o FnText0(f) [] OTHER -> FnText0(f)
RECURSIVE ListText(_)
ListText(i) == IF i > Len(fns) THEN "" ELSE (IF i > 1 THEN ", " ELSE "") \o FnText(fns[i]) \o ListText(i + 1)
WhereText == IF flt = "all" THEN "" ELSE " where " \o FormulaText(Filters[flt], FAtoms, "min")

RECURSIVE FnsClass(_)
FnsClass(i) == IF i > Len(fns) THEN "" ELSE (IF i > 1 THEN "+" ELSE "") \o fns[i] \o FnsClass(i + 1)
Scenario == [prop |-> "C07", world |-> "W7", class |-> FnsClass(1) \o "/" \o col \o "/" \o flt \o (IF wrap = "" THEN "" ELSE "/inside-" \o wrap),
             fns |-> fns, col |-> col, keys |-> <<>>,
             formula |-> [f |-> "prefix", toks |-> Filters[flt], atoms |-> FAtoms],
             env |-> [tz |-> "UTC", cwd |-> 0],
             runs |-> << [tag |-> "q", ncols |-> Len(fns), chars |-> TRUE,
                          argv |-> << "select " \o ListText(1) \o " from '.'" \o WhereText \o " into list" >>] >>]
EmitWorld == (phase = "start") => PrintT(<<"WORLD", ToJson([key |-> "W7", world |-> W7])>>)
Emit == phase = "done" => PrintT(<<"REPLAY", ToJson(Scenario)>>)
=============================================================================
