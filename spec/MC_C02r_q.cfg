SPECIFICATION Spec
CONSTANTS
  Seeds = {1, 2}
INVARIANTS EmitWorld Emit
