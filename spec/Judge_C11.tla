----------------------------- MODULE Judge_C11 ------------------------------
(* Binding layer, trace judge for C11: the variant rendering must be parsed  *)
(* to the same query (the binary's own debug dump of the parsed Query) and   *)
(* must print the same output as the canonical rendering of the same         *)
(* abstract query.                                                           *)
EXTENDS Integers, Sequences, TLC, Json, IOUtils

Rec == ndJsonDeserialize(IOEnv.OBS)
VARIABLE l

Verdict(r) ==
  LET c == r.obs.canon  v == r.obs.variant
      y == IF c.timed_out \/ v.timed_out THEN "timeout"
           ELSE IF c.panic \/ v.panic THEN "crash"
           ELSE IF c.status = 2 \/ c.parsed = "" THEN "canonical-rendering-rejected"
           ELSE IF v.status = 2 THEN "spelling-rejected"
           ELSE IF v.parsed # c.parsed THEN "parsed-differently"
           \* group rows without ORDER BY come in no particular order: compare the sorted lines there
           ELSE IF (IF r.unordered THEN v.lines_sorted # c.lines_sorted ELSE v.text # c.text) \/ v.status # c.status THEN "different-rows"
           ELSE "ok"
  IN [id |-> r.id, ok |-> (y = "ok"), class |-> r.class, why |-> y, key |-> "C11/" \o r.class \o "/" \o y,
      nontrivial |-> (c.status # 2 /\ c.nbytes > 0)]

Init == l = 1
Next == /\ l <= Len(Rec)
        /\ PrintT(<<"VERDICT", ToJson(Verdict(Rec[l]))>>)
        /\ l' = l + 1
Spec == Init /\ [][Next]_l
Judged == PrintT(<<"JUDGED", ToJson([n |-> TLCGet("stats").diameter - 1])>>)
=============================================================================
