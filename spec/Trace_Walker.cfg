SPECIFICATION TSpec
CONSTANTS
  MaxN = 0
  Kinds = {}
  Extra = 0
  Limits = {}
  TwoRoots = FALSE
INVARIANT TraceInv
CHECK_DEADLOCK FALSE
