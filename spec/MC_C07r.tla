------------------------------- MODULE MC_C07r ------------------------------
(* Binding layer, second scenario generator for C07: aggregate lists x       *)
(* aggregated column x filter over the pseudo-random trees of WorldRnd       *)
(* (sizes, line counts and name lengths on digit-count boundaries; entries   *)
(* without a line count).                                                    *)
EXTENDS WorldRnd, Lang, Json, FiniteSets

CONSTANTS Seeds
VARIABLES seed, fns, col, flt, phase
vars == <<seed, fns, col, flt, phase>>

Lists == { <<f>> : f \in {"count", "sum", "min", "max", "avg", "var_pop", "stddev_samp"} } \cup
         { <<"count", "sum", "avg">>, <<"min", "max">>, <<"sum", "min", "max", "avg", "count", "var_pop", "var_samp", "stddev_pop", "stddev_samp">> }
Cols == {"size", "uid", "line_count", "length(name)"}
Filters == [ all |-> <<"T">>, files |-> <<"F">>, big |-> <<"B">>, nottxt |-> <<"not", "X">>, bigortxt |-> <<"or", "B", "X">> ]
FAtoms == [ T |-> A1("length(name)", "gte", IntL(0), ""), F |-> A1("is_file", "istrue", BoolL(TRUE, ""), ""), B |-> A1("size", "gt", IntL(99), ""),
            X |-> A1("name", "like", TextL(<<"%",".","t","x","t">>), "") ]

Init == seed = 0 /\ fns = <<>> /\ col = "" /\ flt = "" /\ phase = "start"
Choose == /\ phase = "start" /\ seed' \in Seeds /\ fns' \in Lists /\ col' \in Cols /\ flt' \in DOMAIN Filters /\ phase' = "done"
Next == Choose
Spec == Init /\ [][Next]_vars

FnText(f) == IF f = "count" THEN "count(*)" ELSE f \o "(" \o col \o ")"
RECURSIVE ListText(_)
ListText(i) == IF i > Len(fns) THEN "" ELSE (IF i > 1 THEN ", " ELSE "") \o FnText(fns[i]) \o ListText(i + 1)
WhereText == IF flt = "all" THEN "" ELSE " where " \o FormulaText(Filters[flt], FAtoms, "min")
RECURSIVE FnsClass(_)
FnsClass(i) == IF i > Len(fns) THEN "" ELSE (IF i > 1 THEN "+" ELSE "") \o fns[i] \o FnsClass(i + 1)
Scenario == [prop |-> "C07", world |-> "R" \o ToString(seed), class |-> "rnd/" \o FnsClass(1) \o "/" \o col \o "/" \o flt,
             fns |-> fns, col |-> col, keys |-> <<>>,
             formula |-> [f |-> "prefix", toks |-> Filters[flt], atoms |-> FAtoms],
             env |-> [tz |-> "UTC", cwd |-> 0],
             runs |-> << [tag |-> "q", ncols |-> Len(fns), chars |-> TRUE,
                          argv |-> << "select " \o ListText(1) \o " from '.'" \o WhereText \o " into list" >>] >>]
EmitWorld == (phase = "start") => \A s \in Seeds : PrintT(<<"WORLD", ToJson([key |-> "R" \o ToString(s), world |-> RndWorld(s)])>>)
Emit == phase = "done" => PrintT(<<"REPLAY", ToJson(Scenario)>>)
=============================================================================
