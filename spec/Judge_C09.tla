----------------------------- MODULE Judge_C09 ------------------------------
(* Binding layer, trace judge for C09: the characters of stdout in the       *)
(* format under test must be accepted by that format's recogniser            *)
(* (Formats.tla) and decode to the same rows and values as the NUL-separated *)
(* `into list` output of the same query.                                     *)
EXTENDS Formats, TLC, Json, IOUtils

Rec == ndJsonDeserialize(IOEnv.OBS)
VARIABLE l

NoSep(rows, seps) == \A i \in 1 .. Len(rows) : \A j \in 1 .. Len(rows[i]) : \A k \in 1 .. Len(rows[i][j]) : rows[i][j][k] \notin seps

Verdict(r) ==
  LET ref == DecodeList(r.obs.list.chars, r.nul, r.ncols)
      out == r.obs.f.chars
      dec == CASE r.fmt = "json" -> DecodeJson(out, r.ctl) [] r.fmt = "csv" -> DecodeCsv(out) [] r.fmt = "html" -> DecodeHtml(out)
               [] r.fmt = "tabs" -> DecodeTabs(out) [] r.fmt = "lines" -> DecodeLines(out)
      RowEq(a, b) == IF r.fmt = "json" THEN BagEq(a, b) ELSE a = b
      \* group rows without ORDER BY come in no particular order: compare the tables as multisets of rows there
      TableEq(d, t) == IF r.path = "grouped"
                       THEN Len(d) = Len(t) /\ \A i \in 1 .. Len(t) :
                              Cardinality({ j \in 1 .. Len(d) : RowEq(d[j], t[i]) }) = Cardinality({ j \in 1 .. Len(t) : RowEq(t[j], t[i]) })
                       ELSE Len(d) = Len(t) /\ \A i \in 1 .. Len(t) : RowEq(d[i], t[i])
      same == CASE r.fmt \in {"json", "csv", "html"} -> TableEq(dec.rows, ref.rows)
                [] r.fmt = "tabs" -> ~NoSep(ref.rows, {"\t", "\n"}) \/ TableEq(dec.rows, ref.rows)
                [] r.fmt = "lines" -> ~NoSep(ref.rows, {"\n"}) \/
                      (IF ref.rows = <<>> THEN dec.rows = <<<<>>>>
                       ELSE IF r.path = "grouped" THEN BagEq(dec.rows[1], FlattenRows(ref.rows))
                       ELSE dec.rows = <<FlattenRows(ref.rows)>>)
      y == IF r.obs.f.timed_out \/ r.obs.list.timed_out THEN "timeout"
           ELSE IF r.obs.f.panic THEN "crash"
           ELSE IF r.obs.f.status # 0 \/ r.obs.list.status # 0 THEN "status-not-0"
           ELSE IF ~ref.ok THEN "list-output-malformed"
           ELSE IF ~dec.ok /\ ~(r.fmt \in {"tabs", "lines"} /\ ~NoSep(ref.rows, {"\t", "\n"})) THEN "malformed-" \o r.fmt
           ELSE IF ~same THEN "decodes-to-different-table"
           ELSE "ok"
  IN [id |-> r.id, ok |-> (y = "ok"), class |-> r.class, why |-> y, key |-> "C09/" \o r.class \o "/" \o y,
      nontrivial |-> (ref.ok /\ ref.rows # <<>>)]

Init == l = 1
Next == /\ l <= Len(Rec)
        /\ PrintT(<<"VERDICT", ToJson(Verdict(Rec[l]))>>)
        /\ l' = l + 1
Spec == Init /\ [][Next]_l
Judged == PrintT(<<"JUDGED", ToJson([n |-> TLCGet("stats").diameter - 1])>>)
=============================================================================
