SPECIFICATION Spec
CONSTANTS
  KeySet = {1, 2, 3}
  MaxItems = 6
  Limits = {0, 1, 2, 3, 4, 5, 6, 7, 8}
INVARIANTS CountOk LeastN Sorted NoDupItems
