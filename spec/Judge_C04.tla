----------------------------- MODULE Judge_C04 ------------------------------
(* Binding layer, trace judge for C04: every selected cell of every entry    *)
(* equals what the Prop layer derives from the entry's own attributes:       *)
(* lstat values recorded by the driver (snapshot), the abstract world        *)
(* (names, contents, stored zip modes, capability sets) and the active       *)
(* extension lists.                                                          *)
EXTENDS Eval, Config, TLC, Json, IOUtils

Rec == ndJsonDeserialize(IOEnv.OBS)
VARIABLE l

BoolText(b) == IF b THEN "true" ELSE "false"
ModeBool(col, m) ==
  CASE col = "is_file" -> TypeNibble(m) = 8 [] col = "is_dir" -> TypeNibble(m) = 4 [] col = "is_symlink" -> TypeNibble(m) = 10
    [] col = "is_pipe" -> TypeNibble(m) = 1 [] col = "is_char" -> TypeNibble(m) = 2 [] col = "is_block" -> TypeNibble(m) = 6
    [] col = "is_socket" -> TypeNibble(m) = 12
    [] col = "user_read" -> Bit(m, 256) [] col = "user_write" -> Bit(m, 128) [] col = "user_exec" -> Bit(m, 64)
    [] col = "user_all" -> Bit(m, 256) /\ Bit(m, 128) /\ Bit(m, 64)
    [] col = "group_read" -> Bit(m, 32) [] col = "group_write" -> Bit(m, 16) [] col = "group_exec" -> Bit(m, 8)
    [] col = "group_all" -> Bit(m, 32) /\ Bit(m, 16) /\ Bit(m, 8)
    [] col = "other_read" -> Bit(m, 4) [] col = "other_write" -> Bit(m, 2) [] col = "other_exec" -> Bit(m, 1)
    [] col = "other_all" -> Bit(m, 4) /\ Bit(m, 2) /\ Bit(m, 1)
    [] col = "suid" -> Bit(m, 2048) [] col = "sgid" -> Bit(m, 1024)

(* first bad column of a mode row, "" if none.  `skip`: columns not judged (zip members' is_file/is_dir/is_symlink) *)
ModeRowBad(cols, row, m, skip) ==
  IF row[2] # Str(ModeChars(m)) THEN "mode"
  ELSE LET bad == { j \in 3 .. Len(cols) : cols[j] \notin skip /\ row[j] # BoolText(ModeBool(cols[j], m)) }
       IN IF bad = {} THEN "" ELSE cols[CHOOSE j \in bad : \A k \in bad : j <= k]
(* exactly one type boolean is true and it matches the mode string's first character *)
OneHot(cols, row) == Cardinality({ j \in 3 .. 9 : row[j] = "true" }) = 1

CapNames == <<"cap_chown", "cap_dac_override", "cap_dac_read_search", "cap_fowner", "cap_fsetid", "cap_kill", "cap_setgid", "cap_setuid",
              "cap_setpcap", "cap_linux_immutable", "cap_net_bind_service", "cap_net_broadcast", "cap_net_admin", "cap_net_raw",
              "cap_ipc_lock", "cap_ipc_owner", "cap_sys_module", "cap_sys_rawio", "cap_sys_chroot", "cap_sys_ptrace", "cap_sys_pacct",
              "cap_sys_admin", "cap_sys_boot", "cap_sys_nice", "cap_sys_resource", "cap_sys_time", "cap_sys_tty_config", "cap_mknod",
              "cap_lease", "cap_audit_write", "cap_audit_control", "cap_setfcap", "cap_mac_override", "cap_mac_admin", "cap_syslog",
              "cap_wake_alarm", "cap_block_suspend", "cap_audit_read", "cap_perfmon", "cap_bpf", "cap_checkpoint_restore">>
(* the capability text: name=flags, flags in any order *)
CapTexts(c, f) == LET ls == (IF f.e THEN {"e"} ELSE {}) \cup (IF f.p THEN {"p"} ELSE {}) \cup (IF f.i THEN {"i"} ELSE {})
                      Perms(S) == IF Cardinality(S) = 1 THEN { x : x \in S }
                                  ELSE IF Cardinality(S) = 2 THEN { x \o y : x \in S, y \in S } \ { x \o x : x \in S }
                                  ELSE { x \o y \o z : x \in S, y \in S, z \in S } \ { w \in { x \o y \o z : x \in S, y \in S, z \in S } : FALSE }
                  IN { CapNames[c + 1] \o "=" \o p : p \in Perms(ls) }
Distinct3(S) == { <<x, y, z>> \in S \X S \X S : x # y /\ y # z /\ x # z }
CapOk(cell, c, f) ==
  LET ls == (IF f.e THEN {"e"} ELSE {}) \cup (IF f.p THEN {"p"} ELSE {}) \cup (IF f.i THEN {"i"} ELSE {})
      pre == CapNames[c + 1] \o "="
  IN IF Cardinality(ls) = 1 THEN \E x \in ls : cell = pre \o x
     ELSE IF Cardinality(ls) = 2 THEN \E x \in ls, y \in ls : x # y /\ cell = pre \o x \o y
     ELSE \E t \in Distinct3(ls) : cell = pre \o t[1] \o t[2] \o t[3]

(* contents as runs *)
FirstByte(content) == IF content = <<>> THEN -1 ELSE content[1].byte
SecondByte(content) == IF content = <<>> THEN -1 ELSE IF content[1].count >= 2 THEN content[1].byte
                       ELSE IF Len(content) >= 2 THEN content[2].byte ELSE -1
HasByte(content, b) == \E i \in 1 .. Len(content) : content[i].byte = b /\ content[i].count >= 1
HasPair(content, a, b) == (\E i \in 1 .. Len(content) : a = b /\ content[i].byte = a /\ content[i].count >= 2)
                          \/ (\E i \in 1 .. Len(content) - 1 : content[i].byte = a /\ content[i + 1].byte = b)
ValidUtf8(content) == ~HasByte(content, 255)

Why(r) ==
  LET w == r.world  all == NodeIds(w)  rows == r.obs.q.rows  cols == r.cols
      NodeByName(s) == IF \E n \in all : w.nodes[n].name = s THEN CHOOSE n \in all : w.nodes[n].name = s ELSE 0
  IN
  IF r.obs.q.timed_out THEN "timeout" ELSE IF r.obs.q.panic THEN "crash" ELSE IF r.obs.q.status # 0 THEN "status-not-0"
  ELSE IF r.kind = "modes" THEN
     LET ids == [i \in 1 .. Len(rows) |-> NodeByName(rows[i][1])]
         bad == { i \in 1 .. Len(rows) : ids[i] # 0 /\ ModeRowBad(cols, rows[i], r.snapshot[ids[i]].mode, {}) # "" }
     IN IF { ids[i] : i \in 1 .. Len(rows) } # all \/ Len(rows) # Cardinality(all) THEN "wrong-row-set"
        ELSE IF bad # {} THEN LET i == CHOOSE x \in bad : TRUE IN
                "wrong-" \o ModeRowBad(cols, rows[i], r.snapshot[ids[i]].mode, {}) \o "/type=" \o TypeChar(r.snapshot[ids[i]].mode)
        ELSE IF \E i \in 1 .. Len(rows) : ~OneHot(cols, rows[i]) THEN "type-not-one-hot"
        ELSE "ok"
  ELSE IF r.kind = "zipmodes" THEN
     LET zs == w.nodes[1].zip
         MemberOf(s) == IF \E k \in 1 .. Len(zs) : "[z.zip] " \o zs[k].name = s THEN CHOOSE k \in 1 .. Len(zs) : "[z.zip] " \o zs[k].name = s ELSE 0
         mrows == { i \in 1 .. Len(rows) : rows[i][1] # "z.zip" }
         ks == [i \in 1 .. Len(rows) |-> MemberOf(rows[i][1])]
         bad == { i \in mrows : ks[i] # 0 /\ ModeRowBad(cols, rows[i], zs[ks[i]].mode, {"is_file", "is_dir", "is_symlink"}) # "" }
     IN IF { ks[i] : i \in mrows } # 1 .. Len(zs) \/ Cardinality(mrows) # Len(zs) THEN "wrong-member-set"
        ELSE IF bad # {} THEN LET i == CHOOSE x \in bad : TRUE IN
                "wrong-" \o ModeRowBad(cols, rows[i], zs[ks[i]].mode, {"is_file", "is_dir", "is_symlink"}) \o "/type=" \o TypeChar(zs[ks[i]].mode)
        ELSE "ok"
  ELSE IF r.kind = "paths" THEN
     LET NodeByPath(s) == IF \E n \in all : "./" \o RelPath(w, n) = s THEN CHOOSE n \in all : "./" \o RelPath(w, n) = s ELSE 0
         ids == [i \in 1 .. Len(rows) |-> NodeByPath(rows[i][1])]
         AbsOf(n) == IF n = 0 THEN r.rootpath ELSE r.snapshot[n].path
         Exp(n) == << "./" \o RelPath(w, n), w.nodes[n].name, Str(ExtC(w.nodes[n].namec)), Str(DirC(w, n)), AbsOf(n), AbsOf(w.nodes[n].parent),
                      BoolText(w.nodes[n].namec[1] = "."),
                      BoolText(IF w.nodes[n].kind = "dir" THEN ChildrenOf(w, n) = {} ELSE r.snapshot[n].sizen = 0) >>
         \* (for a link the statement fixes its location - dir, absdir - not what abspath resolves to; its own size, as lstat gives it,
         \* is the length of the target text: a link is not empty)
         bad == { <<i, j>> \in (1 .. Len(rows)) \X (1 .. Len(cols)) : ids[i] # 0 /\ rows[i][j] # Exp(ids[i])[j]
                                                                      /\ ~(w.nodes[ids[i]].kind = "symlink" /\ cols[j] = "abspath") }
     IN IF { ids[i] : i \in 1 .. Len(rows) } # all \/ Len(rows) # Cardinality(all) THEN "wrong-row-set"
        ELSE IF bad # {} THEN "wrong-" \o cols[(CHOOSE p \in bad : \A q \in bad : p[2] <= q[2])[2]] ELSE "ok"
  ELSE IF r.kind = "extclass" THEN
     LET ids == [i \in 1 .. Len(rows) |-> NodeByName(rows[i][1])]
         bad == { <<i, j>> \in (1 .. Len(rows)) \X (2 .. Len(cols)) :
                    ids[i] # 0 /\ rows[i][j] # BoolText(InClass(r.lists[cols[j]], w.nodes[ids[i]].namec)) }
     IN IF { ids[i] : i \in 1 .. Len(rows) } # all \/ Len(rows) # Cardinality(all) THEN "wrong-row-set"
        ELSE IF bad # {} THEN "wrong-" \o cols[(CHOOSE p \in bad : \A q \in bad : p[2] <= q[2])[2]] ELSE "ok"
  ELSE IF r.kind = "content" THEN
     LET ids == [i \in 1 .. Len(rows) |-> NodeByName(rows[i][1])]
         Bad(i) == LET n == ids[i] c == w.nodes[n].content s == r.snapshot[n] row == rows[i] IN
                   IF row[2] # ToString(CountByte(c, 10)) THEN "line_count"
                   ELSE IF row[3] # BoolText(FirstByte(c) = 35 /\ SecondByte(c) = 33) THEN "is_shebang"
                   ELSE IF row[4] # s.sha1 THEN "sha1" ELSE IF row[5] # s.sha256 THEN "sha256"
                   ELSE IF row[6] # s.sha512 THEN "sha512" ELSE IF row[7] # s.sha3 THEN "sha3"
                   ELSE IF ValidUtf8(c) /\ row[8] # BoolText(HasByte(c, 97)) THEN "contains"
                   ELSE IF ValidUtf8(c) /\ row[9] # BoolText(HasPair(c, 35, 33)) THEN "contains"
                   ELSE IF row[10] # ToString(ContentLen(c)) THEN "size"
                   ELSE IF ValidUtf8(c) /\ row[11] # BoolText(HasPair(c, 97, 10)) THEN "contains-across-lines"
                   ELSE IF ValidUtf8(c) /\ row[12] # "true" THEN "contains-empty-needle" ELSE ""
         bad == { i \in 1 .. Len(rows) : ids[i] # 0 /\ Bad(i) # "" }
     IN IF { ids[i] : i \in 1 .. Len(rows) } # all \/ Len(rows) # Cardinality(all) THEN "wrong-row-set"
        ELSE IF bad # {} THEN "wrong-" \o Bad(CHOOSE i \in bad : TRUE) ELSE "ok"
  ELSE \* osattrs
     LET ids == [i \in 1 .. Len(rows) |-> NodeByName(rows[i][1])]
         Bad(i) == LET n == ids[i] x == w.nodes[n] s == r.snapshot[n] row == rows[i] IN
                   IF row[2] # s.size THEN "size" ELSE IF row[3] # s.uid THEN "uid" ELSE IF row[4] # s.gid THEN "gid"
                   ELSE IF s.user # "" /\ row[5] # s.user THEN "user" ELSE IF s.group # "" /\ row[6] # s.group THEN "group"
                   ELSE IF row[7] # s.ino THEN "inode" ELSE IF row[8] # s.nlink THEN "hardlinks" ELSE IF row[9] # s.blocks THEN "blocks"
                   ELSE IF row[10] # StampText(s.mtime, ZoneOffAt(r.off, s.mtime)) THEN "modified"
                   ELSE IF row[11] # BoolText(x.hasx \/ x.cap >= 0) THEN "has_xattrs"
                   ELSE IF x.cap < 0 /\ row[12] # "" THEN "caps"
                   ELSE IF x.cap >= 0 /\ ~CapOk(row[12], x.cap, x.capflags) THEN "caps" ELSE ""
         bad == { i \in 1 .. Len(rows) : ids[i] # 0 /\ Bad(i) # "" }
     IN IF { ids[i] : i \in 1 .. Len(rows) } # all \/ Len(rows) # Cardinality(all) THEN "wrong-row-set"
        ELSE IF bad # {} THEN "wrong-" \o Bad(CHOOSE i \in bad : TRUE) ELSE "ok"

Verdict(r) == LET y == Why(r) IN
  [id |-> r.id, ok |-> (y = "ok"), class |-> r.class, why |-> y, key |-> "C04/" \o r.class \o "/" \o y, nontrivial |-> Len(r.obs.q.rows) >= 2]

Init == l = 1
Next == /\ l <= Len(Rec)
        /\ PrintT(<<"VERDICT", ToJson(Verdict(Rec[l]))>>)
        /\ l' = l + 1
Spec == Init /\ [][Next]_l
Judged == PrintT(<<"JUDGED", ToJson([n |-> TLCGet("stats").diameter - 1])>>)
=============================================================================
