SPECIFICATION Spec
CONSTANTS
  MaxN = 5
  Kinds = {"file"}
  Extra = 1
  Limits = {0}
  TwoRoots = FALSE
INVARIANTS NeverTwice OnlyListed ExactAtEnd CountAtEnd BfsMonotone DfsContiguous QueueOnlyInBfs
PROPERTY Terminates
