-------------------------------- MODULE TopN --------------------------------
(* Mech layer: implementation-shaped model of util::top_n::TopN              *)
(* (BTreeMap<K, Vec<V>> "echelons", count, optional limit) as used by the    *)
(* ordered result buffer.  Insert = TopN::insert (push, then evict the last  *)
(* element of the greatest echelon when over the limit); Values = values().  *)
(* TLC checks, for every arrival order of up to MaxItems keys with ties and  *)
(* every limit, that the buffer always holds exactly the `limit` least keys  *)
(* seen so far (as a multiset), in sorted order - the Prop statement of C06. *)
EXTENDS Integers, Sequences, FiniteSets

CONSTANTS KeySet, MaxItems, Limits     \* Limits: 0 = limitless
VARIABLES arrived, ech, count, limit, pc
vars == <<arrived, ech, count, limit, pc>>

Init == arrived = <<>> /\ ech = [k \in KeySet |-> <<>>] /\ count = 0 /\ limit \in Limits /\ pc = "run"

MaxKey(e) == CHOOSE k \in KeySet : e[k] # <<>> /\ \A j \in KeySet : e[j] # <<>> => j <= k

Insert(k) ==
  /\ pc = "run" /\ Len(arrived) < MaxItems
  /\ arrived' = Append(arrived, k)
  /\ LET item == Len(arrived) + 1
         e1 == [ech EXCEPT ![k] = Append(@, item)]
         c1 == count + 1
     IN IF limit > 0 /\ limit < c1
        THEN LET lk == MaxKey(e1) IN
             /\ ech' = [e1 EXCEPT ![lk] = SubSeq(@, 1, Len(@) - 1)]
             /\ count' = c1 - 1
        ELSE ech' = e1 /\ count' = c1
  /\ UNCHANGED <<limit, pc>>
Finish == pc = "run" /\ pc' = "done" /\ UNCHANGED <<arrived, ech, count, limit>>
Next == (\E k \in KeySet : Insert(k)) \/ Finish
Spec == Init /\ [][Next]_vars

-----------------------------------------------------------------------------
RECURSIVE Concat(_, _)
Concat(e, ks) == IF ks = {} THEN <<>> ELSE LET k == CHOOSE x \in ks : \A y \in ks : x <= y IN e[k] \o Concat(e, ks \ {k})
Values == Concat(ech, KeySet)                       \* item ids in output order
KeyOf(item) == arrived[item]
Retained == Len(Values)
Want == IF limit = 0 \/ Len(arrived) < limit THEN Len(arrived) ELSE limit
CountOf(s, k) == Cardinality({ i \in 1 .. Len(s) : s[i] = k })
(* the multiset of the `Want` least keys of arrived: key k is kept min(count(k), room left after smaller keys) times *)
Smaller(k) == Cardinality({ i \in 1 .. Len(arrived) : arrived[i] < k })
KeepOf(k) == LET room == Want - Smaller(k) IN IF room <= 0 THEN 0 ELSE IF CountOf(arrived, k) < room THEN CountOf(arrived, k) ELSE room

CountOk == count = Retained /\ Retained = Want
LeastN == \A k \in KeySet : Len(ech[k]) = KeepOf(k)
Sorted == \A i \in 1 .. Len(Values) - 1 : KeyOf(Values[i]) <= KeyOf(Values[i + 1])
NoDupItems == \A i, j \in 1 .. Len(Values) : i # j => Values[i] # Values[j]
=============================================================================
