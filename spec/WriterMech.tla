------------------------------ MODULE WriterMech ----------------------------
(* Mech layer: the CSV and HTML writers as the code builds their output      *)
(* (src/output/csv.rs with the csv crate's default settings, html.rs).       *)
(* A table is a sequence of rows, a row a sequence of cells, a cell a        *)
(* sequence of characters; the result is the sequence of characters written. *)
(*   csv   one record per row, fields joined by commas, a field is quoted    *)
(*         when it holds a comma, a quote, CR or LF (QuoteStyle::Necessary)  *)
(*         - and when the record is one empty field -, quotes doubled,       *)
(*         every record ended by LF                                          *)
(*   html  <html><body><table>, per row <tr>, per cell <td>text</td> with    *)
(*         & < > " ' written as entities, </tr>, </table></body></html>      *)
EXTENDS Formats

RECURSIVE Flat(_)
Flat(ss) == IF ss = <<>> THEN <<>> ELSE ss[1] \o Flat(Tail(ss))
C(s) == s
NeedsQuotes(f) == \E i \in 1 .. Len(f) : f[i] \in {",", "\"", "\n", "\r"}
Doubled(f) == Flat([i \in 1 .. Len(f) |-> IF f[i] = "\"" THEN <<"\"", "\"">> ELSE <<f[i]>>])
CsvFieldOf(f, alone) == IF NeedsQuotes(f) \/ (alone /\ f = <<>>) THEN <<"\"">> \o Doubled(f) \o <<"\"">> ELSE f
CsvLineOf(row) == Flat([j \in 1 .. Len(row) |-> (IF j > 1 THEN <<",">> ELSE <<>>) \o CsvFieldOf(row[j], Len(row) = 1)]) \o <<"\n">>
CsvMech(table) == Flat([i \in 1 .. Len(table) |-> CsvLineOf(table[i])])

Entity(c) == CASE c = "&" -> <<"&","a","m","p",";">> [] c = "<" -> <<"&","l","t",";">> [] c = ">" -> <<"&","g","t",";">>
               [] c = "\"" -> <<"&","q","u","o","t",";">> [] c = "'" -> <<"&","#","3","9",";">> [] OTHER -> <<c>>
Escaped(f) == Flat([i \in 1 .. Len(f) |-> Entity(f[i])])
HtmlTail == <<"<","/","t","a","b","l","e",">","<","/","b","o","d","y",">","<","/","h","t","m","l",">">>
HtmlRow(row) == <<"<","t","r",">">> \o Flat([j \in 1 .. Len(row) |-> <<"<","t","d",">">> \o Escaped(row[j]) \o <<"<","/","t","d",">">>]) \o <<"<","/","t","r",">">>
HtmlMech(table) == HtmlHead \o Flat([i \in 1 .. Len(table) |-> HtmlRow(table[i])]) \o HtmlTail
=============================================================================
