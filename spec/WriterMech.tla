------------------------------ MODULE WriterMech ----------------------------
(* Mech layer: the CSV, HTML and JSON writers as the code builds their       *)
(* output (src/output/csv.rs with the csv crate's default settings, html.rs, *)
(* json.rs with serde_json's string escapes).                                *)
(* A table is a sequence of rows, a row a sequence of cells, a cell a        *)
(* sequence of characters; the result is the sequence of characters written. *)
(*   csv   one record per row, fields joined by commas, a field is quoted    *)
(*         when it holds a comma, a quote, CR or LF (QuoteStyle::Necessary)  *)
(*         - and when the record is one empty field -, quotes doubled,       *)
(*         every record ended by LF                                          *)
(*   html  <html><body><table>, per row <tr>, per cell <td>text</td> with    *)
(*         & < > " ' written as entities, </tr>, </table></body></html>      *)
(*   json  [ rows joined by commas ]; a row is an object built from a        *)
(*         BTreeMap: one pair per distinct column key (the last column with  *)
(*         a key wins), keys in byte order; the key of a column is the text  *)
(*         of its expression (Display), lower-cased on the aggregate and     *)
(*         grouped paths; strings escape " and \ with a backslash, LF CR TAB *)
(*         BS FF as \n \r \t \b \f, other characters below U+0020 as     *)
(*         \u00xx (lower-case hex), everything else is written as it is     *)
EXTENDS Formats

RECURSIVE Flat(_)
Flat(ss) == IF ss = <<>> THEN <<>> ELSE ss[1] \o Flat(Tail(ss))
C(s) == s
NeedsQuotes(f) == \E i \in 1 .. Len(f) : f[i] \in {",", "\"", "\n", "\r"}
Doubled(f) == Flat([i \in 1 .. Len(f) |-> IF f[i] = "\"" THEN <<"\"", "\"">> ELSE <<f[i]>>])
CsvFieldOf(f, alone) == IF NeedsQuotes(f) \/ (alone /\ f = <<>>) THEN <<"\"">> \o Doubled(f) \o <<"\"">> ELSE f
CsvLineOf(row) == Flat([j \in 1 .. Len(row) |-> (IF j > 1 THEN <<",">> ELSE <<>>) \o CsvFieldOf(row[j], Len(row) = 1)]) \o <<"\n">>
CsvMech(table) == Flat([i \in 1 .. Len(table) |-> CsvLineOf(table[i])])

Entity(c) == CASE c = "&" -> <<"&","a","m","p",";">> [] c = "<" -> <<"&","l","t",";">> [] c = ">" -> <<"&","g","t",";">>
               [] c = "\"" -> <<"&","q","u","o","t",";">> [] c = "'" -> <<"&","#","3","9",";">> [] OTHER -> <<c>>
Escaped(f) == Flat([i \in 1 .. Len(f) |-> Entity(f[i])])
HtmlTail == <<"<","/","t","a","b","l","e",">","<","/","b","o","d","y",">","<","/","h","t","m","l",">">>
HtmlRow(row) == <<"<","t","r",">">> \o Flat([j \in 1 .. Len(row) |-> <<"<","t","d",">">> \o Escaped(row[j]) \o <<"<","/","t","d",">">>]) \o <<"<","/","t","r",">">>
HtmlMech(table) == HtmlHead \o Flat([i \in 1 .. Len(table) |-> HtmlRow(table[i])]) \o HtmlTail

HexL == <<"0","1","2","3","4","5","6","7","8","9","a","b","c","d","e","f">>
(* ctl: the characters U+0001 .. U+001F as supplied with the record (TLA+ source cannot spell them) *)
JsonEscC(c, ctl) ==
  CASE c = "\"" -> <<"\\", "\"">> [] c = "\\" -> <<"\\", "\\">> [] c = "\n" -> <<"\\", "n">> [] c = "\r" -> <<"\\", "r">> [] c = "\t" -> <<"\\", "t">>
    [] OTHER -> IF \E v \in 1 .. Len(ctl) : ctl[v] = c
                THEN LET v == CHOOSE v \in 1 .. Len(ctl) : ctl[v] = c IN
                     IF v = 8 THEN <<"\\", "b">> ELSE IF v = 12 THEN <<"\\", "f">>
                     ELSE <<"\\", "u", "0", "0", HexL[(v \div 16) + 1], HexL[(v % 16) + 1]>>
                ELSE <<c>>
JsonStr(s, ctl) == <<"\"">> \o Flat([i \in 1 .. Len(s) |-> JsonEscC(s[i], ctl)]) \o <<"\"">>
JsonKey(path, k) == IF path \in {"aggregate", "grouped"} THEN LowerSeq(k) ELSE k
RECURSIVE SortKeys(_)
SortKeys(S) == IF S = {} THEN <<>> ELSE LET m == CHOOSE k \in S : \A o \in S : LexLeq(k, o) IN <<m>> \o SortKeys(S \ {m})
LastWith(keys, k) == CHOOSE i \in 1 .. Len(keys) : keys[i] = k /\ \A j \in i + 1 .. Len(keys) : keys[j] # k
(* the values of a row in the order the object shows them *)
JsonRowVals(keys, row) == LET ks == SortKeys({ keys[i] : i \in 1 .. Len(keys) }) IN [n \in 1 .. Len(ks) |-> row[LastWith(keys, ks[n])]]
JsonRow(keys, row, ctl) ==
  LET ks == SortKeys({ keys[i] : i \in 1 .. Len(keys) }) IN
  <<"{">> \o Flat([n \in 1 .. Len(ks) |-> (IF n > 1 THEN <<",">> ELSE <<>>) \o JsonStr(ks[n], ctl) \o <<":">> \o JsonStr(row[LastWith(keys, ks[n])], ctl)]) \o <<"}">>
JsonMech(keys, table, ctl) == <<"[">> \o Flat([i \in 1 .. Len(table) |-> (IF i > 1 THEN <<",">> ELSE <<>>) \o JsonRow(keys, table[i], ctl)]) \o <<"]">>
=============================================================================
