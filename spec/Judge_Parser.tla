---------------------------- MODULE Judge_Parser ----------------------------
(* Binding layer: conformance of the Lexer + Parser Mech models.  For every  *)
(* generated query the WHERE expression the real parser built (the binary's  *)
(* debug dump of the parsed Query, converted from Rust Debug syntax to JSON) *)
(* must equal Parser!ParseWhere(Lexer!LexAll(query)).  A mismatch is DRIFT   *)
(* of the mechanism models, not a verdict about a property.                  *)
EXTENDS Parser, TLC, Json, IOUtils

Rec == ndJsonDeserialize(IOEnv.OBS)
VARIABLE l
MCKnown == { <<"s","i","z","e">>, <<"n","a","m","e">>, <<"u","i","d">>, <<"e","x","t">>, <<"m","o","d","i","f","i","e","d">>,
             <<"i","s","_","d","i","r">>, <<"h","a","r","d","l","i","n","k","s">>, <<"l","e","n","g","t","h">>, <<"p","a","t","h">> }

Verdict(r) ==
  LET toks == LexAll(<<r.queryc>>)
      m == ParseWhere(toks)
      o == r.obs.q
      y == IF o.timed_out THEN "timeout" ELSE IF o.panic THEN "crash"
           ELSE IF ~m.ok THEN (IF o.status = 2 THEN "ok" ELSE "model-rejects-but-code-accepts")
           ELSE IF o.status = 2 THEN "code-rejects-but-model-accepts"
           ELSE IF m.e = o.expr THEN "ok" ELSE "parser-model-drift"
  IN [id |-> r.id, ok |-> (y = "ok"), class |-> r.class, why |-> y, key |-> "mech/" \o r.class \o "/" \o y, nontrivial |-> (m.ok /\ ~IsNone(m.e))]

Init == l = 1
Next == /\ l <= Len(Rec)
        /\ PrintT(<<"VERDICT", ToJson(Verdict(Rec[l]))>>)
        /\ l' = l + 1
Spec == Init /\ [][Next]_l
Judged == PrintT(<<"JUDGED", ToJson([n |-> TLCGet("stats").diameter - 1])>>)
=============================================================================
