SPECIFICATION Spec
CONSTANTS
  MaxK = 4000
  KStep = 1
INVARIANTS EmitWorld Emit
