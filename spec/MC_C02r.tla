------------------------------- MODULE MC_C02r ------------------------------
(* Binding layer, second scenario generator for C02: pseudo-random trees     *)
(* (WorldRnd) and, for each, the atoms `column OP literal` whose literals    *)
(* are drawn from the attribute values present in that tree and their        *)
(* neighbours v-1, v+1 - numbers, names, globs and LIKE patterns made from   *)
(* the names, second-precision dates made from the modification times.       *)
EXTENDS WorldRnd, Lang, Json, FiniteSets

CONSTANTS Seeds
VARIABLES seed, atom, phase
NoAtom == A1("", "", IntL(0), "")

W(s) == RndWorld(s)
Files(s) == { i \in 1 .. Len(W(s).nodes) : W(s).nodes[i].kind = "file" }
IntVals(s, col) ==
  CASE col = "size" -> { SizeOfNode(W(s).nodes[i]) : i \in Files(s) }
    [] col = "line_count" -> { LinesOfNode(W(s).nodes[i]) : i \in Files(s) }
    [] col = "uid" -> { W(s).nodes[i].uid : i \in 1 .. Len(W(s).nodes) }
    [] col = "length(name)" -> { Len(W(s).nodes[i].namec) : i \in 1 .. Len(W(s).nodes) }
Around(V) == { x \in UNION { {v - 1, v, v + 1} : v \in V } : x >= 0 - 1 }
CmpOps == {"eq", "ne", "gt", "gte", "lt", "lte", "eeq", "ene"}
OrdOps == {"eq", "ne", "gt", "gte", "lt", "lte"}
IntAtoms(s) == UNION { { A1(col, op, IntL(v), "rnd/int/" \o op) : op \in CmpOps, v \in Around(IntVals(s, col)) } : col \in {"size", "line_count", "uid", "length(name)"} }
NamesOf(s) == { W(s).nodes[i].namec : i \in 1 .. Len(W(s).nodes) }
HasWild(c) == \E i \in 1 .. Len(c) : c[i] \in {"*", "?", "%", "_", "[", "]", "\\", "'"}
TextAtoms(s) ==
  { A1("name", op, TextL(c), "rnd/text/" \o op) : op \in {"eq", "ne", "eeq", "ene"}, c \in { x \in NamesOf(s) : ~HasWild(x) } }
  \cup { A1("name", op, TextL(<<c[1], "*">>), "rnd/glob/" \o op) : op \in {"eq", "ne"}, c \in NamesOf(s) }
  \cup { A1("name", op, TextL(<<"*">> \o SubSeq(c, Len(c) - 1, Len(c))), "rnd/glob/" \o op) : op \in {"eq", "ne"}, c \in { x \in NamesOf(s) : Len(x) >= 2 /\ ~HasWild(SubSeq(x, Len(x) - 1, Len(x))) } }
  \cup { A1("name", op, TextL(<<"%">> \o SubSeq(c, Len(c) - 1, Len(c))), "rnd/like/" \o op) : op \in {"like", "notlike"}, c \in { x \in NamesOf(s) : Len(x) >= 2 /\ ~HasWild(SubSeq(x, Len(x) - 1, Len(x))) } }
  \cup { A1("name", op, TextL(<<c[1], "_", "%">>), "rnd/like/" \o op) : op \in {"like", "notlike"}, c \in NamesOf(s) }
Times(s) == { W(s).nodes[i].mtime : i \in 1 .. Len(W(s).nodes) }
DateAtoms(s) == { A1("modified", op, DateL(t, t, StampText(t, 0)), "rnd/date/" \o op) : op \in OrdOps, t \in UNION { {x - 1, x, x + 1} : x \in Times(s) } }
             \cup { A1("modified", op, LET x == LocalTime(t, 0) d0 == Epoch(x.y, x.m, x.d, 0, 0, 0, 0) IN DateL(d0, d0 + 86399, DateText(x.y, x.m, x.d)), "rnd/day/" \o op) :
                    op \in OrdOps, t \in Times(s) }
AtomsOf(s) == IntAtoms(s) \cup TextAtoms(s) \cup DateAtoms(s)

Init == seed = 0 /\ atom = NoAtom /\ phase = "start"
Next == phase = "start" /\ seed' \in Seeds /\ atom' \in AtomsOf(seed') /\ phase' = "done"
Spec == Init /\ [][Next]_<<seed, atom, phase>>

Scenario == [prop |-> "C02", class |-> atom.class, world |-> "R" \o ToString(seed), formula |-> [f |-> "atom", a |-> atom],
             env |-> [tz |-> "UTC", cwd |-> 0],
             runs |-> << [tag |-> "q", ncols |-> 1, argv |-> << "select path from '.' where " \o CondText(atom) \o " into list" >>] >>]
EmitWorld == (phase = "start") => \A s \in Seeds : PrintT(<<"WORLD", ToJson([key |-> "R" \o ToString(s), world |-> W(s)])>>)
Emit == phase = "done" => PrintT(<<"REPLAY", ToJson(Scenario)>>)
=============================================================================
