SPECIFICATION Spec
INVARIANTS EmitWorld EmitC
CHECK_DEADLOCK FALSE
