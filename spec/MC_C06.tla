------------------------------- MODULE MC_C06 -------------------------------
(* Binding layer, scenario generator for C06 (LIMIT).  For every ordering of *)
(* a fixed family (keys chosen so that ties straddle the cut), every         *)
(* N in 0..MaxLimit, filter on/off, one or two roots, bfs/dfs: one scenario  *)
(* with the unlimited unordered run ("all") and the limited run ("lim").     *)
EXTENDS WorldC05, Lang, Json, FiniteSets

CONSTANTS MaxLimit
VARIABLES ord, lim, wh, roots, dfs, phase
vars == <<ord, lim, wh, roots, dfs, phase>>

K(c, d) == [col |-> c, desc |-> d]
Orderings == { <<>>, <<K("size", FALSE)>>, <<K("size", TRUE)>>, <<K("name", FALSE)>>,
               <<K("hardlinks", TRUE), K("name", FALSE)>>, <<K("modified", FALSE), K("size", TRUE)>>,
               <<K("ext", TRUE)>>, <<K("length(name)", FALSE)>> }

Init == ord = <<>> /\ lim = 0 /\ wh = FALSE /\ roots = 1 /\ dfs = FALSE /\ phase = "start"
Choose == /\ phase = "start"
          /\ ord' \in Orderings /\ lim' \in 0 .. MaxLimit /\ wh' \in BOOLEAN /\ roots' \in {1, 2} /\ dfs' \in BOOLEAN
          /\ phase' = "done"
Next == Choose
Spec == Init /\ [][Next]_vars

RECURSIVE OrderText(_)
OrderText(i) == IF i > Len(ord) THEN ""
                ELSE (IF i > 1 THEN ", " ELSE "") \o ord[i].col \o (IF ord[i].desc THEN " desc" ELSE "") \o OrderText(i + 1)
WhereAtom == A1("size", "gt", IntL(2), "")
WhereText == IF wh THEN " where " \o CondText(WhereAtom) ELSE ""
Mode == IF dfs THEN " dfs" ELSE ""
FromText == IF roots = 1 THEN " from '.'" \o Mode ELSE " from 'd1'" \o Mode \o ", 'h'" \o Mode
Base == "select path" \o FromText \o WhereText
Query == Base \o (IF ord = <<>> THEN "" ELSE " order by " \o OrderText(1)) \o " limit " \o ToString(lim) \o " into list"

RECURSIVE KeysClass(_)
KeysClass(i) == IF i > Len(ord) THEN "" ELSE (IF i > 1 THEN "," ELSE "") \o ord[i].col \o (IF ord[i].desc THEN "-" ELSE "+") \o KeysClass(i + 1)
Scenario == [prop |-> "C06", world |-> "W5",
             class |-> (IF ord = <<>> THEN "unordered" ELSE "ordered=" \o KeysClass(1)) \o "/roots=" \o ToString(roots)
                       \o (IF dfs THEN "/dfs" ELSE "/bfs") \o (IF wh THEN "/where" ELSE "") \o (IF lim = 0 THEN "/limit0" ELSE ""),
             keys |-> ord, limit |-> lim, prefix |-> IF roots = 1 THEN "./" ELSE "",
             env |-> [tz |-> "UTC", cwd |-> 0],
             runs |-> << [tag |-> "all", ncols |-> 1, argv |-> << Base \o " into list" >>],
                         [tag |-> "lim", ncols |-> 1, argv |-> << Query >>] >>]
EmitWorld == (phase = "start") => PrintT(<<"WORLD", ToJson([key |-> "W5", world |-> W5])>>)
Emit == phase = "done" => PrintT(<<"REPLAY", ToJson(Scenario)>>)
=============================================================================
