------------------------------- MODULE MC_C06 -------------------------------
(* Binding layer, scenario generator for C06 (LIMIT).  For every ordering of *)
(* a fixed family (keys chosen so that ties straddle the cut), every         *)
(* N in 0..MaxLimit, filter on/off, one or two roots, bfs/dfs: one scenario  *)
(* with the unlimited unordered run ("all") and the limited run ("lim").     *)
(* arch = TRUE: the same over W5z (W5 plus two zip archives whose member     *)
(* names interleave and tie with the names of ordinary entries) with the     *)
(* `archives` option, selecting and ordering by name (rows are judged as     *)
(* texts, members have no node of their own).                                *)
EXTENDS WorldC05, Lang, Json, FiniteSets, TLC

CONSTANTS MaxLimit
VARIABLES ord, lim, wh, roots, dfs, arch, cc, grp, fn2, phase
vars == <<ord, lim, wh, roots, dfs, arch, cc, grp, fn2, phase>>

K(c, d) == [col |-> c, desc |-> d]
Orderings == { <<>>, <<K("size", FALSE)>>, <<K("size", TRUE)>>, <<K("name", FALSE)>>,
               <<K("hardlinks", TRUE), K("name", FALSE)>>, <<K("modified", FALSE), K("size", TRUE)>>,
               <<K("ext", TRUE)>>, <<K("length(name)", FALSE)>> }

ArchOrderings == { <<>>, <<K("name", FALSE)>>, <<K("name", TRUE)>> }
ZM(nm) == [name |-> nm, mode |-> 33188, dos |-> <<2017, 5, 1, 10, 20, 30>>, method |-> "stored", content |-> <<[byte |-> 97, count |-> 3]>>, isdir |-> FALSE]
ZipNode(i, p, nm, members) == N(i, p, "file", nm, <<>>, 420, 0, 0, Day2, 0, -3) @@ [zip |-> members, iszip |-> TRUE]
W5z == [nodes |-> W5.nodes \o << ZipNode(Len(W5.nodes) + 1, 0, <<"k",".","j","a","r">>, << ZM("a.txt"), ZM("m1"), ZM("z"), ZM("B.log"), ZM("l05"), ZM("zz") >>),
                                  ZipNode(Len(W5.nodes) + 2, 5, <<"j",".","w","a","r">>, << ZM("a2"), ZM("m0"), ZM("m1"), ZM("0"), ZM("zq") >>) >>]
Init == ord = <<>> /\ lim = 0 /\ wh = FALSE /\ roots = 1 /\ dfs = FALSE /\ arch = FALSE /\ cc = FALSE /\ grp = FALSE /\ fn2 = FALSE /\ phase = "start"
Choose == /\ phase = "start"
          \* grp: a grouped query (one row per extension), optionally ordered by the key; rows judged as texts like the archive kind
          /\ \/ arch' = FALSE /\ grp' = FALSE /\ ord' \in Orderings
             \/ arch' = TRUE /\ grp' = FALSE /\ ord' \in ArchOrderings
             \/ arch' = FALSE /\ grp' = TRUE /\ ord' \in { <<>>, <<K("ext", FALSE)>>, <<K("ext", TRUE)>> }
          \* cc: a constant column next to the file column (no implicit `limit 1`: that is for select lists without any file column)
          /\ lim' \in 0 .. MaxLimit /\ cc' \in (IF lim' \in {0, 1, 3} /\ ~grp' THEN BOOLEAN ELSE {FALSE}) \* fn2: the file column reaches the select list only as the second argument of a function (`concat('', path)` is the path)
          /\ fn2' \in (IF lim' \in {0, 1, 3} /\ ~grp' /\ ~arch' /\ ~cc' THEN BOOLEAN ELSE {FALSE})
          /\ wh' \in BOOLEAN /\ roots' \in {1, 2} /\ dfs' \in BOOLEAN
          /\ phase' = "done"
Next == Choose
Spec == Init /\ [][Next]_vars

RECURSIVE OrderText(_)
OrderText(i) == IF i > Len(ord) THEN ""
                ELSE (IF i > 1 THEN ", " ELSE "") \o ord[i].col \o (IF ord[i].desc THEN " desc" ELSE "") \o OrderText(i + 1)
\* (archives: the first members of both archives do not match, later ones do)
WhereAtom == IF arch THEN A1("name", "like", TextL(<<"%","z","%">>), "") ELSE A1("size", "gt", IntL(2), "")
WhereText == IF wh THEN " where " \o CondText(WhereAtom) ELSE ""
Mode == (IF arch THEN " archives" ELSE "") \o (IF dfs THEN " dfs" ELSE "")
FromText == IF roots = 1 THEN " from '.'" \o Mode ELSE " from 'd1'" \o Mode \o ", 'h'" \o Mode
\* (grouped: the count reaches the select list inside an arithmetic expression when a constant column is asked for: `0 + count(*)`)
Base == (IF grp THEN (IF wh THEN "select ext, 0 + count(*)" ELSE "select ext, count(*)") ELSE IF arch THEN "select name" ELSE IF fn2 THEN "select concat('', path)" ELSE "select path") \o (IF cc THEN ", 1 + 1" ELSE "") \o FromText \o WhereText
        \o (IF grp THEN " group by ext" ELSE "")
Query == Base \o (IF ord = <<>> THEN "" ELSE " order by " \o OrderText(1)) \o " limit " \o ToString(lim) \o " into list"

RECURSIVE KeysClass(_)
KeysClass(i) == IF i > Len(ord) THEN "" ELSE (IF i > 1 THEN "," ELSE "") \o ord[i].col \o (IF ord[i].desc THEN "-" ELSE "+") \o KeysClass(i + 1)
Scenario == [prop |-> "C06", world |-> IF arch THEN "W5z" ELSE "W5", arch |-> (arch \/ grp),
             class |-> (IF arch THEN "archives/" ELSE IF grp THEN "grouped/" ELSE "") \o (IF ord = <<>> THEN "unordered" ELSE "ordered=" \o KeysClass(1)) \o "/roots=" \o ToString(roots)
                       \o (IF dfs THEN "/dfs" ELSE "/bfs") \o (IF wh THEN "/where" ELSE "") \o (IF lim = 0 THEN "/limit0" ELSE "") \o (IF cc THEN "/constant-column" ELSE "") \o (IF fn2 THEN "/column-as-second-argument" ELSE ""),
             keys |-> ord, limit |-> lim, prefix |-> IF roots = 1 THEN "./" ELSE "",
             env |-> [tz |-> "UTC", cwd |-> 0],
             runs |-> << [tag |-> "all", ncols |-> IF cc \/ grp THEN 2 ELSE 1, chars |-> (arch \/ grp), argv |-> << Base \o " into list" >>],
                         [tag |-> "lim", ncols |-> IF cc \/ grp THEN 2 ELSE 1, chars |-> (arch \/ grp), argv |-> << Query >>] >>]
EmitWorld == (phase = "start") => (PrintT(<<"WORLD", ToJson([key |-> "W5", world |-> W5])>>) /\ PrintT(<<"WORLD", ToJson([key |-> "W5z", world |-> W5z])>>))
Emit == phase = "done" => PrintT(<<"REPLAY", ToJson(Scenario)>>)
=============================================================================
