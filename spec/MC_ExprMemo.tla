----------------------------- MODULE MC_ExprMemo ----------------------------
(* Mech check for the value cache (C15): over every arithmetic expression of *)
(* MC_C15's families (one and two operators, unary minus on leaves and       *)
(* brackets, both bracket styles), the cache key ExprKey!ExprText is         *)
(* injective on the parsed trees - two expressions share a key only if they  *)
(* are the same tree - and a tree's key never equals the text of a number    *)
(* literal.  Each expression is also emitted as a scenario                   *)
(* `select <expr> from '.' into json`, whose single JSON key is the real     *)
(* Display text (Judge_ExprKey compares it with the model's).                *)
EXTENDS MC_C15, ExprKey, TextChars

MCKnownA == { CharsOf(x) : x \in {"size", "hardlinks", "line_count"} } \cup { <<"l","e","n","g","t","h">>, <<"n","a","m","e">> }
PrefixA == <<"s","e","l","e","c","t"," ","p","a","t","h"," ","f","r","o","m"," ","'",".","'"," ","w","h","e","r","e"," ">>
(* the character twin of Arith!ARender *)
RECURSIVE ARenderC(_, _, _, _, _)
ARenderC(tk, i, parentPrec, rightChild, st) ==
  LET t == tk[i] IN
  IF t = "neg" THEN LET inner == tk[i + 1]  s == ARenderC(tk, i + 1, 3, FALSE, st)
                    IN << IF inner = "neg" THEN <<"-", "(">> \o s[1] \o <<")">> ELSE <<"-">> \o s[1], s[2] >>
  ELSE IF t \in BinOps THEN
     LET a == ARenderC(tk, i + 1, APrec(t), FALSE, st)
         b == ARenderC(tk, a[2], APrec(t), TRUE, st)
         sp == IF st = "tight" THEN <<>> ELSE <<" ">>
         txt == a[1] \o sp \o CharsOf(t) \o sp \o b[1]
         need == IF st = "full" THEN parentPrec > 0 ELSE APrec(t) < parentPrec \/ (APrec(t) = parentPrec /\ rightChild)
     IN << IF need THEN <<"(">> \o txt \o <<")">> ELSE txt, b[2] >>
  ELSE << CharsOf(t), i + 1 >>
TextC(e, st) == ARenderC(e, 1, 0, FALSE, st)[1]
(* the tree of an expression: the left operand of `<expr> > 0` *)
TreeOf(e, st) == LET p == ParseWhere(LexAll(<<PrefixA \o TextC(e, st) \o <<" ", ">", " ", "0">>>>)) IN IF p.ok /\ ~IsNone(p.e) THEN p.e.left ELSE NE
Family == One \cup TwoL \cup TwoR \cup Negs
Pairs == { LET t == TreeOf(e, st) IN <<ExprText(t), t>> : e \in Family, st \in {"min", "full"} }
KeysInjective == (phase = "start") =>
   LET pairs == Pairs IN
   /\ \A p \in pairs : ~IsNone(p[2])                                         \* every expression of the family parses
   /\ Cardinality({ p[1] : p \in pairs }) = Cardinality(pairs)               \* one tree per key
   /\ \A p \in pairs : (p[2].arithmetic_op # NONE \/ p[2].minus) => ~AllDigits(p[1])
SameTextA == (phase = "done" /\ kind = "one") => Str(TextC(exprs[1], style)) = ArithText(exprs[1], style)
KeyScenario == [prop |-> "C15", class |-> "exprkey/" \o style, world |-> "W15", kind |-> "exprkey",
                key |-> ExprText(TreeOf(exprs[1], style)),
                env |-> [tz |-> "UTC", cwd |-> 0],
                runs |-> << [tag |-> "q", fmt |-> "text", argv |-> << "select " \o ArithText(exprs[1], style) \o " from '.' limit 1 into json" >>] >>]
EmitKey == (phase = "done" /\ kind = "one") => PrintT(<<"REPLAY", ToJson(KeyScenario)>>)
=============================================================================
