SPECIFICATION Spec
POSTCONDITION Judged
CHECK_DEADLOCK FALSE
