SPECIFICATION Spec
INVARIANT Emit
