SPECIFICATION Spec
CONSTANTS
  MaxLimit = 24
INVARIANTS EmitWorld Emit
