SPECIFICATION Spec
CONSTANTS
  MaxN = 4
  Kinds = {"file"}
  Extra = 1
  Limits = {1, 2, 3}
  TwoRoots = TRUE
INVARIANTS NeverTwice OnlyListed ExactAtEnd CountAtEnd BfsMonotone DfsContiguous QueueOnlyInBfs
PROPERTY Terminates
