SPECIFICATION Spec
CONSTANTS
  MaxLen = 2
  RxChars = {"a", ".", "+", "ANY"}
  Ops = {"eq", "ne", "like", "notlike", "eeq", "ene"}
INVARIANTS EmitWorld Emit
