---------------------------- MODULE Judge_SizeMech --------------------------
(* Binding layer, conformance judge for the Mech model of parse_filesize:    *)
(* for every literal scenario of MC_C14 the names the binary returns for     *)
(* `size OP <literal>` are exactly the files whose size compares that way    *)
(* with the number of bytes SizeMech!ParseFilesize reads out of the          *)
(* characters of the literal.  A difference is DRIFT, not a verdict.         *)
EXTENDS SizeMech, TLC, Json, IOUtils

Rec == ndJsonDeserialize(IOEnv.OBS)
WS == JsonDeserialize(IOEnv.WORLD)
W == WS.world
VARIABLE l
Nodes == 1 .. Len(W.nodes)
SizeOf(n) == LET c == WS.snapshot[n].sizec IN FromDigits([i \in 1 .. Len(c) |-> DigitVal(c[i])])
CmpOp(o, c) == CASE o = "eq" -> c = 0 [] o = "ne" -> c # 0 [] o = "gt" -> c > 0 [] o = "gte" -> c >= 0 [] o = "lt" -> c < 0 [] o = "lte" -> c <= 0
Verdict(r) ==
  LET m == ParseFilesize(r.litc)
      rows == r.obs.r1.rows
      got == { rows[i][1] : i \in 1 .. Len(rows) }
      want == { W.nodes[n].name : n \in { k \in Nodes : CmpOp(r.op, Cmp(SizeOf(k), m.v)) } }
      y == IF r.obs.r1.timed_out \/ r.obs.r1.panic THEN "ok"
           ELSE IF ~m.ok THEN (IF r.obs.r1.status = 2 THEN "ok" ELSE "model-rejects-but-code-accepts")
           ELSE IF r.obs.r1.status = 2 THEN "code-rejects-but-model-accepts"
           ELSE IF got # want THEN "size-model-drift" ELSE "ok"
  IN [id |-> r.id, ok |-> (y = "ok"), class |-> r.class, why |-> y, key |-> "mech/" \o r.class \o "/" \o y, nontrivial |-> (m.ok /\ want # {})]
Init == l = 1
Next == /\ l <= Len(Rec)
        /\ PrintT(<<"VERDICT", ToJson(Verdict(Rec[l]))>>)
        /\ l' = l + 1
Spec == Init /\ [][Next]_l
Judged == PrintT(<<"JUDGED", ToJson([n |-> TLCGet("stats").diameter - 1])>>)
=============================================================================
