SPECIFICATION Spec
CONSTANTS
  MaxLinks = 1
INVARIANT Emit
