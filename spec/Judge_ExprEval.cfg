SPECIFICATION Spec
CONSTANTS
  KnownWords <- MCKnown
POSTCONDITION Judged
CHECK_DEADLOCK FALSE
