------------------------------- MODULE MC_C10 -------------------------------
(* Binding layer, scenario generator for C10 (totality).                     *)
(*  soup    every token sequence of length 1..MaxSoup over the alphabet      *)
(*          (keywords, operators, brackets, quotes, numbers, globs, paths)   *)
(*  mutate  valid base queries with up to MaxMut generic mutations           *)
(*          (drop / duplicate / transpose / truncate a token)                *)
(*  reject  the malformations the statement lists: must end with status 2,   *)
(*          a diagnostic and no row                                          *)
(*  runtime well-formed queries whose literal cannot be interpreted          *)
(*  argv    option-like first arguments alone / followed by a path / a query *)
EXTENDS Integers, Sequences, TLC, Json, FiniteSets

CONSTANTS MaxSoup, MaxMut, Kinds

VARIABLES kind, toks, argv, muts, expect, label, phase
vars == <<kind, toks, argv, muts, expect, label, phase>>

Alphabet == <<"select", "name", "size", ",", "from", ".", "where", "=", ">", "and", "or", "not", "(", ")", "{", "}",
              "order", "by", "desc", "limit", "into", "json", "1", "'a'", "*", "like", "/x", "-", "group", "between", "is_dir", "><",
              "count(*)", "0", "\"", "é", "'ż*'">>
Base == << <<"select", "name", ",", "size", "from", ".", "where", "size", ">", "1", "and", "name", "like", "'%a%'", "order", "by", "2", "desc", "limit", "3", "into", "json">>,
           <<"name", "from", ".", "where", "(", "size", ">", "1", "or", "is_dir", ")", "and", "not", "name", "=", "'x'">>,
           <<"select", "count(*)", ",", "max(size)", "from", ".", "group", "by", "ext">>,
           <<"select", "lower(name)", ",", "size", "+", "1", "from", ".", "where", "size", "between", "1", "and", "9", "order", "by", "name">>,
           \* (function brackets as tokens of their own, in every clause that takes expressions)
           <<"select", "name", ",", "lower(", "name", ")", "from", ".", "where", "length(", "name", ")", ">", "1",
             "group", "by", "lower(", "name", ")", "order", "by", "upper(", "name", ")", "limit", "2">> >>

(* the listed malformations: [q, why] *)
Rejects == <<
  [q |-> "select name from . where ( size > 1", why |-> "unbalanced-bracket"],
  [q |-> "select name from . where size > 1 )", why |-> "unbalanced-bracket"],
  [q |-> "select name from . where { size > 1 )", why |-> "unbalanced-bracket"],
  [q |-> "select lower(name from .", why |-> "unbalanced-bracket"],
  [q |-> "select name from . where size >", why |-> "dangling-operator"],
  [q |-> "select name from . where size > 1 and", why |-> "dangling-operator"],
  [q |-> "select name from . where name like", why |-> "dangling-operator"],
  [q |-> "select name from . where size >< 1", why |-> "unknown-operator"],
  [q |-> "select name from . where size =! 1", why |-> "unknown-operator"],
  [q |-> "select name from . where size <=> 1", why |-> "unknown-operator"],
  [q |-> "select name, size from . order by 0", why |-> "order-by-position"],
  [q |-> "select name, size from . order by 3", why |-> "order-by-position"],
  [q |-> "select name from . order by 9 desc", why |-> "order-by-position"],
  [q |-> "select name, size from . order by desc", why |-> "order-by-misplaced"],
  [q |-> "select name, size from . order by desc name", why |-> "order-by-misplaced"],
  [q |-> "select name from . limit x", why |-> "limit-not-numeric"],
  [q |-> "select name from . limit -1", why |-> "limit-not-numeric"],
  [q |-> "select name from . limit", why |-> "limit-not-numeric"],
  [q |-> "select name from . into xml", why |-> "unknown-format"],
  [q |-> "select name from . into", why |-> "unknown-format"],
  [q |-> "from . where size > 1", why |-> "no-column"],
  [q |-> "select from .", why |-> "no-column"],
  [q |-> "where size > 1", why |-> "no-column"] >>
Runtime == <<
  [q |-> "select name from . where name =~ '('", why |-> "bad-regex"],
  [q |-> "select name from . where name !=~ '[a'", why |-> "bad-regex"],
  [q |-> "select name from . where modified = 'notadate'", why |-> "bad-date"],
  [q |-> "select name from . where modified > '2017-13-45'", why |-> "bad-date"],
  [q |-> "select name from . where modified = '2017-02-30'", why |-> "bad-date"],
  [q |-> "select name from . where modified = '2017-05-01 25:00'", why |-> "bad-date"],
  [q |-> "select name from . where modified gt '+x'", why |-> "bad-date"],
  [q |-> "select name from . where modified gt '+éé'", why |-> "bad-date"],
  [q |-> "select name from . where modified = '-'", why |-> "bad-date"],
  [q |-> "select name from . where modified < '+1.5'", why |-> "bad-date"],
  [q |-> "select name from . where modified >= -x", why |-> "bad-date"],
  [q |-> "select name from . where is_dir = maybe", why |-> "bad-boolean"],
  [q |-> "select name from . where is_file != 2", why |-> "bad-boolean"],
  [q |-> "select format_size(size, '%.2 q') from .", why |-> "bad-function-argument"],
  [q |-> "select rand(5, x) from .", why |-> "bad-function-argument"] >>
(* every scalar function with missing / ill-typed / out-of-range arguments: must terminate with 0, 1 or 2 *)
FuncCalls == << "substr(name, 6, 3)", "substr(name, 40)", "substr(name, -30, 2)", "substr(name, 0)", "substr(name)", "substr(name, 1, 0)",
                "substr(name, 99999999999)", "substr(name, x)", "substr(name, 1, x)", "substr()", "replace(name)", "replace(name, a)",
                "replace(name, '', x)", "lower()", "upper(1, 2, 3)", "length()", "trim(,)", "concat()", "concat_ws()", "concat_ws(',')",
                "coalesce()", "to_base64()", "from_base64('###')", "from_base64('Zg')", "bin(-1)", "hex(99999999999999999999)", "oct(1.5)",
                "abs()", "abs(x)", "power()", "power(2)", "power(2, 99999)", "power(0, -1)", "sqrt(-1)", "sqrt()", "log(0)", "log(-1)",
                "log(8, 0)", "log(8, x)", "ln(0)", "exp(99999)", "least()", "greatest(x, y)", "format_time(-1)", "format_time()",
                "format_time(99999999999999999999)", "format_size(x)", "format_size(1, x)", "format_size(1, '%.99')", "format_size(size, '%.2 zz')", "format_size(size, '%.99999999999 k')",
                "format_size(size, '%.4294967296')", "format_size(size, '%.70000k')", "format_size(size, '%.65536')", "format_size(size, '%.300 d')", "format_size(99999999999999999999, '%.1')", "substr(name, 1, 99999999999999999999)", "rand(99999999999999999999)",
                "power(99999999999999999999, 2)", "year(99999999999999999999)", "lower(name", "concat(name, 'a'", "substr(name, 1,",
                "year()", "year(0)", "month(size)", "day('31')", "dow('x y z')", "year('2017-02-30')", "day('0000-00-00')",
                "size % 0", "7 % (3 - 3)", "10 % size", "size mod 0", "1 / 0", "size / (size - size)", "0 % 0", "hardlinks % (hardlinks - 1)",
                "upper('é')", "length('日本')", "substr('żółć', 2, 2)", "concat(name, 'é')",
                "rand(0)", "rand(5, 1)", "rand(3, 3)", "rand(-7, -7)", "rand(0, 0)", "rand(1, 2)", "rand(x)", "rand(1, x)", "contains()", "contains(name)", "has_xattr()", "xattr()", "has_cap()",
                "curdate(1)", "current_uid(x)", "min()", "max(name)", "avg(name)", "sum(name)", "count()", "var_pop(name)", "stddev(mode)" >>
Opts == <<"-c", "--config", "/c", "-i", "/i", "-v", "/?", "--nocolor", "--help", "-h", "/x", "--no-color", "-", "--">>
Argvs == [i \in 1 .. Len(Opts) |-> <<Opts[i]>>]
         \o [i \in 1 .. Len(Opts) |-> <<Opts[i], "@ROOT@">>]
         \o [i \in 1 .. Len(Opts) |-> <<Opts[i], "name from .">>]
         \o [i \in 1 .. Len(Opts) |-> <<Opts[i], "@ROOT@/nonexistent.toml", "name from .">>]
         \o << <<"">>, <<" ">>, <<"", "">>, <<"name", "from", ".", "", "where", "size", ">", "1">> >>

Init == kind = "" /\ toks = <<>> /\ argv = <<>> /\ muts = 0 /\ expect = "total" /\ label = "" /\ phase = "start"
StartSoup == /\ phase = "start" /\ "soup" \in Kinds /\ kind' = "soup" /\ phase' = "soup" /\ UNCHANGED <<toks, argv, muts, expect, label>>
AddTok == /\ phase = "soup" /\ Len(toks) < MaxSoup
          /\ \E i \in 1 .. Len(Alphabet) : toks' = Append(toks, Alphabet[i]) /\ label' = (IF toks = <<>> THEN Alphabet[i] ELSE label)
          /\ UNCHANGED <<kind, argv, muts, expect, phase>>
StartMut == /\ phase = "start" /\ "mutate" \in Kinds /\ kind' = "mutate" /\ phase' = "mut"
            /\ \E b \in 1 .. Len(Base) : toks' = Base[b] /\ label' = "base" \o ToString(b)
            /\ UNCHANGED <<argv, muts, expect>>
Mutate == /\ phase = "mut" /\ muts < MaxMut /\ toks # <<>>
          /\ \E i \in 1 .. Len(toks) :
               \/ toks' = SubSeq(toks, 1, i - 1) \o SubSeq(toks, i + 1, Len(toks))                              \* drop
               \/ toks' = SubSeq(toks, 1, i) \o SubSeq(toks, i, Len(toks))                                      \* duplicate
               \/ i < Len(toks) /\ toks' = SubSeq(toks, 1, i - 1) \o <<toks[i + 1], toks[i]>> \o SubSeq(toks, i + 2, Len(toks))   \* transpose
               \/ toks' = SubSeq(toks, 1, i - 1)                                                                \* truncate
          /\ muts' = muts + 1 /\ UNCHANGED <<kind, argv, expect, label, phase>>
ChooseReject == /\ phase = "start" /\ "reject" \in Kinds /\ kind' = "reject" /\ phase' = "done"
                /\ \E i \in 1 .. Len(Rejects) : argv' = <<Rejects[i].q>> /\ label' = Rejects[i].why
                /\ expect' = "reject" /\ UNCHANGED <<toks, muts>>
ChooseRuntime == /\ phase = "start" /\ "reject" \in Kinds /\ kind' = "runtime" /\ phase' = "done"
                 /\ \E i \in 1 .. Len(Runtime) : argv' = <<Runtime[i].q>> /\ label' = Runtime[i].why
                 /\ expect' = "reject-runtime" /\ UNCHANGED <<toks, muts>>
ChooseFunc == /\ phase = "start" /\ "reject" \in Kinds /\ kind' = "function" /\ phase' = "done"
              /\ \E i \in 1 .. Len(FuncCalls), on \in {"", " from ."} : argv' = <<"select " \o FuncCalls[i] \o on>> /\ label' = "call" \o ToString(i)
              /\ expect' = "total" /\ UNCHANGED <<toks, muts>>
(* whole queries that must end with status 0, 1 or 2: values that are not numbers (NaN, infinity) as sort keys, group keys, filters *)
Totals == << "select name from . order by sqrt(size - 50)", "select name from . order by 0 * size / 0, name", "select name from . order by ln(0 - size) desc",
             "select name, size / 0 from . order by size / 0", "select count(*) from . group by sqrt(size - 50)", "select name from . where sqrt(0 - size) > 1",
             "select max(sqrt(size - 50)), min(ln(0 - size)), avg(size / 0) from .", "select name from . order by size / 0 limit 1",
             "select name from . where modified > '+100000000'", "select name from . where modified < '-99999999999'", "select name from . where modified = +1000",
             "select name from . where modified >= '-9223372036854775807'", "select ext, count(*) from . group by 0", "select ext, count(*) from . group by ext, 0",
             "select ext, count(*) from . group by 00", "select count(*) from . group by 1", "select name from . order by 00", "select name from . limit 0 into json",
             "select name from 'sub/[' depth 1 rx", "select name from '[a' maxdepth 2 regexp", "select name from 's*(' depth 1 rx",
             "select name from . order by -{size + 1}", "select -{size + 1}, +{size} from .", "select name from . where size > -{1 - 3}",
             \* a LIMIT beyond the number of groups (also of no group at all); the home directory as root, written in every way
             "select ext, count(*) from . group by ext limit 50", "select ext, count(*) from . where name = 'nothing' group by ext limit 3",
             "select ext, count(*) from . group by ext order by ext limit 50 into json", "select name from ~", "select name from '~'", "select name from ~nobody depth 1",
             "select name from ~/ depth 1", "select name from ., ~ depth 1" >>
ChooseTotal == /\ phase = "start" /\ "reject" \in Kinds /\ kind' = "query" /\ phase' = "done"
               /\ \E i \in 1 .. Len(Totals) : argv' = <<Totals[i]>> /\ label' = "q" \o ToString(i)
               /\ expect' = "total" /\ UNCHANGED <<toks, muts>>
(* columns that are read from the content of an entry, over a tree with entries that have none to give: a FIFO (opening it for  *)
(* reading would wait for a writer), one that is named like an archive, a socket, a link that leads nowhere                       *)
Specials == << "select name, line_count from .", "select name, sha1, sha256 from .", "select name, is_shebang from .", "select name, has_xattrs, caps from .",
               "select name, mime from .", "select name, is_binary, is_text from .", "select name, contains('x') from .", "select name from . where line_count > 0",
               "select count(*), sum(line_count), max(line_count) from .", "select name, xattr('user.a'), has_xattr('user.a') from .", "select name from . archives",
               "select name, has_caps(), width, duration from .", "select name from . where is_shebang or contains('#') order by name",
               "select name, bitrate, title, exif_make, height from .", "select name, duration, width, mime, sha1 from . order by duration" >>
ChooseSpecial == /\ phase = "start" /\ "reject" \in Kinds /\ kind' = "special-files" /\ phase' = "done"
                 /\ \E i \in 1 .. Len(Specials) : argv' = <<Specials[i]>> /\ label' = "q" \o ToString(i)
                 /\ expect' = "total" /\ UNCHANGED <<toks, muts>>
ChooseArgv == /\ phase = "start" /\ "argv" \in Kinds /\ kind' = "argv" /\ phase' = "done"
              /\ \E i \in 1 .. Len(Argvs) : argv' = Argvs[i] /\ label' = (IF Argvs[i][1] = "" THEN "empty-arg" ELSE Argvs[i][1]) \o "/args" \o ToString(Len(Argvs[i]))
              /\ expect' = "total" /\ UNCHANGED <<toks, muts>>
(* arguments that are not text: given as bytes (the driver passes them on as they are); 255 and 254 are not valid UTF-8 *)
ByteArgvs == << << <<115, 101, 108, 101, 99, 116, 32, 110, 97, 109, 101, 32, 102, 114, 111, 109, 32, 255>> >>,
                << "name", "from", <<255, 46>> >>, << <<255>> >>, << "name", "from", ".", "where", "name", "=", <<39, 254, 39>> >>, << "-c", <<255, 254>>, "name from ." >> >>
ChooseBytes == /\ phase = "start" /\ "argv" \in Kinds /\ kind' = "argv" /\ phase' = "done"
               /\ \E i \in 1 .. Len(ByteArgvs) : argv' = ByteArgvs[i] /\ label' = "not-text" \o ToString(i)
               /\ expect' = "total" /\ UNCHANGED <<toks, muts>>
Next == StartSoup \/ AddTok \/ StartMut \/ Mutate \/ ChooseReject \/ ChooseRuntime \/ ChooseFunc \/ ChooseTotal \/ ChooseSpecial \/ ChooseArgv \/ ChooseBytes
Spec == Init /\ [][Next]_vars

RECURSIVE JoinSp(_)
JoinSp(t) == IF t = <<>> THEN "" ELSE IF Len(t) = 1 THEN t[1] ELSE t[1] \o " " \o JoinSp(Tail(t))
Complete == phase = "done" \/ (phase = "soup" /\ toks # <<>>) \/ (phase = "mut" /\ muts >= 1)
TheArgv == IF phase = "done" THEN argv ELSE <<JoinSp(toks)>>
W10 == [nodes |-> << [id |-> 1, parent |-> 0, kind |-> "dir", name |-> "d"], [id |-> 2, parent |-> 0, kind |-> "file", name |-> "a.txt", content |-> "xx"],
                     [id |-> 3, parent |-> 1, kind |-> "file", name |-> "b.log", content |-> "line\n"], [id |-> 4, parent |-> 0, kind |-> "file", name |-> "x", content |-> ""] >>]
W10s == [nodes |-> << [id |-> 1, parent |-> 0, kind |-> "file", name |-> "a.txt", content |-> "x\n"], [id |-> 2, parent |-> 0, kind |-> "fifo", name |-> "p"],
                      [id |-> 3, parent |-> 0, kind |-> "fifo", name |-> "q.zip"], [id |-> 4, parent |-> 0, kind |-> "socket", name |-> "s"],
                      [id |-> 5, parent |-> 0, kind |-> "symlink", name |-> "l", target |-> -1, tstyle |-> "rel"], [id |-> 6, parent |-> 0, kind |-> "dir", name |-> "d.zip"],
                      [id |-> 7, parent |-> 6, kind |-> "fifo", name |-> "pp"],
                      \* (FIFOs named like media files: readers that are chosen by the extension must not open them either)
                      [id |-> 8, parent |-> 0, kind |-> "fifo", name |-> "v.mkv"], [id |-> 9, parent |-> 0, kind |-> "fifo", name |-> "i.png"],
                      [id |-> 10, parent |-> 0, kind |-> "fifo", name |-> "m.mp3"], [id |-> 11, parent |-> 0, kind |-> "fifo", name |-> "g.svg"] >>]
Scenario == [prop |-> "C10", world |-> (IF kind = "special-files" THEN "W10s" ELSE "W10"), class |-> kind \o "/" \o label, expect |-> expect,
             env |-> [tz |-> "UTC", cwd |-> 0],
             runs |-> << [tag |-> "q", fmt |-> "none", timeout |-> 3, argv |-> TheArgv] >>]
EmitWorld == (phase = "start") => PrintT(<<"WORLD", ToJson([key |-> "W10", world |-> W10])>>) /\ PrintT(<<"WORLD", ToJson([key |-> "W10s", world |-> W10s])>>)
Emit == Complete => PrintT(<<"REPLAY", ToJson(Scenario)>>)
=============================================================================
