SPECIFICATION Spec
CONSTANTS
  MaxK = 3300
  KStep = 7
INVARIANTS EmitWorld Emit
