------------------------------- MODULE Eval ---------------------------------
(* Prop layer: what columns, literals and comparisons mean, written from     *)
(* docs/usage.md and the property statements (C02, C03, C05..C08, C13..C15). *)
(*                                                                           *)
(* An observation record r carries the abstract world (r.world, decided by   *)
(* the generator) and the OS's ground truth (r.snapshot[n]: lstat fields).   *)
(* Values are tagged records:                                                *)
(*   [t |-> "int", v |-> Int]   [t |-> "text", c |-> chars]                  *)
(*   [t |-> "bool", b |-> BOOLEAN]  [t |-> "date", v |-> epoch seconds]      *)
(*   [t |-> "none"]   (the statement does not define the column here)        *)
EXTENDS World, Match, Civil

None == [t |-> "none"]
IntV(v) == [t |-> "int", v |-> v]
TextV(c) == [t |-> "text", c |-> c]
BoolV(b) == [t |-> "bool", b |-> b]
DateV(v) == [t |-> "date", v |-> v]

-----------------------------------------------------------------------------
(* mode bits *)
Bit(x, b) == (x \div b) % 2 = 1
TypeNibble(mode) == (mode \div 4096) % 16
TypeChar(mode) == CASE TypeNibble(mode) = 12 -> "s" [] TypeNibble(mode) = 10 -> "l" [] TypeNibble(mode) = 8 -> "-"
                    [] TypeNibble(mode) = 6 -> "b" [] TypeNibble(mode) = 4 -> "d" [] TypeNibble(mode) = 2 -> "c"
                    [] TypeNibble(mode) = 1 -> "p" [] OTHER -> "?"
Rwx(mode, r, w, x, special, lo, up) ==
  << IF Bit(mode, r) THEN "r" ELSE "-", IF Bit(mode, w) THEN "w" ELSE "-",
     IF Bit(mode, special) THEN (IF Bit(mode, x) THEN lo ELSE up) ELSE (IF Bit(mode, x) THEN "x" ELSE "-") >>
ModeChars(mode) == <<TypeChar(mode)>> \o Rwx(mode, 256, 128, 64, 2048, "s", "S")
                   \o Rwx(mode, 32, 16, 8, 1024, "s", "S") \o Rwx(mode, 4, 2, 1, 512, "t", "T")

-----------------------------------------------------------------------------
(* names and paths (root spelled `.`, cwd = the world's top directory) *)
NameC(w, n) == w.nodes[n].namec
RECURSIVE RelPathC(_, _)
RelPathC(w, n) == IF w.nodes[n].parent = 0 THEN NameC(w, n)
                  ELSE RelPathC(w, w.nodes[n].parent) \o <<"/">> \o NameC(w, n)
PathC(w, n) == <<".", "/">> \o RelPathC(w, n)
DirC(w, n) == IF w.nodes[n].parent = 0 THEN <<".">> ELSE <<".", "/">> \o RelPathC(w, w.nodes[n].parent)
(* extension: text after the last dot, when that dot is not the first character *)
ExtC(nm) == LET k == LastIndexOf(nm, ".") IN IF k <= 1 THEN <<>> ELSE SubSeq(nm, k + 1, Len(nm))

(* content model: a sequence of runs [byte |-> 0..255, count |-> Nat] *)
RECURSIVE CountByte(_, _)
CountByte(content, b) == IF content = <<>> THEN 0
                         ELSE (IF content[1].byte = b THEN content[1].count ELSE 0) + CountByte(Tail(content), b)
RECURSIVE ContentLen(_)
ContentLen(content) == IF content = <<>> THEN 0 ELSE content[1].count + ContentLen(Tail(content))

-----------------------------------------------------------------------------
(* the value of a column for node n of record r *)
ColType(col) ==
  CASE col \in {"name", "path", "ext", "dir", "mode"} -> "text"
    [] col \in {"size", "uid", "gid", "hardlinks", "line_count", "length(name)", "length(name) * 2", "hardlinks + 1", "inode", "blocks"} -> "int"
    [] col \in {"modified"} -> "date"
    [] OTHER -> "bool"

Attr(r, n, col) ==
  LET w == r.world  s == r.snapshot[n]  m == s.mode  k == w.nodes[n].kind IN
  CASE col = "name" -> TextV(NameC(w, n))
    [] col = "path" -> TextV(PathC(w, n))
    [] col = "dir" -> TextV(DirC(w, n))
    [] col = "ext" -> TextV(ExtC(NameC(w, n)))
    [] col = "mode" -> TextV(ModeChars(m))
    [] col = "size" -> IntV(s.sizen)
    [] col = "uid" -> IntV(s.uidn)
    [] col = "gid" -> IntV(s.gidn)
    [] col = "hardlinks" -> IntV(s.nlinkn)
    [] col = "length(name)" -> IntV(Len(NameC(w, n)))
    [] col = "length(name) * 2" -> IntV(2 * Len(NameC(w, n)))          \* (values derived from a column, for `column OP expression`)
    [] col = "hardlinks + 1" -> IntV(s.nlinkn + 1)
    [] col = "line_count" -> IF k = "file" THEN IntV(CountByte(w.nodes[n].content, 10)) ELSE None
    [] col = "modified" -> DateV(s.mtime)
    [] col = "is_dir" -> BoolV(TypeNibble(m) = 4)
    [] col = "is_file" -> BoolV(TypeNibble(m) = 8)
    [] col = "is_symlink" -> BoolV(TypeNibble(m) = 10)
    [] col = "is_pipe" -> BoolV(TypeNibble(m) = 1)
    [] col = "is_char" -> BoolV(TypeNibble(m) = 2)
    [] col = "is_block" -> BoolV(TypeNibble(m) = 6)
    [] col = "is_socket" -> BoolV(TypeNibble(m) = 12)
    [] col = "is_hidden" -> BoolV(NameC(w, n)[1] = ".")
    [] col = "user_read" -> BoolV(Bit(m, 256))
    [] col = "user_write" -> BoolV(Bit(m, 128))
    [] col = "user_exec" -> BoolV(Bit(m, 64))
    [] col = "user_all" -> BoolV(Bit(m, 256) /\ Bit(m, 128) /\ Bit(m, 64))
    [] col = "group_read" -> BoolV(Bit(m, 32))
    [] col = "group_write" -> BoolV(Bit(m, 16))
    [] col = "group_exec" -> BoolV(Bit(m, 8))
    [] col = "group_all" -> BoolV(Bit(m, 32) /\ Bit(m, 16) /\ Bit(m, 8))
    [] col = "other_read" -> BoolV(Bit(m, 4))
    [] col = "other_write" -> BoolV(Bit(m, 2))
    [] col = "other_exec" -> BoolV(Bit(m, 1))
    [] col = "other_all" -> BoolV(Bit(m, 4) /\ Bit(m, 2) /\ Bit(m, 1))
    [] col = "suid" -> BoolV(Bit(m, 2048))
    [] col = "sgid" -> BoolV(Bit(m, 1024))
    [] OTHER -> None

-----------------------------------------------------------------------------
(* literals:  [lk |-> "int", v]  [lk |-> "text", c]  [lk |-> "bool", b]       *)
(*            [lk |-> "date", a, z]  (closed interval of epoch seconds)       *)
(*            [lk |-> "rx", c, astart, aend]  (plain text, optional anchors)  *)
(*            [lk |-> "col", name]                                            *)
(* every literal record also carries `text`, its rendering in the query.     *)
RxSearch(l, s) == LET c == l.c IN
  IF l.astart /\ l.aend THEN s = c ELSE IF l.astart THEN IsPrefixC(c, s)
  ELSE IF l.aend THEN IsSuffixC(c, s) ELSE ContainsC(s, c)

LitValue(r, n, lit) == IF lit.lk = "col" THEN Attr(r, n, lit.name)
                       ELSE IF lit.lk = "int" THEN IntV(lit.v)
                       ELSE IF lit.lk = "dec" THEN [t |-> "dec", n |-> lit.v, d |-> lit.a]
                       ELSE IF lit.lk = "bool" THEN BoolV(lit.b)
                       ELSE IF lit.lk = "date" THEN [t |-> "span", a |-> lit.a, b |-> lit.z]
                       ELSE IF lit.lk = "rx" THEN [t |-> "rx", l |-> lit]
                       ELSE TextV(lit.c)

(* three-valued: "T", "F", or "U" where the statement leaves the case open *)
B3(b) == IF b THEN "T" ELSE "F"
Not3(x) == IF x = "T" THEN "F" ELSE IF x = "F" THEN "T" ELSE "U"
And3(x, y) == IF x = "F" \/ y = "F" THEN "F" ELSE IF x = "T" /\ y = "T" THEN "T" ELSE "U"
Or3(x, y) == IF x = "T" \/ y = "T" THEN "T" ELSE IF x = "F" /\ y = "F" THEN "F" ELSE "U"

IntCmp(op, a, b) == CASE op \in {"eq", "eeq"} -> a = b [] op \in {"ne", "ene"} -> a # b
                      [] op = "gt" -> a > b [] op = "gte" -> a >= b [] op = "lt" -> a < b [] op = "lte" -> a <= b

Compare(op, x, y) ==
  IF x.t = "none" \/ y.t = "none" THEN "U"
  ELSE IF x.t = "int" /\ y.t = "int" /\ op \in {"eq", "eeq", "ne", "ene", "gt", "gte", "lt", "lte"} THEN B3(IntCmp(op, x.v, y.v))
  \* an integer column against a decimal fraction n / d: numeric comparison (x ? n/d  iff  x*d ? n)
  ELSE IF x.t = "int" /\ y.t = "dec" /\ op \in {"eq", "eeq", "ne", "ene", "gt", "gte", "lt", "lte"} THEN B3(IntCmp(op, x.v * y.d, y.n))
  ELSE IF x.t = "bool" /\ y.t = "bool" /\ op \in {"eq", "eeq", "ne", "ene"} THEN B3(IF op \in {"eq", "eeq"} THEN x.b = y.b ELSE x.b # y.b)
  ELSE IF x.t = "date" /\ y.t = "span" THEN
         (CASE op = "eq" -> B3(y.a <= x.v /\ x.v <= y.b) [] op = "ne" -> B3(~(y.a <= x.v /\ x.v <= y.b))
            [] op = "lt" -> B3(x.v < y.a) [] op = "gt" -> B3(x.v > y.b)
            [] op = "lte" -> B3(x.v <= y.b) [] op = "gte" -> B3(x.v >= y.a) [] OTHER -> "U")
  ELSE IF x.t = "date" /\ y.t = "date" THEN
         (IF op \in {"eq", "ne", "gt", "gte", "lt", "lte"} THEN B3(IntCmp(op, x.v, y.v)) ELSE "U")
  ELSE IF x.t = "text" /\ y.t = "text" THEN
         (CASE op = "eq" -> B3(TextEq(y.c, x.c)) [] op = "ne" -> B3(~TextEq(y.c, x.c))
            [] op = "eeq" -> B3(y.c = x.c) [] op = "ene" -> B3(y.c # x.c)
            [] op = "like" -> B3(LikeMatch(y.c, x.c)) [] op = "notlike" -> B3(~LikeMatch(y.c, x.c))
            [] OTHER -> "U")
  ELSE IF x.t = "text" /\ y.t = "rx" THEN
         (CASE op = "rx" -> B3(RxSearch(y.l, x.c)) [] op = "notrx" -> B3(~RxSearch(y.l, x.c)) [] OTHER -> "U")
  ELSE "U"

(* atom: [col, op, lit, lit2]; op = "between"/"notbetween" uses lit..lit2 inclusive *)
HoldsAtom(r, n, a) ==
  LET x == Attr(r, n, a.col) IN
  IF a.op = "between" THEN And3(Compare("gte", x, LitValue(r, n, a.lit)), Compare("lte", x, LitValue(r, n, a.lit2)))
  ELSE IF a.op = "notbetween" THEN Not3(And3(Compare("gte", x, LitValue(r, n, a.lit)), Compare("lte", x, LitValue(r, n, a.lit2))))
  ELSE IF a.op = "istrue" THEN Compare("eq", x, BoolV(TRUE))      \* short boolean syntax
  ELSE Compare(a.op, x, LitValue(r, n, a.lit))

(* formulas: [f |-> "atom", a] | [f |-> "not", x] | [f |-> "and"/"or", x, y]                       *)
(*        or [f |-> "prefix", toks, atoms]: Polish notation over "and" "or" "not" and atom names   *)
(*        (a tuple of strings; atoms is a record mapping each atom name to its atom)              *)
RECURSIVE EvalP(_, _, _, _, _)
EvalP(r, n, toks, i, atoms) ==      \* <<three-valued result, index after the sub-formula>>
  LET t == toks[i] IN
  IF t = "not" THEN LET s == EvalP(r, n, toks, i + 1, atoms) IN <<Not3(s[1]), s[2]>>
  ELSE IF t = "and" THEN LET a == EvalP(r, n, toks, i + 1, atoms)  b == EvalP(r, n, toks, a[2], atoms)
                         IN <<And3(a[1], b[1]), b[2]>>
  ELSE IF t = "or" THEN LET a == EvalP(r, n, toks, i + 1, atoms)  b == EvalP(r, n, toks, a[2], atoms)
                        IN <<Or3(a[1], b[1]), b[2]>>
  ELSE <<HoldsAtom(r, n, atoms[t]), i + 1>>

RECURSIVE Sat3(_, _, _)
Sat3(r, n, f) == CASE f.f = "atom" -> HoldsAtom(r, n, f.a)
                   [] f.f = "prefix" -> EvalP(r, n, f.toks, 1, f.atoms)[1]
                   [] f.f = "not" -> Not3(Sat3(r, n, f.x))
                   [] f.f = "and" -> And3(Sat3(r, n, f.x), Sat3(r, n, f.y))
                   [] f.f = "or" -> Or3(Sat3(r, n, f.x), Sat3(r, n, f.y))
                   [] f.f = "true" -> "T"

Must(r, f, among) == { n \in among : Sat3(r, n, f) = "T" }
May(r, f, among) == { n \in among : Sat3(r, n, f) = "U" }
=============================================================================
