------------------------------- MODULE MC_C09 -------------------------------
(* Binding layer, scenario generator for C09: directories of 0, 1 or 3 files *)
(* with adversarial names x 1 / 3 / 6 columns x result path (streamed,       *)
(* ordered, ordered+limited, single aggregate row, grouped rows) x format.   *)
(* Every scenario runs the query twice: into the format and into `list`.     *)
EXTENDS Chars, Integers, Sequences, TLC, Json

VARIABLES wi, fmt, path, ncols, phase
vars == <<wi, fmt, path, ncols, phase>>

Long == [i \in 1 .. 70 |-> "é"] \o <<"x">>
Long3 == [i \in 1 .. 70 |-> "€"] \o <<"y">>          \* 211 bytes: three-byte characters (a row built from it exceeds any 8 KiB buffer at an odd offset)
NP == << <<"a">>, <<"\"">>, <<",">>, <<"\t">>, <<"\n">>, <<"<">>, <<">">>, <<"&">>, <<"'">>, <<"\\">>, <<"é">>, <<"😀">>, <<"␁">>,
         <<"\"", ",">>, <<"<", "&">>, <<"a", "\"", "b">>, <<"&", "l", "t", ";">>, <<"x", ",", "y">>, <<" ", "a", " ">>, <<"\r">>, Long,
         <<"<", "t", "d", ">">>, <<"\"", "\"">>, <<"b", "\n", "c">>, <<"a", " ", " ", "b">>, <<" ", " ">>, Long3 >>
NN == Len(NP)
(* world w: 0 = empty directory; 1..NN one file; NN+1..2*NN three files *)
Names(w) == IF w = 0 THEN <<>> ELSE IF w <= NN THEN <<NP[w]>>
            ELSE LET i == w - NN IN <<NP[i], NP[(i % NN) + 1], NP[((i + 6) % NN) + 1]>>
World(w) == [nodes |-> [k \in 1 .. Len(Names(w)) |->
               [id |-> k, parent |-> 0, kind |-> "file", name |-> Names(w)[k], content |-> <<[byte |-> 120, count |-> k]>>]]]

Init == wi = 0 /\ fmt = "" /\ path = "" /\ ncols = 0 /\ phase = "start"
Choose == /\ phase = "start"
          /\ wi' \in 0 .. 2 * NN
          /\ fmt' \in {"json", "csv", "html", "tabs", "lines"}
          /\ path' \in {"streamed", "ordered", "limited", "aggregate", "grouped"}
          /\ ncols' \in (IF path' \in {"aggregate", "grouped"} THEN {0} ELSE {1, 3, 6, 10} \cup (IF wi' = NN THEN {45} ELSE {}))       \* 45 = a value of about 9.5 KB       \* 10 = one column that is empty in every row (`ext`: no name has an extension)
          /\ phase' = "done"
Next == Choose
Spec == Init /\ [][Next]_vars

RECURSIVE Rep(_)
Rep(n) == IF n = 0 THEN "" ELSE ", name" \o Rep(n - 1)
ColsText == CASE ncols = 45 -> "name, concat(name" \o Rep(44) \o ")" [] ncols = 10 -> "ext" [] ncols = 1 -> "name" [] ncols = 3 -> "name, size, ext" [] ncols = 6 -> "name, size, ext, is_file, mode, path"
Body == CASE path = "streamed" -> "select " \o ColsText \o " from '.'"
          [] path = "ordered" -> "select " \o ColsText \o " from '.' order by name desc"
          [] path = "limited" -> "select " \o ColsText \o " from '.' order by name limit 2"
          [] path = "aggregate" -> "select count(*), max(size), 'te<x>t & \"q\", z' from '.'"
          [] path = "grouped" -> "select name, count(*) from '.' group by name"
NC == CASE path = "aggregate" -> 3 [] path = "grouped" -> 2 [] ncols = 10 -> 1 [] ncols = 45 -> 2 [] OTHER -> ncols
(* the Display text of each column's expression (what the JSON writer model keys a value by), as characters *)
KName == <<"N","a","m","e">>
KSize == <<"S","i","z","e">>
KExt == <<"E","x","t","e","n","s","i","o","n">>
RECURSIVE KRep(_)
KRep(n) == IF n = 0 THEN <<>> ELSE <<",", " ">> \o KName \o KRep(n - 1)
Keys == CASE path = "aggregate" -> << <<"C","o","u","n","t","(","*",")">>, <<"M","a","x","(">> \o KSize \o <<")">>,
                                      <<"t","e","<","x",">","t"," ","&"," ","\"","q","\"",","," ","z">> >>
          [] path = "grouped" -> << KName, <<"C","o","u","n","t","(","*",")">> >>
          [] ncols = 45 -> << KName, <<"C","o","n","c","a","t","(">> \o KName \o KRep(44) \o <<")">> >>
          [] ncols = 10 -> << KExt >>
          [] ncols = 1 -> << KName >>
          [] ncols = 3 -> << KName, KSize, KExt >>
          [] ncols = 6 -> << KName, KSize, KExt, <<"I","s","F","i","l","e">>, <<"M","o","d","e">>, <<"P","a","t","h">> >>
Scenario == [prop |-> "C09", keys |-> Keys, class |-> fmt \o "/" \o path, world |-> World(wi), fmt |-> fmt, path |-> path, ncols |-> NC,
             env |-> [tz |-> "UTC", cwd |-> 0],
             runs |-> << [tag |-> "list", fmt |-> "chars", argv |-> << Body \o " into list" >>],
                         [tag |-> "f", fmt |-> "chars", argv |-> << Body \o " into " \o fmt >>] >>]
Emit == phase = "done" => PrintT(<<"REPLAY", ToJson(Scenario)>>)
=============================================================================
