SPECIFICATION Spec
CONSTANTS
  MaxOps = 3
  Tables = {1, 2, 3, 4}
  WorldSel = {0}
  KnownWords <- MCKnown
INVARIANTS MechRefinesProp SameText
