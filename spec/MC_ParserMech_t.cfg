SPECIFICATION Spec
CONSTANTS
  MaxOps = 3
  Tables = {1, 2, 3}
  KnownWords <- MCKnown
INVARIANTS MechRefinesProp SameText
