SPECIFICATION Spec
CONSTANTS
  KnownWords <- MCKnownA
INVARIANTS OneAgrees PairsAgree BracketPairsAgree ListsAgree Defined
CHECK_DEADLOCK FALSE
