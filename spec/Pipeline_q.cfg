SPECIFICATION Spec
CONSTANTS
  MaxEntries = 5
  Limits = {0, 1, 2, 3, 6}
INVARIANTS GrammarAtEnd GrammarAlways CountAtEnd GroupBounds StreamPrefix RawComplete NoWorkAfterLimit
PROPERTIES Terminates RefinesInd
