------------------------------- MODULE Ignore -------------------------------
(* Prop layer: reference matchers for the generated subset of .hgignore and  *)
(* .dockerignore patterns (C20).  git's own verdict is taken from            *)
(* `git check-ignore` (recorded by the driver), so no git matcher is needed. *)
(*                                                                           *)
(* A glob is a sequence of tokens: "**", "*", "?", or a literal character    *)
(* (including "/").  Paths are character sequences relative to the directory *)
(* that holds the ignore file, without a leading "./".                       *)
(*   *   any run of characters within one path component                     *)
(*   **  any run of characters, across components; "**" "/" also matches     *)
(*       no component at all                                                 *)
(*   ?   exactly one character of a component                                *)
(* Mercurial (hgignore(5)): patterns are not rooted - a glob matches if it   *)
(* matches from some component boundary up to a component end; whatever lies *)
(* below a matched directory is ignored too.  regexp lines are searched for  *)
(* in the path (Regex.tla subset), "^" anchors at the start of the path.     *)
(* Docker (.dockerignore): patterns are rooted at the context directory; a   *)
(* path is excluded when it or one of its ancestors matches; the last        *)
(* matching line decides, a line starting with "!" re-includes.              *)
EXTENDS Regex

RECURSIVE PG(_, _)
PG(p, s) ==
  IF p = <<>> THEN s = <<>>
  ELSE IF p[1] = "**" THEN
          (\E k \in 0 .. Len(s) : PG(Tail(p), SubSeq(s, k + 1, Len(s))))
          \/ (Len(p) >= 2 /\ p[2] = "/" /\ PG(SubSeq(p, 3, Len(p)), s))
  ELSE IF p[1] = "*" THEN \E k \in 0 .. Len(s) : (\A i \in 1 .. k : s[i] # "/") /\ PG(Tail(p), SubSeq(s, k + 1, Len(s)))
  ELSE IF s = <<>> THEN FALSE
  ELSE IF p[1] = "?" THEN s[1] # "/" /\ PG(Tail(p), Tail(s))
  ELSE p[1] = s[1] /\ PG(Tail(p), Tail(s))

Starts(path) == {1} \cup { i + 1 : i \in { j \in 1 .. Len(path) : path[j] = "/" } }
Ends(path) == {Len(path)} \cup { i - 1 : i \in { j \in 1 .. Len(path) : path[j] = "/" } }

HgGlob(g, path) == \E i \in Starts(path), j \in Ends(path) : i <= j /\ PG(g, SubSeq(path, i, j))
(* a regexp line matches the path or a leading directory part of it followed by a slash (then everything below is ignored) *)
HgRegexp(rx, path) == RxMatch(rx, path)
HgIgnored(lines, path) == \E k \in 1 .. Len(lines) :
                            IF lines[k].kind = "hgglob" THEN HgGlob(lines[k].glob, path)
                            ELSE IF lines[k].kind = "hgrx" THEN HgRegexp(lines[k].rx, path) ELSE FALSE

DockerLineMatches(g, path) == \E j \in Ends(path) : PG(g, SubSeq(path, 1, j))
RECURSIVE DockerVerdict(_, _, _, _)
DockerVerdict(lines, path, k, acc) ==        \* the last matching line decides
  IF k > Len(lines) THEN acc
  ELSE IF lines[k].kind = "docker" /\ DockerLineMatches(lines[k].glob, path) THEN DockerVerdict(lines, path, k + 1, ~lines[k].neg)
  ELSE DockerVerdict(lines, path, k + 1, acc)
DockerIgnored(lines, path) == DockerVerdict(lines, path, 1, FALSE)
=============================================================================
