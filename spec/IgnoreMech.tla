----------------------------- MODULE IgnoreMech -----------------------------
(* Mech layer: the hgignore / dockerignore matchers as src/ignore/hg.rs and  *)
(* src/ignore/docker.rs build them - a line of the ignore file is read       *)
(* character by character (convert_path_glob) into regular-expression pieces *)
(* that are appended to an anchored prefix naming the directory of the       *)
(* ignore file, and the compiled expression is searched for in the absolute  *)
(* path of every entry.  The pieces and what the regex crate lets them match *)
(*   "optdirs"  (?:.*/)?   nothing, or a run without line feeds ending in /  *)
(*   "any"      .*         a run without line feeds                          *)
(*   "seg"      [^/]*      a run without slashes                             *)
(*   "one"      [^/]       one character other than a slash                  *)
(*   "end"      (?:/|$)    a slash, or the end of the path                   *)
(*   c          escape(c)  the character itself                              *)
(* Paths are given relative to the directory of the ignore file (the part    *)
(* that `^root/` has consumed is left out).                                  *)
EXTENDS Ignore

RECURSIVE Conv(_)
Conv(cs) ==
  IF cs = <<>> THEN <<>>
  ELSE IF cs[1] = "*" /\ Len(cs) >= 3 /\ cs[2] = "*" /\ cs[3] = "/" THEN <<"optdirs">> \o Conv(SubSeq(cs, 4, Len(cs)))
  ELSE IF cs[1] = "*" /\ Len(cs) >= 2 /\ cs[2] = "*" THEN <<"any">> \o Conv(SubSeq(cs, 3, Len(cs)))
  ELSE IF cs[1] = "*" THEN <<"seg">> \o Conv(Tail(cs))
  ELSE IF cs[1] = "?" THEN <<"one">> \o Conv(Tail(cs))
  ELSE <<cs[1]>> \o Conv(Tail(cs))

RECURSIVE TrimEnd(_)
TrimEnd(cs) == IF cs # <<>> /\ cs[Len(cs)] = "/" THEN TrimEnd(SubSeq(cs, 1, Len(cs) - 1)) ELSE cs       \* trim_end_matches('/')
RECURSIVE TrimStart(_)
TrimStart(cs) == IF cs # <<>> /\ cs[1] \in {"/", "\\"} THEN TrimStart(Tail(cs)) ELSE cs                  \* trim_start_matches(['/', '\\'])

(* PM(ps, s): the lengths of the prefixes of s that the pieces ps can match (a backtracking regular-expression matcher) *)
RECURSIVE PM(_, _)
PM(ps, s) ==
  IF ps = <<>> THEN {0}
  ELSE LET p == ps[1]  n == Len(s)
           NoLF(k) == \A i \in 1 .. k : s[i] # "\n"
           first == CASE p = "optdirs" -> {0} \cup { k \in 1 .. n : s[k] = "/" /\ NoLF(k) }
                      [] p = "any" -> { k \in 0 .. n : NoLF(k) }
                      [] p = "seg" -> { k \in 0 .. n : \A i \in 1 .. k : s[i] # "/" }
                      [] p = "one" -> IF n >= 1 /\ s[1] # "/" THEN {1} ELSE {}
                      [] p = "end" -> IF n = 0 THEN {0} ELSE IF s[1] = "/" THEN {1} ELSE {}
                      [] OTHER -> IF n >= 1 /\ s[1] = p THEN {1} ELSE {}
       IN UNION { { k + j : j \in PM(Tail(ps), SubSeq(s, k + 1, n)) } : k \in first }

(* convert_hgignore_glob: ^root/ (?:.*/)? glob (?:/|$), searched for (nothing anchors the end) *)
HgGlobMech(cs, path) == PM(<<"optdirs">> \o Conv(TrimEnd(cs)) \o <<"end">>, path) # {}
(* convert_hgignore_regexp: `^rest` -> ^root/rest ; otherwise ^root/.*regexp *)
HgRegexpMech(rx, path) ==
  \E st \in (IF rx.astart THEN {0} ELSE { k \in 0 .. Len(path) : \A i \in 1 .. k : path[i] # "\n" }) :
     \E k \in MatchHere(rx.els, SubSeq(path, st + 1, Len(path))) : (~rx.aend) \/ st + k = Len(path)
(* matches_hgignore_filter: some filter matches *)
HgIgnoredMech(lines, path) == \E k \in 1 .. Len(lines) :
   IF lines[k].kind = "hgglob" THEN HgGlobMech(lines[k].chars, path)
   ELSE IF lines[k].kind = "hgrx" THEN HgRegexpMech(lines[k].rx, path) ELSE FALSE

(* convert_dockerignore_pattern: a leading `!` negates and is stripped (strip_prefix); convert_dockerignore_glob: ^root/ glob (?:/|$) *)
DockerNeg(cs) == cs # <<>> /\ cs[1] = "!"
DockerLineMech(cs, path) ==
  LET body == IF DockerNeg(cs) THEN Tail(cs) ELSE cs IN PM(Conv(TrimEnd(TrimStart(body))) \o <<"end">>, path) # {}
(* matches_dockerignore_filter: the fold `matched = !negate` over the matching filters, in file order *)
RECURSIVE DockerFold(_, _, _, _)
DockerFold(lines, path, k, matched) ==
  IF k > Len(lines) THEN matched
  ELSE IF lines[k].kind = "docker" /\ DockerLineMech(lines[k].chars, path) THEN DockerFold(lines, path, k + 1, ~DockerNeg(lines[k].chars))
  ELSE DockerFold(lines, path, k + 1, matched)
DockerIgnoredMech(lines, path) == DockerFold(lines, path, 1, FALSE)

(* The reading of a line that the Prop layer uses: tokens, `**` wherever two stars stand together *)
RECURSIVE Tok(_)
Tok(cs) == IF cs = <<>> THEN <<>>
           ELSE IF cs[1] = "*" /\ Len(cs) >= 2 /\ cs[2] = "*" THEN <<"**">> \o Tok(SubSeq(cs, 3, Len(cs)))
           ELSE <<cs[1]>> \o Tok(Tail(cs))
=============================================================================
