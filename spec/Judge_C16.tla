----------------------------- MODULE Judge_C16 ------------------------------
(* Binding layer, trace judge for C16.  The record carries a call tree; the  *)
(* judge evaluates it bottom-up with Funcs!Apply (so composition is          *)
(* F applied to the value of G) for the literal case, or for every entry of  *)
(* the world when a column occurs, and compares with the printed cell(s).    *)
(* A crash (panic / signal) or a hang is never accepted.                     *)
EXTENDS Funcs, Agg, Arith, TLC, Json, IOUtils

Rec == ndJsonDeserialize(IOEnv.OBS)
VARIABLE l

ColText(r, n, nm) == IF nm = "name" THEN r.world.nodes[n].namec ELSE r.snapshot[n].sizec

RECURSIVE Value(_, _, _)
Value(r, n, a) ==          \* an Expected record
  IF a.t = "lit" THEN Text(a.c)
  ELSE IF a.t = "col" THEN Text(ColText(r, n, a.name))
  ELSE LET vals == [i \in 1 .. Len(a.args) |-> AsText(Value(r, n, a.args[i]))] IN
       IF \E i \in 1 .. Len(vals) : ~vals[i].ok THEN Undef
       ELSE Apply(a.fn, [i \in 1 .. Len(vals) |-> vals[i].c])

CellOk(x, cell, status) ==
  CASE x.k = "text" -> cell = x.c
    [] x.k = "int" -> CellIsInt(cell, x.v)
    [] x.k = "ratio" -> LET d == ParseDec(cell) IN d.ok /\ ~d.neg /\ CloseRel(d.num, Pow10(d.scale), FromInt(x.n), FromInt(x.d), 9)
    [] x.k = "sqrt" -> LET d == ParseDec(cell) IN d.ok /\ ~d.neg /\ CloseRel(Mul(d.num, d.num), Pow10(2 * d.scale), FromInt(x.v), <<1>>, 9)
    \* beyond 2^53 a float prints its shortest round-trip digits, zero padded: accept within relative 10^-9
    [] x.k = "big" -> AllDigits(cell) /\ CloseRel(FromDigits([i \in 1 .. Len(cell) |-> DigitVal(cell[i])]), <<1>>, x.n, <<1>>, 9)
    [] x.k = "words" -> Words(cell) = x.w
    [] x.k = "ftime" -> FTimeOk(cell, x.v)
    [] x.k = "wrong" -> cell = <<>> \/ status = 2
    [] x.k = "undef" -> TRUE

Verdict(r) ==
  LET o    == r.obs.q
      rows == o.rows
      all  == NodeIds(r.world)
      NodeOf(c) == IF \E n \in all : r.world.nodes[n].namec = c THEN CHOOSE n \in all : r.world.nodes[n].namec = c ELSE 0
      lit  == Value(r, 1, r.call)
      y == IF o.timed_out THEN "timeout"
           ELSE IF o.panic THEN "crash"
           ELSE IF ~r.oncol THEN
                  (IF o.status = 2 THEN (IF lit.k \in {"wrong", "undef"} THEN "ok" ELSE "rejected-as-malformed")
                   ELSE IF Len(rows) # 1 THEN (IF lit.k \in {"wrong", "undef"} /\ Len(rows) = 0 THEN "ok" ELSE "not-one-row")
                   ELSE IF CellOk(lit, rows[1][1], o.status) THEN "ok" ELSE "wrong-value:" \o lit.k)
           ELSE (IF o.status = 2 THEN (IF \A n \in all : Value(r, n, r.call).k \in {"wrong", "undef"} THEN "ok" ELSE "rejected-as-malformed")
                 ELSE IF { NodeOf(rows[i][1]) : i \in 1 .. Len(rows) } # all \/ Len(rows) # Cardinality(all) THEN "wrong-row-set"
                 ELSE IF \A i \in 1 .. Len(rows) : CellOk(Value(r, NodeOf(rows[i][1]), r.call), rows[i][2], o.status) THEN "ok"
                 ELSE "wrong-value")
  IN [id |-> r.id, ok |-> (y = "ok"), class |-> r.class, why |-> y, key |-> "C16/" \o r.class \o "/" \o y,
      nontrivial |-> (IF r.oncol THEN \E n \in all : Value(r, n, r.call).k \notin {"wrong", "undef"} ELSE lit.k \notin {"wrong", "undef"})]

Init == l = 1
Next == /\ l <= Len(Rec)
        /\ PrintT(<<"VERDICT", ToJson(Verdict(Rec[l]))>>)
        /\ l' = l + 1
Spec == Init /\ [][Next]_l
Judged == PrintT(<<"JUDGED", ToJson([n |-> TLCGet("stats").diameter - 1])>>)
=============================================================================
