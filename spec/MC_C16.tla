------------------------------- MODULE MC_C16 -------------------------------
(* Binding layer, scenario generator for C16: a table of function calls      *)
(* (function x argument classes from the quantifier, nesting up to depth 3), *)
(* on literals and on the name/size columns of world W16.  One TLC state per *)
(* case; the call tree is passed through to the judge.                       *)
EXTENDS Chars, Integers, Sequences, TLC, Json

L(c) == [t |-> "lit", c |-> c, num |-> FALSE]
Num(c) == [t |-> "lit", c |-> c, num |-> TRUE]
Col(nm) == [t |-> "col", name |-> nm]
C(fn, args) == [t |-> "call", fn |-> fn, args |-> args]

(* argument pools *)
Empty == <<>>
Abc == <<"a","b","c">>
Hello == <<"h","E","l","l","o"," "," ","w","O","R","L","D"," ","x">>
Padded == <<" "," ","a"," ","b","\t"," ">>
Polish == <<"ż","ó","ł","ć"," ","É">>
Combining == <<"e","́","x">>
Ababa == <<"a","b","a","b","a">>
Aaa == <<"a","a","a">>
Date1 == <<"2","0","1","7","-","0","5","-","0","1">>
Date2 == <<"2","0","1","6","-","1","2","-","3","1">>
Date3 == <<"2","0","1","6","-","0","2","-","2","9">>
Stamp == <<"2","0","1","7","-","0","1","-","0","1"," ","2","3",":","5","9",":","5","9">>
NotDate == <<"n","o","p","e">>
D(n) == DigitsOfNat(n)
Neg(n) == <<"-">> \o DigitsOfNat(n)
Frac == <<"2",".","5">>
Huge == <<"9","9","9","9","9","9","9","9","9","9","9","9","9","9","9","9","9","9","9","9","9","9">>
Texts == <<Abc, Hello, Padded, Polish, Combining, Ababa, Empty>>

Unary(fn, pool) == [i \in 1 .. Len(pool) |-> C(fn, <<L(pool[i])>>)]
StringCases ==
  Unary("lower", Texts) \o Unary("upper", Texts) \o Unary("initcap", Texts) \o Unary("length", Texts)
  \o Unary("trim", Texts) \o Unary("ltrim", Texts) \o Unary("rtrim", Texts) \o Unary("to_base64", <<Abc, Hello, Padded, <<"a">>, <<"a","b">>>>)
  \o [i \in 1 .. 5 |-> C("from_base64", <<C("to_base64", <<L(Texts[i])>>)>>)]
SubstrCases ==
  << C("substr", <<L(Hello), Num(D(1))>>), C("substr", <<L(Hello), Num(D(3)), Num(D(4))>>), C("substr", <<L(Hello), Num(Neg(3))>>),
     C("substr", <<L(Hello), Num(Neg(5)), Num(D(2))>>), C("substr", <<L(Abc), Num(D(3))>>), C("substr", <<L(Abc), Num(D(4))>>),
     C("substr", <<L(Abc), Num(D(9)), Num(D(2))>>), C("substr", <<L(Abc), Num(D(2)), Num(D(99))>>), C("substr", <<L(Abc), Num(Neg(3))>>),
     C("substr", <<L(Abc), Num(Neg(1)), Num(D(5))>>), C("substr", <<L(Polish), Num(Neg(4))>>), C("substr", <<L(Polish), Num(D(2)), Num(D(2))>>),
     C("substr", <<L(Combining), Num(Neg(2))>>), C("substr", <<L(Polish), Num(Neg(6))>>), C("substr", <<L(Abc), Num(Neg(9))>>),
     C("substr", <<L(Abc), L(<<"x">>)>>), C("substr", <<L(Abc), Num(D(1)), L(<<"y">>)>>), C("substr", <<L(Abc), Num(D(1)), Num(Neg(2))>>),
     C("substr", <<L(Abc), Num(Frac)>>), C("substr", <<L(Abc), Num(Huge)>>) >>
ReplaceCases ==
  << C("replace", <<L(Ababa), L(<<"a","b","a">>), L(<<"X">>)>>), C("replace", <<L(Aaa), L(<<"a","a">>), L(<<"b">>)>>),
     C("replace", <<L(Ababa), L(<<"b">>), L(<<"b","b">>)>>), C("replace", <<L(Hello), L(<<" ">>), L(<<"_">>)>>),
     C("replace", <<L(Polish), L(<<"ó","ł">>), L(<<"o","l">>)>>), C("replace", <<L(Abc), L(<<"z">>), L(<<"y">>)>>),
     C("replace", <<L(Abc), L(<<"b">>), L(Empty)>>), C("replace", <<L(Abc), L(<<"b">>)>>), C("replace", <<L(Abc), L(<<"A">>), L(<<"x">>)>>) >>
ConcatCases ==
  << C("concat", <<L(Abc), L(<<"-">>), L(Polish)>>), C("concat", <<L(Abc)>>), C("concat", <<L(<<"x"," ">>), L(Abc), L(<<"!">>), L(Abc)>>),
     C("concat_ws", <<L(<<"-">>), L(Abc), L(<<"d">>), L(<<"e">>)>>), C("concat_ws", <<L(<<",", " ">>), L(Abc), L(Polish)>>),
     C("coalesce", <<L(Abc), L(<<"z">>)>>), C("coalesce", <<L(Empty), L(<<"z">>)>>), C("coalesce", <<L(Empty), L(Empty), L(Abc)>>),
     C("coalesce", <<C("substr", <<L(Abc), Num(D(9))>>), L(<<"d","f","l","t">>)>>),
     \* (text that consists of blanks is not empty)
     C("coalesce", <<L(<<" ">>), L(<<"z">>)>>), C("coalesce", <<L(Empty), L(<<" ", " ">>), L(Abc)>>), C("length", <<C("coalesce", <<L(<<" ", " ">>), L(Abc)>>)>>) >>
Nums == <<D(0), D(1), D(5), D(8), D(255), D(1024), D(65535)>>
NumCases ==
  Unary("bin", Nums) \o Unary("hex", Nums) \o Unary("oct", Nums)
  \o << C("bin", <<L(<<"x">>)>>), C("hex", <<L(Frac)>>), C("oct", <<L(Empty)>>), C("bin", <<Num(Huge)>>),
        C("abs", <<Num(Neg(5))>>), C("abs", <<Num(D(7))>>), C("abs", <<Num(D(0))>>), C("abs", <<L(<<"q">>)>>),
        C("power", <<Num(D(2)), Num(D(9))>>), C("power", <<Num(D(3)), Num(D(0))>>), C("power", <<Num(D(10)), Num(D(3))>>),
        C("concat_ws", <<L(<<"-">>), L(<<"a">>), L(<<>>), L(<<"b">>)>>), C("concat_ws", <<L(<<",">>), L(<<>>), L(<<>>), L(<<>>)>>), C("length", <<C("concat_ws", <<L(<<"|">>), L(<<>>), L(<<"x">>)>>)>>),
        C("power", <<Num(Neg(2)), Num(D(3))>>), C("power", <<Num(D(16)), Num(<<"0", ".", "5">>)>>), C("power", <<Num(D(9)), Num(<<"1", ".", "5">>)>>),
        C("power", <<Num(D(2)), Num(Neg(1))>>), C("power", <<Num(D(4)), Num(Neg(2))>>), C("power", <<Num(D(1024)), Num(<<"0", ".", "5">>)>>), C("power", <<Num(D(2)), Num(D(70))>>), C("power", <<Num(D(2)), Num(D(63))>>), C("power", <<Num(D(10)), Num(D(20))>>),
        C("length", <<C("power", <<Num(D(10)), Num(D(6))>>)>>), C("power", <<Num(D(2)), Num(D(31))>>), C("power", <<Num(D(2)), L(<<"x">>)>>), C("power", <<L(<<"x">>), Num(D(2))>>),
        C("sqrt", <<Num(D(25))>>), C("sqrt", <<Num(D(0))>>), C("sqrt", <<Num(D(2))>>), C("sqrt", <<Num(D(10))>>), C("sqrt", <<Num(D(1024))>>), C("sqrt", <<L(<<"x">>)>>),
        C("log", <<Num(D(1000))>>), C("log", <<Num(D(1))>>), C("log", <<Num(D(10))>>), C("log", <<L(<<"x">>)>>),
        C("ln", <<Num(D(1))>>), C("ln", <<L(<<"x">>)>>), C("exp", <<Num(D(0))>>), C("exp", <<L(<<"x">>)>>),
        C("least", <<Num(D(3)), Num(D(1)), Num(D(2))>>), C("least", <<Num(D(10)), Num(D(9))>>), C("least", <<Num(Neg(1)), Num(D(0))>>), C("least", <<Num(D(4))>>),
        C("greatest", <<Num(D(3)), Num(D(1)), Num(D(2))>>), C("greatest", <<Num(D(9)), Num(D(10))>>), C("greatest", <<Num(Neg(1)), Num(Neg(7))>>),
        C("least", <<L(<<"x">>), Num(D(1))>>), C("greatest", <<L(<<"x">>), Num(D(1))>>),
        C("format_time", <<Num(D(0))>>), C("format_time", <<Num(D(59))>>), C("format_time", <<Num(D(60))>>), C("format_time", <<Num(D(3725))>>),
        C("format_time", <<Num(D(86399))>>), C("format_time", <<Num(D(86400))>>), C("format_time", <<Num(D(90061))>>), C("format_time", <<Num(D(31536000))>>),
        C("format_time", <<L(<<"x">>)>>), C("format_time", <<Num(Frac)>>), C("format_time", <<Num(Neg(5))>>) >>
(* wall-clock times that the zone of the second run (Europe/Berlin) skips in spring and repeats in autumn: texts like any other for the date-part functions *)
Gap == <<"2","0","2","4","-","0","3","-","3","1"," ","0","2",":","3","0",":","0","0">>
Overlap == <<"2","0","2","4","-","1","0","-","2","7"," ","0","2",":","3","0",":","0","0">>
Dates == <<Date1, Date2, Date3, Stamp, Gap, Overlap>>
DateCases == Unary("year", Dates) \o Unary("month", Dates) \o Unary("day", Dates) \o Unary("dow", Dates)
             \o << C("year", <<L(<<"r","e","p","-","2","0","2","3","-","1","2","-","3","1",".","t","x","t">>)>>), C("day", <<L(<<"d","u","e"," ","2","0","2","4","-","0","2","-","2","9">>)>>),
                    C("month", <<L(<<"2","0","1","7","-","0","5","-","0","1","x">>)>>), C("dow", <<L(<<"x","2","0","1","7","-","0","5","-","0","1">>)>>) >>
             \o << C("year", <<L(NotDate)>>), C("month", <<L(Empty)>>), C("day", <<L(<<"2","0","1","7">>)>>), C("dow", <<L(NotDate)>>) >>
NestedCases ==
  << C("length", <<C("substr", <<C("upper", <<L(Hello)>>), Num(D(2)), Num(D(3))>>)>>),
     C("upper", <<C("substr", <<L(Polish), Num(Neg(4)), Num(D(2))>>)>>),
     C("lower", <<C("concat", <<L(Hello), C("upper", <<L(Abc)>>)>>)>>),
     C("replace", <<C("lower", <<L(Hello)>>), L(<<"l">>), C("upper", <<L(<<"l">>)>>)>>),
     C("length", <<C("trim", <<L(Padded)>>)>>), C("hex", <<C("length", <<L(Hello)>>)>>),
     C("abs", <<C("least", <<Num(Neg(4)), Num(D(2))>>)>>), C("power", <<C("length", <<L(Abc)>>), Num(D(2))>>),
     C("substr", <<C("concat", <<L(Abc), L(Polish)>>), C("length", <<L(Abc)>>)>>),
     C("concat_ws", <<L(<<"/">>), C("year", <<L(Date1)>>), C("month", <<L(Date1)>>), C("day", <<L(Date1)>>)>>),
     C("initcap", <<C("lower", <<C("upper", <<L(Hello)>>)>>)>>), C("to_base64", <<C("substr", <<L(Hello), Num(D(1)), Num(D(3))>>)>>) >>
ColumnCases ==
  << C("lower", <<Col("name")>>), C("upper", <<Col("name")>>), C("length", <<Col("name")>>), C("initcap", <<Col("name")>>),
     C("substr", <<Col("name"), Num(D(2)), Num(D(3))>>), C("substr", <<Col("name"), Num(Neg(3))>>), C("substr", <<Col("name"), Num(D(6))>>),
     C("replace", <<Col("name"), L(<<".">>), L(<<"_">>)>>), C("concat", <<Col("name"), L(<<"|">>), Col("size")>>),
     C("concat_ws", <<L(<<":">>), Col("size"), Col("name")>>), C("coalesce", <<C("substr", <<Col("name"), Num(D(5))>>), L(<<"s","h","o","r","t">>)>>),
     C("hex", <<Col("size")>>), C("bin", <<Col("size")>>), C("oct", <<Col("size")>>), C("abs", <<Col("size")>>), C("power", <<Col("size"), Num(D(2))>>), C("power", <<Num(D(2)), Col("size")>>),
     C("sqrt", <<Col("size")>>), C("least", <<Col("size"), Num(D(100))>>), C("greatest", <<Col("size"), Num(D(100))>>), C("format_time", <<Col("size")>>),
     C("length", <<C("upper", <<C("substr", <<Col("name"), Num(D(1)), Num(D(4))>>)>>)>>), C("upper", <<C("replace", <<C("lower", <<Col("name")>>), L(<<"t">>), L(<<"T","T">>)>>)>>),
     C("bin", <<Col("name")>>), C("year", <<Col("name")>>), C("format_time", <<Col("name")>>) >>

Cases == StringCases \o SubstrCases \o ReplaceCases \o ConcatCases \o NumCases \o DateCases \o NestedCases \o ColumnCases

FN(i, nm, sz) == [id |-> i, parent |-> 0, kind |-> "file", namec |-> nm, name |-> Str(nm), content |-> <<[byte |-> 120, count |-> sz]>>]
W16 == [nodes |-> << FN(1, <<"a","b","c",".","t","x","t">>, 0 + 25), FN(2, <<"ż","ó","ł","ć",".","T","X","T">>, 1024),
                     FN(3, <<"a"," ","b">>, 2), FN(4, <<"h","E","l","l","o"," ","w","O","R","L","D">>, 3725), FN(5, <<"2","0","1","7","-","0","5","-","0","1">>, 7) >>]

VARIABLES idx, zone, phase
Init == idx = 0 /\ zone = "UTC" /\ phase = "start"
(* the date-part functions are also run in a zone with daylight saving time: their value is read off the text and must not depend on the zone *)
Next == phase = "start" /\ idx' \in 1 .. Len(Cases) /\ phase' = "done"
        /\ zone' \in (IF Cases[idx'].fn \in {"year", "month", "day", "dow"} THEN {"UTC", "Europe/Berlin"} ELSE {"UTC"})
Spec == Init /\ [][Next]_<<idx, zone, phase>>

RECURSIVE ArgText(_), ArgsText(_, _), UsesCol(_), Depth(_), HasEmpty(_)
Quote(c) == IF HasChar(c, "'") THEN "\"" \o Str(c) \o "\"" ELSE "'" \o Str(c) \o "'"
ArgText(a) == IF a.t = "lit" THEN (IF a.num THEN Str(a.c) ELSE Quote(a.c))
              ELSE IF a.t = "col" THEN a.name
              ELSE a.fn \o "(" \o ArgsText(a.args, 1) \o ")"
ArgsText(args, i) == IF i > Len(args) THEN "" ELSE (IF i > 1 THEN ", " ELSE "") \o ArgText(args[i]) \o ArgsText(args, i + 1)
UsesCol(a) == IF a.t = "col" THEN TRUE ELSE IF a.t = "lit" THEN FALSE ELSE \E i \in 1 .. Len(a.args) : UsesCol(a.args[i])
HasEmpty(a) == IF a.t = "lit" THEN a.c = <<>> ELSE IF a.t = "col" THEN FALSE ELSE \E i \in 1 .. Len(a.args) : HasEmpty(a.args[i])
Depth(a) == IF a.t # "call" THEN 0 ELSE 1 + (IF a.args = <<>> THEN 0 ELSE CHOOSE d \in 0 .. 5 :
                 (\E i \in 1 .. Len(a.args) : Depth(a.args[i]) = d) /\ (\A i \in 1 .. Len(a.args) : Depth(a.args[i]) <= d))
Case == Cases[idx]
Scenario == [prop |-> "C16", world |-> "W16",
             class |-> Case.fn \o (IF UsesCol(Case) THEN "/column" ELSE "/literal") \o (IF Depth(Case) > 1 THEN "/nested" ELSE "")
                       \o (IF HasEmpty(Case) THEN "/empty-literal" ELSE "") \o (IF zone = "UTC" THEN "" ELSE "/dst-zone"),
             call |-> Case, oncol |-> UsesCol(Case),
             env |-> [tz |-> zone, cwd |-> 0],
             runs |-> << [tag |-> "q", ncols |-> IF UsesCol(Case) THEN 2 ELSE 1, chars |-> TRUE,
                          argv |-> << IF UsesCol(Case) THEN "select name, " \o ArgText(Case) \o " from '.' into list"
                                      ELSE "select " \o ArgText(Case) \o " into list" >>] >>]
EmitWorld == (phase = "start") => PrintT(<<"WORLD", ToJson([key |-> "W16", world |-> W16])>>)
Emit == phase = "done" => PrintT(<<"REPLAY", ToJson(Scenario)>>)
=============================================================================
