SPECIFICATION Spec
CONSTANTS
  MaxLen = 2
  RxChars = {"a", ".", "+", "ANY"}
  Ops = {"rx", "notrx"}
INVARIANTS EmitWorld Emit
