------------------------------- MODULE BigNat -------------------------------
(* Prop layer: natural numbers beyond TLC's 32-bit integers (file sizes,     *)
(* sums of squares).  A BigNat is a sequence of limbs base 10^4, least       *)
(* significant first, without high zero limbs (<<>> = 0).  Decimal fractions *)
(* are pairs [num |-> BigNat, scale |-> k] meaning num / 10^k.               *)
EXTENDS Integers, Sequences, TLC

B == 10000

RECURSIVE Norm(_)
Norm(a) == IF a # <<>> /\ a[Len(a)] = 0 THEN Norm(SubSeq(a, 1, Len(a) - 1)) ELSE a

RECURSIVE FromInt(_)
FromInt(n) == IF n = 0 THEN <<>> ELSE <<n % B>> \o FromInt(n \div B)

(* digits: sequence of 0..9, most significant first *)
RECURSIVE FromDigits(_)
FromDigits(ds) ==
  IF ds = <<>> THEN <<>>
  ELSE LET n == Len(ds)
           lo == IF n >= 4 THEN ds[n-3] * 1000 + ds[n-2] * 100 + ds[n-1] * 10 + ds[n]
                 ELSE IF n = 3 THEN ds[1] * 100 + ds[2] * 10 + ds[3]
                 ELSE IF n = 2 THEN ds[1] * 10 + ds[2] ELSE ds[1]
       IN Norm(<<lo>> \o FromDigits(SubSeq(ds, 1, IF n >= 4 THEN n - 4 ELSE 0)))

Limb(a, i) == IF i <= Len(a) THEN a[i] ELSE 0
Max(x, y) == IF x > y THEN x ELSE y

RECURSIVE AddC(_, _, _, _)
AddC(a, b, i, c) == IF i > Max(Len(a), Len(b)) THEN (IF c = 0 THEN <<>> ELSE <<c>>)
                    ELSE LET s == Limb(a, i) + Limb(b, i) + c IN <<s % B>> \o AddC(a, b, i + 1, s \div B)
Add(a, b) == AddC(a, b, 1, 0)

RECURSIVE CmpFrom(_, _, _)
CmpFrom(a, b, i) == IF i = 0 THEN 0 ELSE IF a[i] < b[i] THEN -1 ELSE IF a[i] > b[i] THEN 1 ELSE CmpFrom(a, b, i - 1)
Cmp(a, b) == IF Len(a) < Len(b) THEN -1 ELSE IF Len(a) > Len(b) THEN 1 ELSE CmpFrom(a, b, Len(a))
Leq(a, b) == Cmp(a, b) <= 0

(* a - b for a >= b *)
RECURSIVE SubC(_, _, _, _)
SubC(a, b, i, br) == IF i > Len(a) THEN <<>>
                     ELSE LET d == a[i] - Limb(b, i) - br IN
                          IF d < 0 THEN <<d + B>> \o SubC(a, b, i + 1, 1) ELSE <<d>> \o SubC(a, b, i + 1, 0)
Sub(a, b) == Norm(SubC(a, b, 1, 0))
AbsDiff(a, b) == IF Leq(b, a) THEN Sub(a, b) ELSE Sub(b, a)

RECURSIVE MulSC(_, _, _, _)
MulSC(a, k, i, c) == IF i > Len(a) THEN (IF c = 0 THEN <<>> ELSE FromInt(c))
                     ELSE LET p == a[i] * k + c IN <<p % B>> \o MulSC(a, k, i + 1, p \div B)
MulSmall(a, k) == IF k = 0 THEN <<>> ELSE Norm(MulSC(a, k, 1, 0))      \* 0 <= k < 10^4
ShiftL(a, n) == IF a = <<>> THEN <<>> ELSE [i \in 1 .. n |-> 0] \o a   \* a * B^n

RECURSIVE MulAcc(_, _, _)
MulAcc(a, b, j) == IF j > Len(b) THEN <<>> ELSE Add(ShiftL(MulSmall(a, b[j]), j - 1), MulAcc(a, b, j + 1))
Mul(a, b) == IF a = <<>> \/ b = <<>> THEN <<>> ELSE Norm(MulAcc(a, b, 1))

RECURSIVE Pow10(_)
Pow10(k) == IF k = 0 THEN <<1>> ELSE IF k >= 4 THEN ShiftL(Pow10(k - 4), 1) ELSE MulSmall(Pow10(k - 1), 10)

(* decimal text of a BigNat *)
P4(n) == IF n < 10 THEN "000" \o ToString(n) ELSE IF n < 100 THEN "00" \o ToString(n)
         ELSE IF n < 1000 THEN "0" \o ToString(n) ELSE ToString(n)
RECURSIVE LowLimbs(_, _)
LowLimbs(a, i) == IF i = 0 THEN "" ELSE P4(a[i]) \o LowLimbs(a, i - 1)
DecStr(a) == IF a = <<>> THEN "0" ELSE ToString(a[Len(a)]) \o LowLimbs(a, Len(a) - 1)
RECURSIVE Pow(_, _)
Pow(b, e) == IF e = 0 THEN <<1>> ELSE MulSmall(Pow(b, e - 1), b)       \* b < 10^4
(* a \div k for 1 <= k < 10^4 *)
RECURSIVE DivSC(_, _, _, _)
DivSC(a, k, i, rem) == IF i = 0 THEN <<>> ELSE LET cur == rem * B + a[i] IN DivSC(a, k, i - 1, cur % k) \o <<cur \div k>>
DivSmall(a, k) == Norm(DivSC(a, k, Len(a), 0))

RECURSIVE SumSeq(_)
SumSeq(s) == IF s = <<>> THEN <<>> ELSE Add(s[1], SumSeq(Tail(s)))
IsZero(a) == a = <<>>

(* |x - y| <= y * 10^-e   for x = xn/xd, y = yn/yd (all BigNat, denominators > 0):                   *)
(*   |xn*yd - yn*xd| * 10^e <= yn * xd                                                                *)
CloseRel(xn, xd, yn, yd, e) == Leq(Mul(AbsDiff(Mul(xn, yd), Mul(yn, xd)), Pow10(e)), Mul(yn, xd))
=============================================================================
