------------------------------- MODULE MC_C08 -------------------------------
(* Binding layer, scenario generator for C08 (GROUP BY): grouping key lists  *)
(* (single keys and pairs) x aggregate lists x WHERE x ORDER BY on a key or  *)
(* an integer-valued aggregate (asc/desc), over world W7.                    *)
EXTENDS WorldC07, WorldRnd, Lang, Json, FiniteSets

CONSTANT WorldSel      \* 0 = the fixed world W7, s > 0 = the pseudo-random tree WorldRnd!RndWorld(s)

VARIABLES keys, fns, flt, ord, shown, ws, phase
vars == <<keys, fns, flt, ord, shown, ws, phase>>

KeyLists == { <<k>> : k \in {"ext", "dir", "is_dir", "mode", "uid", "length(name)"} } \cup
            { <<"ext", "dir">>, <<"length(name)", "ext">>, <<"is_dir", "ext">>, <<"uid", "mode">>, <<"dir", "uid">>, <<"ext", "length(name)">> }
AggLists == { <<"count">>, <<"count", "sum">>, <<"sum", "min", "max">>, <<"avg", "count">>, <<"var_pop", "stddev_samp", "count">> }
LikeA(c) == A1("name", "like", TextL(<<c, "%">>), "")
Filters == [ all |-> <<"T">>, ab |-> <<"or", "A", "B">>, notd |-> <<"not", "D">> ]
FAtoms == [ A |-> LikeA("a"), B |-> LikeA("b"), D |-> LikeA("d"), T |-> A1("length(name)", "gte", IntL(0), "") ]
(* ord: a sequence of at most two items [by |-> "key" | "agg", i |-> position within keys / fns, desc]; <<>> = no ORDER BY. *)
(* Two items: an aggregate then a key, or the two keys of a pair in the other order (the orders disagree on W7).          *)
OKey(i, d) == [by |-> "key", i |-> i, desc |-> d]
OAgg(j, d) == [by |-> "agg", i |-> j, desc |-> d]
IntAggs(f) == { x \in 1 .. Len(f) : f[x] \in {"count", "sum", "min", "max", "avg"} }      \* (aggregates with an order: whole numbers and the average)
Orders(k, f) == { <<>> }
                \cup { <<OKey(i, d)>> : i \in 1 .. Len(k), d \in BOOLEAN }
                \cup { <<OAgg(j, d)>> : j \in IntAggs(f), d \in BOOLEAN }
                \cup { <<OAgg(j, d), OKey(1, e)>> : j \in { x \in IntAggs(f) : f[x] = "count" }, d \in BOOLEAN, e \in BOOLEAN }
                \* an aggregate that is not in the select list: the sum of the sizes (the judge computes it for each group)
                \cup (IF \A x \in 1 .. Len(f) : f[x] # "sum" THEN { <<[by |-> "hsum", i |-> 0, desc |-> d]>> : d \in BOOLEAN } ELSE {})
                \cup (IF Len(k) = 2 THEN { <<OKey(2, d), OKey(1, e)>> : d \in BOOLEAN, e \in BOOLEAN } ELSE {})
(* shown: how many leading keys appear in the select list (a key need not be selected); hidden keys only with exact aggregates *)
ExactLists == { <<"count">>, <<"count", "sum">>, <<"sum", "min", "max">> }

Init == keys = <<>> /\ fns = <<>> /\ flt = "" /\ ord = <<>> /\ shown = 0 /\ ws = 0 /\ phase = "start"
Choose == /\ phase = "start" /\ ws' \in WorldSel
          /\ keys' \in KeyLists /\ fns' \in AggLists /\ flt' \in DOMAIN Filters
          /\ \/ shown' = Len(keys') /\ ord' \in Orders(keys', fns')
             \/ /\ fns' \in ExactLists /\ shown' \in 0 .. Len(keys') - 1
                \* (also ordered by one key that is not selected: the judge tells the groups apart by their aggregates)
                /\ ord' \in { o \in Orders(keys', fns') : (\A x \in 1 .. Len(o) : o[x].by = "agg" \/ (o[x].by = "key" /\ o[x].i <= shown'))
                                                            \/ (Len(o) = 1 /\ o[1].by = "key") }
          /\ phase' = "done"
Next == Choose
Spec == Init /\ [][Next]_vars

FnText(f) == IF f = "count" THEN "count(*)" ELSE f \o "(size)"
RECURSIVE KeysText(_)
KeysText(i) == IF i > Len(keys) THEN "" ELSE (IF i > 1 THEN ", " ELSE "") \o keys[i] \o KeysText(i + 1)
RECURSIVE ListText(_)
ListText(i) == IF i > Len(fns) THEN "" ELSE (IF i = 1 /\ shown = 0 THEN "" ELSE ", ") \o FnText(fns[i]) \o ListText(i + 1)
RECURSIVE ShownText(_)
ShownText(i) == IF i > shown THEN "" ELSE (IF i > 1 THEN ", " ELSE "") \o keys[i] \o ShownText(i + 1)
WhereText == IF flt = "all" THEN "" ELSE " where " \o FormulaText(Filters[flt], FAtoms, "min")
OrdItem(o) == (IF o.by = "key" THEN keys[o.i] ELSE IF o.by = "hsum" THEN "sum(size)" ELSE FnText(fns[o.i])) \o (IF o.desc THEN " desc" ELSE "")
OrderText == IF ord = <<>> THEN "" ELSE " order by " \o OrdItem(ord[1]) \o (IF Len(ord) = 2 THEN ", " \o OrdItem(ord[2]) ELSE "")
OrdClass == IF ord = <<>> THEN "none" ELSE ord[1].by \o (IF ord[1].desc THEN "-desc" ELSE "") \o (IF Len(ord) = 2 THEN "+" \o ord[2].by \o (IF ord[2].desc THEN "-desc" ELSE "") ELSE "")

WKey(x) == IF x = 0 THEN "W7" ELSE "R" \o ToString(x)
Scenario == [prop |-> "C08", world |-> WKey(ws),
             class |-> (IF ws = 0 THEN "" ELSE "rnd/") \o "group=" \o KeysText(1) \o "/" \o OrdClass \o (IF flt = "all" THEN "" ELSE "/where")
                       \o (IF shown < Len(keys) THEN "/shown" \o ToString(shown) ELSE "")
                       \o (IF Len(ord) = 1 /\ ord[1].by = "key" /\ ord[1].i > shown THEN "/ordered-by-hidden-key" ELSE ""),
             fns |-> fns, col |-> "size", keys |-> keys, order |-> ord, shown |-> shown,
             formula |-> [f |-> "prefix", toks |-> Filters[flt], atoms |-> FAtoms],
             env |-> [tz |-> "UTC", cwd |-> 0],
             runs |-> << [tag |-> "q", ncols |-> shown + Len(fns), chars |-> TRUE,
                          argv |-> << "select " \o ShownText(1) \o ListText(1) \o " from '.'" \o WhereText
                                      \o " group by " \o KeysText(1) \o OrderText \o " into list" >>] >>]
EmitWorld == (phase = "start") => \A x \in WorldSel : PrintT(<<"WORLD", ToJson([key |-> WKey(x), world |-> IF x = 0 THEN W7 ELSE RndWorld(x)])>>)
Emit == phase = "done" => PrintT(<<"REPLAY", ToJson(Scenario)>>)
=============================================================================
