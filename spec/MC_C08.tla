------------------------------- MODULE MC_C08 -------------------------------
(* Binding layer, scenario generator for C08 (GROUP BY): grouping key lists  *)
(* (single keys and pairs) x aggregate lists x WHERE x ORDER BY on a key or  *)
(* an integer-valued aggregate (asc/desc), over world W7.                    *)
EXTENDS WorldC07, Lang, Json, FiniteSets

VARIABLES keys, fns, flt, ord, phase
vars == <<keys, fns, flt, ord, phase>>

KeyLists == { <<k>> : k \in {"ext", "dir", "is_dir", "mode", "uid", "length(name)"} } \cup
            { <<"ext", "dir">>, <<"length(name)", "ext">>, <<"is_dir", "ext">>, <<"uid", "mode">>, <<"dir", "uid">>, <<"ext", "length(name)">> }
AggLists == { <<"count">>, <<"count", "sum">>, <<"sum", "min", "max">>, <<"avg", "count">>, <<"var_pop", "stddev_samp", "count">> }
LikeA(c) == A1("name", "like", TextL(<<c, "%">>), "")
Filters == [ all |-> <<"T">>, ab |-> <<"or", "A", "B">>, notd |-> <<"not", "D">> ]
FAtoms == [ A |-> LikeA("a"), B |-> LikeA("b"), D |-> LikeA("d"), T |-> A1("length(name)", "gte", IntL(0), "") ]
(* ord: <<>> none | <<"key", i, desc>> | <<"agg", j, desc>>  (positions within keys / fns) *)
Orders(k, f) == { [by |-> "none", i |-> 0, desc |-> FALSE] }
                \cup { [by |-> "key", i |-> i, desc |-> d] : i \in 1 .. Len(k), d \in BOOLEAN }
                \cup { [by |-> "agg", i |-> j, desc |-> d] : j \in { x \in 1 .. Len(f) : f[x] \in {"count", "sum", "min", "max"} }, d \in BOOLEAN }

Init == keys = <<>> /\ fns = <<>> /\ flt = "" /\ ord = [by |-> "none", i |-> 0, desc |-> FALSE] /\ phase = "start"
Choose == /\ phase = "start"
          /\ keys' \in KeyLists /\ fns' \in AggLists /\ flt' \in DOMAIN Filters
          /\ ord' \in Orders(keys', fns')
          /\ phase' = "done"
Next == Choose
Spec == Init /\ [][Next]_vars

FnText(f) == IF f = "count" THEN "count(*)" ELSE f \o "(size)"
RECURSIVE KeysText(_)
KeysText(i) == IF i > Len(keys) THEN "" ELSE (IF i > 1 THEN ", " ELSE "") \o keys[i] \o KeysText(i + 1)
RECURSIVE ListText(_)
ListText(i) == IF i > Len(fns) THEN "" ELSE ", " \o FnText(fns[i]) \o ListText(i + 1)
WhereText == IF flt = "all" THEN "" ELSE " where " \o FormulaText(Filters[flt], FAtoms, "min")
OrderText == IF ord.by = "none" THEN ""
             ELSE " order by " \o (IF ord.by = "key" THEN keys[ord.i] ELSE FnText(fns[ord.i])) \o (IF ord.desc THEN " desc" ELSE "")

Scenario == [prop |-> "C08", world |-> "W7",
             class |-> "group=" \o KeysText(1) \o "/" \o ord.by \o (IF ord.desc THEN "-desc" ELSE "") \o (IF flt = "all" THEN "" ELSE "/where"),
             fns |-> fns, col |-> "size", keys |-> keys, order |-> ord,
             formula |-> [f |-> "prefix", toks |-> Filters[flt], atoms |-> FAtoms],
             env |-> [tz |-> "UTC", cwd |-> 0],
             runs |-> << [tag |-> "q", ncols |-> Len(keys) + Len(fns), chars |-> TRUE,
                          argv |-> << "select " \o KeysText(1) \o ListText(1) \o " from '.'" \o WhereText
                                      \o " group by " \o KeysText(1) \o OrderText \o " into list" >>] >>]
EmitWorld == (phase = "start") => PrintT(<<"WORLD", ToJson([key |-> "W7", world |-> W7])>>)
Emit == phase = "done" => PrintT(<<"REPLAY", ToJson(Scenario)>>)
=============================================================================
