----------------------------- MODULE Judge_C20 ------------------------------
(* Binding layer, trace judge for C20: with the filter active, the rows (by  *)
(* inode) are exactly the entries below the root that the tool's rules do    *)
(* not ignore - git: `git check-ignore` as recorded by the driver; hg and    *)
(* docker: Ignore.tla on the path relative to the directory of the ignore    *)
(* file; an entry below an ignored directory is ignored.  With the filter    *)
(* overridden by `no...` every entry is returned.                            *)
EXTENDS World, Ignore, TLC, Json, IOUtils, FiniteSets

Rec == ndJsonDeserialize(IOEnv.OBS)
VARIABLE l

RECURSIVE RelC(_, _)
RelC(w, n) == IF w.nodes[n].parent = 0 THEN w.nodes[n].namec ELSE RelC(w, w.nodes[n].parent) \o <<"/">> \o w.nodes[n].namec
Lines(r, kind) == [i \in 1 .. Len(r.lines) |->
                     [kind |-> IF r.lines[i].blank THEN "none" ELSE IF r.lines[i].isrx THEN "hgrx" ELSE kind,
                      glob |-> r.lines[i].glob, neg |-> r.lines[i].neg, rx |-> r.lines[i].rx]]
SelfIgnored(r, n) ==
  IF r.tool = "git" THEN r.snapshot[n].gitignored
  ELSE IF r.tool = "docker" THEN DockerIgnored(Lines(r, "docker"), RelC(r.world, n))
  ELSE HgIgnored(Lines(r, "hgglob"), RelC(r.world, n))
RECURSIVE Ignored(_, _)
Ignored(r, n) == SelfIgnored(r, n) \/ (r.world.nodes[n].parent # 0 /\ Ignored(r, r.world.nodes[n].parent))

Verdict(r) ==
  LET w == r.world  all == NodeIds(w)
      IdOf(s) == IF \E n \in all : r.snapshot[n].ino = s THEN CHOOSE n \in all : r.snapshot[n].ino = s ELSE 0
      rows == r.obs.q.rows
      got == { IdOf(rows[i][1]) : i \in 1 .. Len(rows) }
      scope == { n \in Listed(w, r.root, 0, 0) : w.nodes[n].name \notin {".hg", ".git"} }
      want == IF r.active THEN { n \in scope : ~Ignored(r, n) } ELSE scope
      y == IF r.obs.q.timed_out THEN "timeout" ELSE IF r.obs.q.panic THEN "crash"
           ELSE IF r.obs.q.status = 2 THEN "rejected-as-malformed"
           ELSE IF 0 \in got THEN "unknown-row"
           ELSE IF Cardinality(got) # Len(rows) THEN "duplicate-row"
           ELSE IF want \ got # {} THEN "entry-wrongly-omitted"
           ELSE IF got \ want # {} THEN "ignored-entry-returned"
           ELSE "ok"
  IN [id |-> r.id, ok |-> (y = "ok"), class |-> r.class, why |-> y, key |-> "C20/" \o r.class \o "/" \o y,
      nontrivial |-> (want # scope /\ want # {})]

Init == l = 1
Next == /\ l <= Len(Rec)
        /\ PrintT(<<"VERDICT", ToJson(Verdict(Rec[l]))>>)
        /\ l' = l + 1
Spec == Init /\ [][Next]_l
Judged == PrintT(<<"JUDGED", ToJson([n |-> TLCGet("stats").diameter - 1])>>)
=============================================================================
