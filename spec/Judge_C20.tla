----------------------------- MODULE Judge_C20 ------------------------------
(* Binding layer, trace judge for C20: with the filter active, the rows (by  *)
(* inode) are exactly the entries below the root that the tool's rules do    *)
(* not ignore - git: `git check-ignore` as recorded by the driver; hg and    *)
(* docker: Ignore.tla on the path relative to the directory of the ignore    *)
(* file; an entry below an ignored directory is ignored.  With the filter    *)
(* overridden by `no...` every entry is returned.                            *)
EXTENDS World, Ignore, TLC, Json, IOUtils, FiniteSets

Rec == ndJsonDeserialize(IOEnv.OBS)
VARIABLE l

(* contexts: [root: the search root, base: the directory that holds the ignore file (0 = the top of the world), lines]; *)
(* a scenario with one ignore file at the top of the world names none (ctxs = <<>>) and means r.root / r.lines           *)
Ctxs(r) == IF r.ctxs = <<>> THEN << [root |-> r.root, base |-> 0, lines |-> r.lines] >> ELSE r.ctxs
RECURSIVE RelC(_, _, _)
RelC(w, n, b) == IF w.nodes[n].parent = b THEN w.nodes[n].namec ELSE RelC(w, w.nodes[n].parent, b) \o <<"/">> \o w.nodes[n].namec
Lines(c, kind) == [i \in 1 .. Len(c.lines) |->
                     [kind |-> IF c.lines[i].blank THEN "none" ELSE IF c.lines[i].isrx THEN "hgrx" ELSE kind,
                      glob |-> c.lines[i].glob, neg |-> c.lines[i].neg, rx |-> c.lines[i].rx]]
SelfIgnored(r, c, n) ==
  IF r.tool = "git" THEN r.snapshot[n].gitignored
  ELSE IF r.tool = "docker" THEN DockerIgnored(Lines(c, "docker"), RelC(r.world, n, c.base))
  ELSE HgIgnored(Lines(c, "hgglob"), RelC(r.world, n, c.base))
RECURSIVE Ignored(_, _, _)
Ignored(r, c, n) == SelfIgnored(r, c, n) \/ (r.world.nodes[n].parent # c.base /\ Ignored(r, c, r.world.nodes[n].parent))

Verdict(r) ==
  LET w == r.world  all == NodeIds(w)
      IdOf(s) == IF \E n \in all : r.snapshot[n].ino = s THEN CHOOSE n \in all : r.snapshot[n].ino = s ELSE 0
      rows == r.obs.q.rows
      got == { IdOf(rows[i][1]) : i \in 1 .. Len(rows) }
      cs == Ctxs(r)
      ScopeOf(c) == { n \in Listed(w, c.root, 0, 0) : w.nodes[n].name \notin {".hg", ".git"} }
      scope == UNION { ScopeOf(cs[i]) : i \in 1 .. Len(cs) }
      want == IF r.active THEN UNION { { n \in ScopeOf(cs[i]) : ~Ignored(r, cs[i], n) } : i \in 1 .. Len(cs) } ELSE scope
      y == IF r.obs.q.timed_out THEN "timeout" ELSE IF r.obs.q.panic THEN "crash"
           ELSE IF r.obs.q.status = 2 THEN "rejected-as-malformed"
           ELSE IF 0 \in got THEN "unknown-row"
           ELSE IF Cardinality(got) # Len(rows) THEN "duplicate-row"
           ELSE IF want \ got # {} THEN "entry-wrongly-omitted"
           ELSE IF got \ want # {} THEN "ignored-entry-returned"
           ELSE "ok"
  IN [id |-> r.id, ok |-> (y = "ok"), class |-> r.class, why |-> y, key |-> "C20/" \o r.class \o "/" \o y,
      nontrivial |-> (want # scope /\ want # {})]

Init == l = 1
Next == /\ l <= Len(Rec)
        /\ PrintT(<<"VERDICT", ToJson(Verdict(Rec[l]))>>)
        /\ l' = l + 1
Spec == Init /\ [][Next]_l
Judged == PrintT(<<"JUDGED", ToJson([n |-> TLCGet("stats").diameter - 1])>>)
=============================================================================
