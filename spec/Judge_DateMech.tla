---------------------------- MODULE Judge_DateMech --------------------------
(* Binding layer, conformance judge for the Mech model of parse_datetime:    *)
(* for every scenario of MC_C13 (but the free-form spellings) the names the  *)
(* binary returns are exactly the entries whose wall-clock time compares     *)
(* that way with the interval DateMech!ParseDateTime reads out of the        *)
(* characters of the literal.  A difference is DRIFT, not a verdict.         *)
EXTENDS DateMech, TLC, Json, IOUtils, FiniteSets

Rec == ndJsonDeserialize(IOEnv.OBS)
WS == JsonDeserialize(IOEnv.WORLD)
W == WS.world
VARIABLE l
Nodes == 1 .. Len(W.nodes)
Wall(n, off) == WS.snapshot[n].mtime + ZoneOffAt(off, WS.snapshot[n].mtime)
Holds(o, t, a, b) == CASE o \in {"eq", "range"} -> a <= t /\ t <= b [] o = "ne" -> ~(a <= t /\ t <= b)
                       [] o = "lt" -> t < a [] o = "gt" -> t > b [] o = "lte" -> t <= b [] o = "gte" -> t >= a
Verdict(r) ==
  LET m == ParseDateTime(r.litc, r.today)
      rows == r.obs.q.rows
      got == { rows[i][1] : i \in 1 .. Len(rows) }
      want == { W.nodes[n].name : n \in { k \in Nodes : Holds(r.op, Wall(k, r.off), m.a, m.b) } }
      y == IF r.obs.q.timed_out \/ r.obs.q.panic \/ m.abstain THEN "ok"
           ELSE IF ~m.ok THEN (IF r.obs.q.status = 2 THEN "ok" ELSE "model-rejects-but-code-accepts")
           ELSE IF r.obs.q.status = 2 THEN "code-rejects-but-model-accepts"
           ELSE IF got # want THEN "date-model-drift" ELSE "ok"
  IN [id |-> r.id, ok |-> (y = "ok"), class |-> r.class, why |-> y, key |-> "mech/" \o r.class \o "/" \o y, nontrivial |-> (m.ok /\ want # {})]
Init == l = 1
Next == /\ l <= Len(Rec)
        /\ PrintT(<<"VERDICT", ToJson(Verdict(Rec[l]))>>)
        /\ l' = l + 1
Spec == Init /\ [][Next]_l
Judged == PrintT(<<"JUDGED", ToJson([n |-> TLCGet("stats").diameter - 1])>>)
=============================================================================
