SPECIFICATION Spec
CONSTANTS
  MaxLines = 2
  Tools = {"git", "docker", "hgglob", "hgrx"}
INVARIANT Emit
