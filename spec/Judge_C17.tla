----------------------------- MODULE Judge_C17 ------------------------------
(* Binding layer, trace judge for C17.                                       *)
(*  dirs    rows = the entries not below an unlistable directory; every      *)
(*          unlistable directory that is reached is named on stderr; status  *)
(*          1 iff something failed, else status 0 and an empty stderr.       *)
(*  notdir  a root that is not a directory: the other roots' rows intact,    *)
(*          the bad root named, status 1.                                    *)
(*  missing a root that does not exist: the same.                            *)
(*  files   every row present; an unreadable file has empty content-derived  *)
(*          columns and unchanged metadata; aggregates over readable data    *)
(*          and over metadata are unaffected.                                *)
(*  pipe    stdout closed after k bytes: terminates, no crash report, status *)
(*          0 or 1, and what was delivered is a prefix of the fault-free     *)
(*          stream.                                                          *)
EXTENDS Eval, TLC, Json, IOUtils

Rec == ndJsonDeserialize(IOEnv.OBS)
VARIABLE l

BelowAny(w, S, n) == \E d \in S : Below(w, d, n)
Why(r) ==
  LET w == r.world  all == NodeIds(w)  o == r.obs.q
      bad == { x \in all : \E i \in 1 .. Len(r.bad) : r.bad[i] = x }
      IdOf(s) == IF \E n \in all : r.snapshot[n].ino = s THEN CHOOSE n \in all : r.snapshot[n].ino = s ELSE 0
  IN
  IF o.timed_out THEN "hang" ELSE IF o.panic THEN "crash"
  ELSE IF r.kind = "dirs" THEN
     LET visible == { n \in all : ~BelowAny(w, bad, n) }
         reached == { d \in bad : ~BelowAny(w, bad \ {d}, d) }
         rows == o.rows
         got == IF r.path = "aggregate" THEN {} ELSE { IdOf(rows[i][1]) : i \in 1 .. Len(rows) }
     IN IF r.path = "aggregate" /\ (Len(rows) # 1 \/ rows[1][1] # ToString(Cardinality(visible))) THEN "aggregate-disturbed"
        ELSE IF r.path # "aggregate" /\ visible \ got # {} THEN "row-outside-the-failing-directory-lost"
        ELSE IF r.path # "aggregate" /\ (got \ visible # {} \/ Len(rows) # Cardinality(got)) THEN "unexpected-row"
        ELSE IF \E d \in reached : \A i \in 1 .. Len(o.mentions) : o.mentions[i] # d THEN "failing-path-not-named"
        ELSE IF reached # {} /\ o.status # 1 THEN "status-" \o ToString(o.status) \o "-after-failure"
        ELSE IF reached = {} /\ (o.status # 0 \/ o.stderr_len # 0) THEN "fault-free-run-not-clean"
        ELSE "ok"
  ELSE IF r.kind = "missing" THEN
     LET visible == { n \in all : Below(w, 5, n) \/ Below(w, 1, n) }
         got == { IdOf(o.rows[i][1]) : i \in 1 .. Len(o.rows) }
     IN IF visible \ got # {} THEN "row-outside-the-failing-directory-lost"
        ELSE IF got \ visible # {} \/ Len(o.rows) # Cardinality(got) THEN "unexpected-row"
        ELSE IF ~o.probes[1] THEN "failing-path-not-named"
        ELSE IF o.status # 1 THEN "status-" \o ToString(o.status) \o "-after-failure"
        ELSE "ok"
  ELSE IF r.kind = "notdir" THEN
     LET visible == { n \in all : Below(w, 5, n) \/ Below(w, 1, n) }
         got == { IdOf(o.rows[i][1]) : i \in 1 .. Len(o.rows) }
     IN IF visible \ got # {} THEN "row-outside-the-failing-directory-lost"
        ELSE IF got \ visible # {} \/ Len(o.rows) # Cardinality(got) THEN "unexpected-row"
        ELSE IF \A i \in 1 .. Len(o.mentions) : o.mentions[i] # 7 THEN "failing-path-not-named"
        ELSE IF o.status # 1 THEN "status-" \o ToString(o.status) \o "-after-failure"
        ELSE "ok"
  ELSE IF r.kind = "files" THEN
     LET rows == o.rows
         NodeByPath(s) == IF \E n \in all : "./" \o RelPath(w, n) = s THEN CHOOSE n \in all : "./" \o RelPath(w, n) = s ELSE 0
         files == { n \in all : w.nodes[n].kind = "file" }
         Lines(n) == Cardinality({ i \in 1 .. Len(w.nodes[n].contentc) : w.nodes[n].contentc[i] = "\n" })
         SumSet(S, f(_)) == LET RECURSIVE Sm(_) Sm(T) == IF T = {} THEN 0 ELSE LET x == CHOOSE y \in T : TRUE IN f(x) + Sm(T \ {x}) IN Sm(S)
         SizeOf(n) == r.snapshot[n].sizen
     IN IF r.path = "aggregate" THEN
           (IF Len(rows) # 1 THEN "not-one-row"
            ELSE IF rows[1][1] # ToString(Cardinality(all)) THEN "count-disturbed"
            ELSE IF rows[1][2] # ToString(SumSet(all, SizeOf)) THEN "sum-of-sizes-disturbed"
            ELSE IF rows[1][3] # ToString(SumSet(files \ bad, Lines)) THEN "sum-over-readable-files-disturbed"
            \* (an empty cell is no value: the smallest / largest line count is taken over the files that could be read)
            ELSE IF files \ bad # {} /\ rows[1][5] # ToString(CHOOSE m \in { Lines(n) : n \in files \ bad } : \A n \in files \ bad : m <= Lines(n))
                 THEN "min-over-readable-files-disturbed"
            ELSE IF files \ bad # {} /\ rows[1][6] # ToString(CHOOSE m \in { Lines(n) : n \in files \ bad } : \A n \in files \ bad : m >= Lines(n))
                 THEN "max-over-readable-files-disturbed"
            ELSE "ok")
        ELSE IF { NodeByPath(rows[i][1]) : i \in 1 .. Len(rows) } # all \/ Len(rows) # Cardinality(all) THEN "row-lost"
        ELSE IF r.path \in {"metadata", "archived"} THEN
           (IF \E i \in 1 .. Len(rows) : LET n == NodeByPath(rows[i][1]) IN
                   rows[i][2] # r.snapshot[n].size \/ rows[i][3] # Str(ModeChars(r.snapshot[n].mode)) \/ rows[i][4] # r.snapshot[n].nlink
            THEN "metadata-of-unreadable-entry-disturbed" ELSE "ok")
        ELSE IF r.path = "media" THEN
           \* (dimensions are read from the content of image files: p.svg is 5 x 5; nothing else in the tree has any)
           (IF \E i \in 1 .. Len(rows) : LET n == NodeByPath(rows[i][1]) IN n \in bad /\ (rows[i][2] # "" \/ rows[i][3] # "" \/ rows[i][4] # "")
            THEN "content-column-of-unreadable-file-not-empty"
            ELSE IF \E i \in 1 .. Len(rows) : LET n == NodeByPath(rows[i][1]) IN
                   n \in files \ bad /\ (rows[i][4] # ToString(Lines(n)) \/ rows[i][2] # (IF w.nodes[n].name = "p.svg" THEN "5" ELSE "")
                                           \/ rows[i][3] # (IF w.nodes[n].name = "p.svg" THEN "5" ELSE ""))
            THEN "readable-file-disturbed"
            ELSE IF \E i \in 1 .. Len(rows) : LET n == NodeByPath(rows[i][1]) IN n \in all \ files /\ (rows[i][2] # "" \/ rows[i][3] # "")
            THEN "content-column-of-a-directory-not-empty" ELSE "ok")
        ELSE (IF \E i \in 1 .. Len(rows) : LET n == NodeByPath(rows[i][1]) IN
                   n \in bad /\ (rows[i][2] # "" \/ rows[i][3] # "" \/ rows[i][4] \notin {"", "false"})
              THEN "content-column-of-unreadable-file-not-empty"
              ELSE IF \E i \in 1 .. Len(rows) : LET n == NodeByPath(rows[i][1]) IN
                   n \in files \ bad /\ (rows[i][2] # ToString(Lines(n)) \/ rows[i][3] # r.snapshot[n].sha1)
              THEN "readable-file-disturbed"
              \* (a directory opens but cannot be read as content: its content-derived columns are empty, like an unreadable file's)
              ELSE IF \E i \in 1 .. Len(rows) : LET n == NodeByPath(rows[i][1]) IN
                   n \in all \ files /\ w.nodes[n].kind = "dir" /\ (rows[i][2] # "" \/ rows[i][3] # "")
              THEN "content-column-of-a-directory-not-empty" ELSE "ok")
  ELSE \* pipe
     LET free == r.obs.free.bytes  got == o.bytes IN
     IF o.status \notin {0, 1} THEN "status-" \o ToString(o.status)
     ELSE IF Len(got) > Len(free) \/ SubSeq(free, 1, Len(got)) # got THEN "delivered-bytes-not-a-prefix"
     ELSE IF r.k >= Len(free) /\ got # free THEN "output-lost-without-a-fault"
     ELSE "ok"

Verdict(r) == LET y == Why(r) IN
  [id |-> r.id, ok |-> (y = "ok"), class |-> r.class, why |-> y, key |-> "C17/" \o r.class \o "/" \o y,
   nontrivial |-> (IF r.kind = "pipe" THEN r.k < Len(r.obs.free.bytes) ELSE r.bad # <<>> \/ r.kind = "notdir")]

Init == l = 1
Next == /\ l <= Len(Rec)
        /\ PrintT(<<"VERDICT", ToJson(Verdict(Rec[l]))>>)
        /\ l' = l + 1
Spec == Init /\ [][Next]_l
Judged == PrintT(<<"JUDGED", ToJson([n |-> TLCGet("stats").diameter - 1])>>)
=============================================================================
