-------------------------- MODULE Judge_IgnoreMech --------------------------
(* Binding layer, conformance judge for the Mech model of the ignore-file    *)
(* matchers (IgnoreMech): for every hg / docker scenario of MC_C20 the rows  *)
(* of the real binary must be exactly the entries that the modelled matcher  *)
(* - built from the characters of each line the way hg.rs / docker.rs build  *)
(* it - does not exclude.  A difference is DRIFT (the model no longer        *)
(* describes the code), never a verdict on the property.                     *)
EXTENDS World, IgnoreMech, TLC, Json, IOUtils, FiniteSets

Rec == ndJsonDeserialize(IOEnv.OBS)
VARIABLE l

RECURSIVE RelC(_, _)
RelC(w, n) == IF w.nodes[n].parent = 0 THEN w.nodes[n].namec ELSE RelC(w, w.nodes[n].parent) \o <<"/">> \o w.nodes[n].namec
Lines(r, kind) == [i \in 1 .. Len(r.lines) |->
                     [kind |-> IF r.lines[i].blank THEN "none" ELSE IF r.lines[i].isrx THEN "hgrx" ELSE kind,
                      chars |-> r.lines[i].chars, rx |-> r.lines[i].rx]]
SelfIgnored(r, n) ==
  IF r.tool = "docker" THEN DockerIgnoredMech(Lines(r, "docker"), RelC(r.world, n))
  ELSE HgIgnoredMech(Lines(r, "hgglob"), RelC(r.world, n))
(* directories that the matcher excludes are not entered (pass_ignores in visit_dir) *)
RECURSIVE Ignored(_, _)
Ignored(r, n) == SelfIgnored(r, n) \/ (r.world.nodes[n].parent # 0 /\ Ignored(r, r.world.nodes[n].parent))

Verdict(r) ==
  LET w == r.world  all == NodeIds(w)
      IdOf(s) == IF \E n \in all : r.snapshot[n].ino = s THEN CHOOSE n \in all : r.snapshot[n].ino = s ELSE 0
      rows == r.obs.q.rows
      got == { IdOf(rows[i][1]) : i \in 1 .. Len(rows) }
      scope == { n \in Listed(w, r.root, 0, 0) : w.nodes[n].name \notin {".hg", ".git"} }
      want == IF r.active THEN { n \in scope : ~Ignored(r, n) } ELSE scope
      y == IF r.tool = "git" THEN "ok"                      \* libgit2 decides: not modelled
           ELSE IF r.obs.q.timed_out \/ r.obs.q.panic \/ r.obs.q.status = 2 THEN "no-rows-to-compare"
           ELSE IF want \ got # {} THEN "model-keeps-what-the-code-omits"
           ELSE IF got \ want # {} THEN "model-omits-what-the-code-keeps"
           ELSE "ok"
  IN [id |-> r.id, ok |-> (y = "ok"), class |-> r.class, why |-> y, key |-> "IgnoreMech/" \o r.class \o "/" \o y,
      nontrivial |-> (r.tool # "git" /\ want # scope /\ want # {})]

Init == l = 1
Next == /\ l <= Len(Rec)
        /\ PrintT(<<"VERDICT", ToJson(Verdict(Rec[l]))>>)
        /\ l' = l + 1
Spec == Init /\ [][Next]_l
Judged == PrintT(<<"JUDGED", ToJson([n |-> TLCGet("stats").diameter - 1])>>)
=============================================================================
