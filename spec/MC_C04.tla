------------------------------- MODULE MC_C04 -------------------------------
(* Binding layer, scenario generator (and worlds) for C04.  Each scenario    *)
(* kind has its own world and one query selecting the columns it judges:     *)
(*   modes     every permission value on regular files, 64 values on each    *)
(*             other chmod-able type, a symlink: mode string, type and       *)
(*             permission booleans                                           *)
(*   zipmodes  the same modes as stored zip-entry modes (with `archives`)    *)
(*   paths     name / ext / dir / path / abspath / absdir / is_hidden /      *)
(*             is_empty on dot-files, several dots, upper-case extensions    *)
(*   extclass  the eight extension classes: every default extension, in both *)
(*             letter cases, near misses; and one overridden list            *)
(*   content   line_count / is_shebang / digests / CONTAINS on all byte      *)
(*             strings of length <= 3 over six bytes and on multi-buffer     *)
(*             contents                                                      *)
(*   osattrs   size, owners, inode, link count, blocks, modification time,   *)
(*             extended attributes, capabilities                             *)
EXTENDS Config, Integers, Sequences, TLC, Json, FiniteSets

CONSTANTS PermStep,      \* regular files get every permission value p in 0..4095 with p % PermStep = 0
          CapSet          \* capability numbers exercised with several flag sets

VARIABLES kind, variant, phase
vars == <<kind, variant, phase>>

Oct4(n) == ToString(n \div 512) \o ToString((n \div 64) % 8) \o ToString((n \div 8) % 8) \o ToString(n % 8)
Pattern == <<0, 511, 493, 420, 73, 146, 292, 345>>          \* 000 777 755 644 111 222 444 531
Perm64(i) == (i % 8) * 512 + Pattern[(i \div 8) + 1]         \* i in 0..63: every special-bit set x 8 rwx patterns

(* ---- modes ---- *)
ModeNode(i, k, nm, md) == [id |-> i, parent |-> 0, kind |-> k, name |-> nm, mode |-> md, target |-> -1, tstyle |-> "abs"]
FileSeq == [i \in 1 .. (4096 \div PermStep) |-> (i - 1) * PermStep]
OtherKinds == <<"dir", "fifo", "socket", "chr", "blk">>
WModes == [nodes |->
   [i \in 1 .. Len(FileSeq) |-> ModeNode(i, "file", "f" \o Oct4(FileSeq[i]), FileSeq[i])]
   \o [j \in 1 .. 320 |-> LET k == OtherKinds[((j - 1) \div 64) + 1]  p == Perm64((j - 1) % 64)
                          IN ModeNode(Len(FileSeq) + j, k, k \o Oct4(p), p)]
   \o << ModeNode(Len(FileSeq) + 321, "symlink", "lnk", -1) >> ]

(* ---- zip modes: type bits S_IFxxx + permission value ---- *)
TypeBits == <<32768, 16384, 40960, 4096, 49152, 8192, 24576>>     \* reg dir lnk fifo sock chr blk
TypeTag == <<"r", "d", "l", "p", "s", "c", "b">>
ZipMembers == [i \in 1 .. Len(FileSeq) |-> [name |-> "r" \o Oct4(FileSeq[i]), mode |-> 32768 + FileSeq[i], content |-> <<>>, method |-> "stored"]]
              \o [j \in 1 .. 384 |-> LET t == ((j - 1) \div 64) + 2  p == Perm64((j - 1) % 64)
                                     IN [name |-> TypeTag[t] \o Oct4(p), mode |-> TypeBits[t] + p, content |-> <<>>, method |-> "stored"]]
WZip == [nodes |-> << [id |-> 1, parent |-> 0, kind |-> "file", name |-> "z.zip", zip |-> ZipMembers] >>]

(* ---- paths ---- *)
PNode(i, p, k, nm, sz) == [id |-> i, parent |-> p, kind |-> k, namec |-> nm, name |-> Str(nm), content |-> <<[byte |-> 120, count |-> sz]>>]
WPaths == [nodes |-> <<
  PNode(1, 0, "dir",  <<"s","u","b">>, 0),                       PNode(2, 0, "dir",  <<".","h","d","i","r">>, 0),
  PNode(3, 0, "file", <<"a",".","t","x","t">>, 3),               PNode(4, 0, "file", <<".","b","a","s","h","r","c">>, 0),
  PNode(5, 0, "file", <<"a","r","c",".","t","a","r",".","G","Z">>, 1), PNode(6, 0, "file", <<"n","o","e","x","t">>, 0),
  PNode(7, 1, "file", <<"U","P",".","T","X","T">>, 2),           PNode(8, 1, "dir",  <<"d","e","e","p",".","d">>, 0),
  PNode(9, 8, "file", <<".","x",".","y">>, 5),                   PNode(10, 2, "file", <<"i","n",".","h","i","d","d","e","n">>, 0),
  PNode(11, 0, "dir", <<"e","m","p","t","y">>, 0),               PNode(12, 8, "file", <<"w"," ","s","p",".","c">>, 0),
  \* links whose target lives in another directory, or nowhere: their own location is what dir / absdir decompose
  PNode(13, 1, "symlink", <<"l","n","k">>, 0) @@ [target |-> 3, tstyle |-> "rel"],
  PNode(14, 8, "symlink", <<"a","b","s","l">>, 0) @@ [target |-> 11, tstyle |-> "abs"],
  PNode(15, 1, "symlink", <<"d","a","n","g">>, 0) @@ [target |-> -1, tstyle |-> "abs"],
  \* entries that are neither files nor directories (their content size is what lstat says: 0), and a link to an empty file
  PNode(16, 0, "fifo", <<"p","i","p","e">>, 0), PNode(17, 1, "socket", <<"s","o","c","k">>, 0),
  PNode(18, 0, "symlink", <<"l","z">>, 0) @@ [target |-> 6, tstyle |-> "rel"],
  \* names that begin with several dots (the extension is what follows the last dot unless that dot is the first character), a name that ends with one
  PNode(19, 0, "file", <<".",".","d","a","t","a">>, 0), PNode(20, 1, "file", <<".",".",".","r","c">>, 1), PNode(21, 0, "file", <<"t","r","a","i","l",".">>, 0) >>]

(* ---- extension classes ---- *)
AllExts == LET RECURSIVE Cat(_) Cat(i) == IF i > Len(Classes) THEN <<>> ELSE DefaultLists[Classes[i]] \o Cat(i + 1) IN Cat(1)
ENode(i, nm) == [id |-> i, parent |-> 0, kind |-> "file", namec |-> nm, name |-> Str(nm)]
ExtNames == [i \in 1 .. Len(AllExts) |-> <<"x">> \o AllExts[i]]
            \o [i \in 1 .. Len(AllExts) |-> <<"Y">> \o UpperSeq(AllExts[i])]
            \o << <<"z","i","p">>, <<"x",".","z","i","p","x">>, <<"x",".","f","o","o">>, <<"x",".","j","p","g",".","b","a","k">>,
                  <<".","z","i","p">>, <<"x",".","F","o","O">>, <<"p","l","a","i","n">> >>
RECURSIVE Dedup(_, _)
Dedup(s, seen) == IF s = <<>> THEN <<>> ELSE IF s[1] \in seen THEN Dedup(Tail(s), seen) ELSE <<s[1]>> \o Dedup(Tail(s), seen \cup {s[1]})
ExtNamesU == Dedup(ExtNames, {})
WExt == [nodes |-> [i \in 1 .. Len(ExtNamesU) |-> ENode(i, ExtNamesU[i])]]

(* ---- content ---- *)
Bytes6 == <<10, 35, 33, 97, 0, 255>>
Short(i) ==       \* i in 0 .. 258: all byte strings of length 0..3 over Bytes6, as runs
  IF i = 0 THEN <<>>
  ELSE IF i <= 6 THEN <<[byte |-> Bytes6[i], count |-> 1]>>
  ELSE IF i <= 42 THEN <<[byte |-> Bytes6[((i - 7) \div 6) + 1], count |-> 1], [byte |-> Bytes6[((i - 7) % 6) + 1], count |-> 1]>>
  ELSE <<[byte |-> Bytes6[((i - 43) \div 36) + 1], count |-> 1], [byte |-> Bytes6[(((i - 43) \div 6) % 6) + 1], count |-> 1],
         [byte |-> Bytes6[((i - 43) % 6) + 1], count |-> 1]>>
Big == << <<[byte |-> 97, count |-> 32766], [byte |-> 10, count |-> 1]>>, <<[byte |-> 97, count |-> 32767], [byte |-> 10, count |-> 1]>>,
          <<[byte |-> 97, count |-> 32767], [byte |-> 10, count |-> 2]>>, <<[byte |-> 10, count |-> 65537]>>,
          <<[byte |-> 35, count |-> 1], [byte |-> 33, count |-> 1], [byte |-> 97, count |-> 70000], [byte |-> 10, count |-> 1], [byte |-> 97, count |-> 5]>>,
          <<[byte |-> 120, count |-> 20000], [byte |-> 10, count |-> 40000], [byte |-> 120, count |-> 30000]>> >>
CNode(i, cont) == [id |-> i, parent |-> 0, kind |-> "file", name |-> "c" \o ToString(i), content |-> cont]
WContent == [nodes |-> [i \in 1 .. 259 |-> CNode(i, Short(i - 1))] \o [j \in 1 .. Len(Big) |-> CNode(259 + j, Big[j])]]

(* ---- OS attributes, xattrs, capabilities ---- *)
(* capability xattr (revision 2): magic_etc = 0x02000000 | effective, then permitted/inheritable low and high words, little endian *)
LE32(v) == <<v % 256, (v \div 256) % 256, (v \div 65536) % 256, (v \div 16777216) % 256>>
RECURSIVE Pow2(_)
Pow2(e) == IF e = 0 THEN 1 ELSE 2 * Pow2(e - 1)
CapRaw(cap, p, i, e) ==
  LET lo == IF cap < 32 THEN cap ELSE -1  hi == IF cap >= 32 THEN cap - 32 ELSE -1
      \* bit 31 does not fit TLC's integers as a positive number: write its byte directly
      W(b, on) == IF ~on \/ b = -1 THEN <<0, 0, 0, 0>> ELSE IF b = 31 THEN <<0, 0, 0, 128>> ELSE LE32(Pow2(b))
  IN <<IF e THEN 1 ELSE 0, 0, 0, 2>> \o W(lo, p) \o W(lo, i) \o W(hi, p) \o W(hi, i)
CapFlagSets == << [p |-> TRUE, i |-> FALSE, e |-> TRUE], [p |-> TRUE, i |-> FALSE, e |-> FALSE], [p |-> FALSE, i |-> TRUE, e |-> FALSE],
                  [p |-> TRUE, i |-> TRUE, e |-> TRUE], [p |-> TRUE, i |-> TRUE, e |-> FALSE] >>
ONode(i, nm, sz, big, u, g, lt, xa, cap, fl) ==
  [id |-> i, parent |-> 0, kind |-> "file", name |-> nm, content |-> <<[byte |-> 120, count |-> sz]>>, bigsize |-> big, uid |-> u, gid |-> g,
   linkto |-> lt, mtime |-> 1493596800 + 100000 * i, mtime_ms |-> IF i % 2 = 0 THEN 0 ELSE 750,
   hasx |-> xa, cap |-> cap,
   capflags |-> fl, capsraw |-> IF cap >= 0 THEN CapRaw(cap, fl.p, fl.i, fl.e) ELSE <<>>]
NoFl == [p |-> FALSE, i |-> FALSE, e |-> FALSE]
RECURSIVE SortInts(_)
SortInts(Q) == IF Q = {} THEN <<>> ELSE LET m == CHOOSE x \in Q : \A y \in Q : x <= y IN <<m>> \o SortInts(Q \ {m})
SortedCaps == SortInts(CapSet)
WOs == [nodes |-> <<
   ONode(1, "plain", 0, "", 0, 0, 0, FALSE, -1, NoFl), ONode(2, "owned", 5000, "", 1000, 1000, 0, FALSE, -1, NoFl),
   ONode(3, "noname", 4096, "", 54321, 54322, 0, FALSE, -1, NoFl), ONode(4, "linked", 4097, "", 0, 2000, 0, FALSE, -1, NoFl),
   ONode(5, "link2", 4097, "", 0, 2000, 4, FALSE, -1, NoFl), ONode(6, "sparse", 0, "5000000000", 0, 0, 0, FALSE, -1, NoFl),
   ONode(7, "xattr", 10, "", 0, 0, 0, TRUE, -1, NoFl) >>
   \o [c \in 1 .. 41 |-> ONode(7 + c, "cap" \o ToString(c - 1), 1, "", 0, 0, 0, FALSE, c - 1, CapFlagSets[1])]
   \o [j \in 1 .. 4 * Cardinality(CapSet) |->
         LET c == SortedCaps[((j - 1) \div 4) + 1]  f == ((j - 1) % 4) + 2
         IN ONode(48 + j, "capf" \o ToString(c) \o "_" \o ToString(f), 1, "", 0, 0, 0, FALSE, c, CapFlagSets[f])]
   \* directories carry extended attributes like files do
   \o << [ONode(49 + 4 * Cardinality(CapSet), "xdir", 0, "", 0, 0, 0, TRUE, -1, NoFl) EXCEPT !.kind = "dir"],
          [ONode(50 + 4 * Cardinality(CapSet), "pdir", 0, "", 1000, 1000, 0, FALSE, -1, NoFl) EXCEPT !.kind = "dir"] >> ]

Kinds == {"modes", "zipmodes", "paths", "extclass", "content", "osattrs"}
Init == kind = "" /\ variant = "" /\ phase = "start"
Choose == /\ phase = "start" /\ kind' \in Kinds
          /\ variant' \in (IF kind' = "extclass" THEN {"default", "override", "own-default-file"}
                           ELSE IF kind' = "osattrs" THEN {"", "east3", "dst"} ELSE {""})                       \* (osattrs: the time zone the times are shown in)      \* (own-default-file: the complete configuration the program writes for a new user)
          /\ phase' = "done"
Next == Choose
Spec == Init /\ [][Next]_vars

BoolCols == <<"is_file", "is_dir", "is_symlink", "is_pipe", "is_char", "is_block", "is_socket",
              "user_read", "user_write", "user_exec", "user_all", "group_read", "group_write", "group_exec", "group_all",
              "other_read", "other_write", "other_exec", "other_all", "suid", "sgid">>
RECURSIVE JoinCols(_, _)
JoinCols(cols, i) == IF i > Len(cols) THEN "" ELSE (IF i > 1 THEN ", " ELSE "") \o cols[i] \o JoinCols(cols, i + 1)
Cols == CASE kind \in {"modes", "zipmodes"} -> <<"name", "mode">> \o BoolCols
          [] kind = "paths" -> <<"path", "name", "ext", "dir", "abspath", "absdir", "is_hidden", "is_empty">>
          [] kind = "extclass" -> <<"name">> \o Classes
          [] kind = "content" -> <<"name", "line_count", "is_shebang", "sha1", "sha256", "sha512", "sha3", "contains('a')", "contains('#!')", "size",
                                 "contains('a\n')", "contains('')">>       \* (a needle that spans a line break; the empty needle)
          [] kind = "osattrs" -> <<"name", "size", "uid", "gid", "user", "group", "inode", "hardlinks", "blocks", "modified", "has_xattrs", "caps">>
OverrideCfg == [debug |-> FALSE, is_image |-> <<".foo">>, is_archive |-> <<".zipx", ".gz">>]
Scenario == [prop |-> "C04", kind |-> kind, class |-> kind \o (IF variant = "" THEN "" ELSE "/" \o variant),
             world |-> CASE kind = "modes" -> "WModes" [] kind = "zipmodes" -> "WZip" [] kind = "paths" -> "WPaths"
                         [] kind = "extclass" -> "WExt" [] kind = "content" -> "WContent" [] kind = "osattrs" -> "WOs",
             cols |-> Cols, digests |-> (kind = "content"), off |-> (CASE variant = "east3" -> 10800 [] variant = "dst" -> 1 [] OTHER -> 0),
             lists |-> IF variant = "override" THEN [DefaultLists EXCEPT !.is_image = << <<".","f","o","o">> >>,
                                                                          !.is_archive = << <<".","z","i","p","x">>, <<".","g","z">> >>]
                       ELSE DefaultLists,
             env |-> IF variant = "own-default-file" THEN [tz |-> "UTC", cwd |-> 0, config |-> [own_default |-> TRUE]]
                     ELSE IF variant = "override" THEN [tz |-> "UTC", cwd |-> 0, config |-> OverrideCfg]
                     ELSE [tz |-> (CASE variant = "east3" -> "Etc/GMT-3" [] variant = "dst" -> "EST5EDT,M3.2.0,M11.1.0" [] OTHER -> "UTC"), cwd |-> 0, config |-> [debug |-> FALSE]],
             runs |-> << [tag |-> "q", ncols |-> Len(Cols), timeout |-> 60,
                          argv |-> << "select " \o JoinCols(Cols, 1) \o " from '.'" \o (IF kind = "zipmodes" THEN " archives" ELSE "") \o " into list" >>] >>]
EmitWorld == (phase = "start") =>
   /\ PrintT(<<"WORLD", ToJson([key |-> "WModes", world |-> WModes])>>)
   /\ PrintT(<<"WORLD", ToJson([key |-> "WZip", world |-> WZip])>>)
   /\ PrintT(<<"WORLD", ToJson([key |-> "WPaths", world |-> WPaths])>>)
   /\ PrintT(<<"WORLD", ToJson([key |-> "WExt", world |-> WExt])>>)
   /\ PrintT(<<"WORLD", ToJson([key |-> "WContent", world |-> WContent])>>)
   /\ PrintT(<<"WORLD", ToJson([key |-> "WOs", world |-> WOs])>>)
Emit == phase = "done" => PrintT(<<"REPLAY", ToJson(Scenario)>>)
=============================================================================
