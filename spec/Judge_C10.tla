----------------------------- MODULE Judge_C10 ------------------------------
(* Binding layer, trace judge for C10: a recorded run is accepted iff it     *)
(* terminated within the bound, without a panic, with status 0, 1 or 2; the  *)
(* listed malformations must give status 2, a diagnostic and no output; an   *)
(* uninterpretable literal must give status 2 and a diagnostic.              *)
EXTENDS Integers, Sequences, TLC, Json, IOUtils

Rec == ndJsonDeserialize(IOEnv.OBS)
VARIABLE l

Verdict(r) ==
  LET o == r.obs.q
      y == IF o.timed_out THEN "hang"
           ELSE IF o.panic THEN "crash"
           ELSE IF o.status \notin {0, 1, 2} THEN "status-" \o ToString(o.status)
           ELSE IF r.expect = "reject" /\ o.status # 2 THEN "accepted-malformed-query"
           ELSE IF r.expect = "reject" /\ o.nbytes # 0 THEN "rejected-but-printed-output"
           ELSE IF r.expect \in {"reject", "reject-runtime"} /\ o.status = 2 /\ o.stderr_len = 0 THEN "no-diagnostic"
           ELSE IF r.expect = "reject-runtime" /\ o.status # 2 THEN "uninterpretable-literal-accepted"
           ELSE "ok"
  IN [id |-> r.id, ok |-> (y = "ok"), class |-> r.class, why |-> y, key |-> "C10/" \o r.class \o "/" \o y,
      nontrivial |-> TRUE]

Init == l = 1
Next == /\ l <= Len(Rec)
        /\ PrintT(<<"VERDICT", ToJson(Verdict(Rec[l]))>>)
        /\ l' = l + 1
Spec == Init /\ [][Next]_l
Judged == PrintT(<<"JUDGED", ToJson([n |-> TLCGet("stats").diameter - 1])>>)
=============================================================================
