------------------------------- MODULE ExprKey ------------------------------
(* Mech layer: `impl Display for Expr` (src/expr.rs) over the Parser model's *)
(* trees.  The text of an expression is the key of the per-row value cache   *)
(* (Searcher::get_column_expr_value), of the aggregate buffers, and the      *)
(* column name in JSON output - where it can be observed.  C15's second      *)
(* sentence (a column's value depends only on its own expression) holds for  *)
(* the cache exactly when the key is injective on the trees that occur       *)
(* together (MC_ExprMemo checks that).                                       *)
EXTENDS Parser

(* Field / Function print their enum names; the Parser model already uses those names as the field / function values *)
EnumC(s) == CASE s = "Size" -> <<"S","i","z","e">> [] s = "Name" -> <<"N","a","m","e">> [] s = "Hardlinks" -> <<"H","a","r","d","l","i","n","k","s">>
              [] s = "Uid" -> <<"U","i","d">> [] s = "Length" -> <<"L","e","n","g","t","h">> [] s = "Lower" -> <<"L","o","w","e","r">>
              [] s = "Upper" -> <<"U","p","p","e","r">> [] s = "Abs" -> <<"A","b","s">> [] s = "LineCount" -> <<"L","i","n","e","C","o","u","n","t">> [] OTHER -> <<"?">>
ArithC(o) == CASE o = "Add" -> <<"+">> [] o = "Subtract" -> <<"-">> [] o = "Multiply" -> <<"*">> [] o = "Divide" -> <<"/">> [] o = "Modulo" -> <<"%">> [] OTHER -> <<"?">>
RECURSIVE ExprText(_), ArgsText(_)
ArgsText(args) == IF args = <<>> THEN <<>> ELSE <<",", " ">> \o ExprText(args[1]) \o ArgsText(Tail(args))
ExprText(e) ==
  IF IsNone(e) THEN <<>>
  ELSE (IF e.minus THEN <<"-">> ELSE <<>>)
       \o (IF e.function # NONE
           THEN EnumC(e.function) \o <<"(">> \o ExprText(e.left) \o (IF e.args.some THEN ArgsText(e.args.list) ELSE <<>>) \o <<")">>
           ELSE IF ~IsNone(e.left)
           THEN (IF e.arithmetic_op # NONE /\ ~IsNone(e.right)
                 THEN <<"(">> \o ExprText(e.left) \o <<" ">> \o ArithC(e.arithmetic_op) \o <<" ">> \o ExprText(e.right) \o <<")">>
                 ELSE ExprText(e.left) \o ExprText(e.right))
           ELSE <<>>)
       \o (IF e.field # NONE THEN EnumC(e.field) ELSE <<>>)
       \o (IF e.val.some THEN e.val.c ELSE <<>>)
=============================================================================
