SPECIFICATION Spec
CONSTANTS
  MaxSoup = 3
  MaxMut = 2
  Kinds = {"mutate", "reject", "argv"}
INVARIANTS EmitWorld Emit
