------------------------------- MODULE MC_C19 -------------------------------
(* Binding layer, scenario generator (and worlds) for C19 (archive search).  *)
(*  members  a tree with zip archives (.zip .jar .war .ear, an empty one, a  *)
(*           wrong extension, a non-archive named .zip): all columns of all  *)
(*           rows with and without `archives`, under three clocks (the       *)
(*           member timestamps must not depend on today's date)              *)
(*  query    WHERE / ORDER BY / LIMIT over ordinary entries and members      *)
(*  corrupt  a three-member archive truncated at every length or with one    *)
(*           byte flipped near its end (central directory)                   *)
EXTENDS Integers, Sequences, TLC, Json, FiniteSets

CONSTANTS MaxTruncate, TruncStep, MaxFlip

VARIABLES kind, variant, phase
vars == <<kind, variant, phase>>

Run(b, n) == <<[byte |-> b, count |-> n]>>
M(nm, md, dos, meth, cont, isd) == [name |-> nm, mode |-> md, dos |-> dos, method |-> meth, content |-> cont, isdir |-> isd]
Z1 == << M("m1.txt", 33188, <<2017, 5, 31, 10, 20, 30>>, "stored", Run(97, 3), FALSE),
         M("dir/", 16877, <<2017, 1, 1, 0, 0, 0>>, "stored", <<>>, TRUE),
         M("dir/inner file.txt", 33152, <<2016, 2, 29, 23, 59, 58>>, "deflated", Run(120, 2000), FALSE),
         M("ünï.dat", 33261, <<2017, 12, 31, 0, 0, 0>>, "stored", <<>>, FALSE),
         M("dir/deep/x.log", 33188, <<2015, 6, 15, 12, 0, 0>>, "deflated", Run(10, 77), FALSE) >>
Z2 == << M("only.class", 33188, <<2016, 11, 30, 8, 8, 8>>, "deflated", Run(65, 512), FALSE) >>
Z3 == << M("w1", 33060, <<2017, 3, 31, 1, 2, 4>>, "stored", Run(66, 9), FALSE), M("w2", 33206, <<2017, 4, 30, 1, 2, 4>>, "stored", Run(66, 10), FALSE),
         \* (members with exactly one of the set-id bits: 02755 and 04755)
         M("sg", 34285, <<2017, 4, 30, 1, 2, 6>>, "stored", Run(66, 3), FALSE), M("su", 35309, <<2017, 4, 30, 1, 2, 8>>, "stored", Run(66, 4), FALSE),
         \* (a member name with a backslash in it: a character like any other)
         M("re\\po.txt", 33188, <<2017, 4, 30, 1, 2, 10>>, "stored", Run(66, 5), FALSE),
         \* (the directory flag is the archive's - the name ends with a slash -, the mode is shown as stored: a directory stored with
         \*  permission bits only, a file whose stored mode carries the type bits of a directory)
         M("d2/", 493, <<2017, 4, 30, 1, 2, 12>>, "stored", <<>>, TRUE), M("odd", 16804, <<2017, 4, 30, 1, 2, 14>>, "stored", Run(66, 2), FALSE),
         \* (the earliest time the format can store - what archivers write when they have none - and the next one: times like any other)
         M("epoch", 33188, <<1980, 1, 1, 0, 0, 0>>, "stored", Run(66, 6), FALSE), M("epoch2", 33188, <<1980, 1, 1, 0, 0, 2>>, "deflated", Run(66, 7), FALSE) >>
NoZip == <<>>
F(i, p, nm, cont, zip, isz) == [id |-> i, parent |-> p, kind |-> "file", name |-> nm, content |-> cont, zip |-> zip, iszip |-> isz, truncate |-> -1, flip |-> 0, hasflip |-> FALSE]
D(i, p, nm) == [id |-> i, parent |-> p, kind |-> "dir", name |-> nm, content |-> <<>>, zip |-> NoZip, iszip |-> FALSE, truncate |-> -1, flip |-> 0, hasflip |-> FALSE]
WArc == [nodes |-> << F(1, 0, "a.txt", Run(120, 5), NoZip, FALSE), D(2, 0, "sub"), F(3, 2, "z1.zip", <<>>, Z1, TRUE), F(4, 0, "top.jar", <<>>, Z2, TRUE),
                      F(5, 0, "not.zipx", <<>>, Z2, FALSE), F(6, 0, "fake.zip", Run(80, 40), NoZip, FALSE), F(7, 2, "w.war", <<>>, Z3, TRUE),
                      F(8, 2, "e.ear", <<>>, Z2, TRUE), F(9, 0, "empty.zip", <<>>, NoZip, TRUE), F(10, 2, "big.bin", Run(0, 3000), NoZip, FALSE),
                      \* a directory whose name looks like an archive, with an ordinary file and a real archive inside
                      D(11, 0, "bk.zip"), F(12, 11, "inside.txt", Run(120, 2), NoZip, FALSE), F(13, 11, "n.jar", <<>>, Z3, TRUE) >>]
(* (WArc node 9: an archive with no member; node 5: archive content under a name that is not configured; node 6: not an archive) *)
ZC == << M("c1", 33188, <<2017, 5, 1, 1, 1, 2>>, "stored", Run(99, 4), FALSE), M("c2.txt", 33188, <<2017, 5, 1, 1, 1, 2>>, "deflated", Run(99, 300), FALSE),
         M("d/", 16877, <<2017, 5, 1, 1, 1, 2>>, "stored", <<>>, TRUE) >>
WCorrupt(t, fl, hf) == [nodes |-> << F(1, 0, "a.txt", Run(120, 5), NoZip, FALSE), F(2, 0, "b.txt", Run(120, 6), NoZip, FALSE),
                                     [F(3, 0, "c.zip", <<>>, ZC, TRUE) EXCEPT !.truncate = t, !.flip = fl, !.hasflip = hf],
                                     D(4, 0, "zz"), F(5, 4, "after.txt", Run(120, 1), NoZip, FALSE) >>]

Clocks == <<1493640000, 1490918400, 1462017600>>      \* 2017-05-01 12:00, 2017-03-31 00:00, 2016-04-30 12:00 (UTC)
QVariants == { [wh |-> w, ord |-> o, lim |-> k] : w \in BOOLEAN, o \in {"none", "size-", "size+"}, k \in (0 .. 14) \cup {17, 30} }

Init == kind = "" /\ variant = [wh |-> FALSE, ord |-> "none", lim |-> 0, t |-> -1, flip |-> 0, clock |-> 0, depth |-> 0, owncfg |-> FALSE, mind |-> 0, tz |-> "UTC"] /\ phase = "start"
(* depth: `depth N` on the root (0 = none): the members of an archive lying exactly at level N are still listed *)
ChooseMembers == /\ phase = "start" /\ kind' = "members"
                 \* owncfg: the complete default configuration file the program writes for a new user (every extension list present)
                 \* mind: `mindepth N` on the root: the members of an archive above level N are outside the window like the archive itself
                 \* tz: the stored time of a member has no zone: it is shown as stored whatever the zone of the process is
                 /\ \E c \in 1 .. 3, d \in 0 .. 2, oc \in BOOLEAN, mn \in {0, 2, 3}, z \in {"UTC", "Etc/GMT-3", "Etc/GMT+5"} :
                       (c = 1 \/ d = 0) /\ (~oc \/ d = 0) /\ (mn = 0 \/ (c = 1 /\ d = 0 /\ ~oc)) /\ (z = "UTC" \/ (c = 1 /\ d = 0 /\ ~oc /\ mn = 0))
                       /\ variant' = [variant EXCEPT !.clock = Clocks[c], !.depth = d, !.owncfg = oc, !.mind = mn, !.tz = z] /\ phase' = "done"
ChooseQuery == /\ phase = "start" /\ kind' = "query"
               /\ \E v \in QVariants : variant' = [variant EXCEPT !.wh = v.wh, !.ord = v.ord, !.lim = v.lim, !.clock = Clocks[1]]
               /\ phase' = "done"
ChooseTrunc == /\ phase = "start" /\ kind' = "corrupt"
               /\ \E t \in { x \in 0 .. MaxTruncate : x % TruncStep = 0 } : variant' = [variant EXCEPT !.t = t, !.clock = Clocks[1]]
               /\ phase' = "done"
ChooseFlip == /\ phase = "start" /\ kind' = "corrupt"
              /\ \E f \in 1 .. MaxFlip : variant' = [variant EXCEPT !.flip = f, !.clock = Clocks[1]]
              /\ phase' = "done"
Next == ChooseMembers \/ ChooseQuery \/ ChooseTrunc \/ ChooseFlip
Spec == Init /\ [][Next]_vars

Cols == "path, size, is_dir, mode, modified, suid, sgid"
QText(arc) == "select path, size from '.'" \o (IF arc THEN " archives" ELSE "") \o (IF variant.wh THEN " where size > 4" ELSE "")
              \o (CASE variant.ord = "none" -> "" [] variant.ord = "size-" -> " order by size desc" [] variant.ord = "size+" -> " order by size")
              \o (IF variant.lim > 0 THEN " limit " \o ToString(variant.lim) ELSE "") \o " into list"
DepthText == (IF variant.depth > 0 THEN " depth " \o ToString(variant.depth) ELSE "") \o (IF variant.mind > 0 THEN " mindepth " \o ToString(variant.mind) ELSE "")
Scenario ==
  IF kind = "members" THEN
     [prop |-> "C19", kind |-> kind, class |-> "members/clock" \o ToString(variant.clock) \o (IF variant.depth > 0 THEN "/depth" \o ToString(variant.depth) ELSE "") \o (IF variant.mind > 0 THEN "/mindepth" \o ToString(variant.mind) ELSE "")
                                                                  \o (IF variant.tz # "UTC" THEN "/" \o variant.tz ELSE "") \o (IF variant.owncfg THEN "/own-default-config" ELSE ""),
      world |-> WArc, variant |-> variant,
      env |-> IF variant.owncfg THEN [tz |-> "UTC", cwd |-> 0, fake_epoch |-> variant.clock, config |-> [own_default |-> TRUE]]
              ELSE [tz |-> variant.tz, cwd |-> 0, fake_epoch |-> variant.clock, config |-> [debug |-> FALSE]],
      runs |-> << [tag |-> "arc", ncols |-> 7, chars |-> FALSE, argv |-> << "select " \o Cols \o " from '.'" \o DepthText \o " archives into list" >>],
                  [tag |-> "plain", ncols |-> 7, chars |-> FALSE, argv |-> << "select " \o Cols \o " from '.'" \o DepthText \o " into list" >>] >>]
  ELSE IF kind = "query" THEN
     [prop |-> "C19", kind |-> kind, class |-> "query/" \o variant.ord \o (IF variant.wh THEN "/where" ELSE "") \o (IF variant.lim > 0 THEN "/limit" ELSE ""),
      world |-> WArc, variant |-> variant, env |-> [tz |-> "UTC", cwd |-> 0, fake_epoch |-> variant.clock],
      runs |-> << [tag |-> "arc", ncols |-> 2, chars |-> TRUE, argv |-> << QText(TRUE) >>],
                  [tag |-> "plain", ncols |-> 2, chars |-> TRUE, argv |-> << "select path, size from '.' archives into list" >>] >>]
  ELSE
     [prop |-> "C19", kind |-> kind, class |-> IF variant.flip > 0 THEN "corrupt/byte-flip" ELSE "corrupt/truncated",
      world |-> WCorrupt(variant.t, 0 - variant.flip, variant.flip > 0), variant |-> variant,
      env |-> [tz |-> "UTC", cwd |-> 0, fake_epoch |-> variant.clock],
      runs |-> << [tag |-> "arc", ncols |-> 1, chars |-> TRUE, argv |-> << "select path from '.' archives into list" >>],
                  [tag |-> "plain", ncols |-> 1, chars |-> TRUE, argv |-> << "select path from '.' into list" >>] >>]
Emit == phase = "done" => PrintT(<<"REPLAY", ToJson(Scenario)>>)
=============================================================================
