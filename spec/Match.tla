------------------------------- MODULE Match --------------------------------
(* Prop layer: textbook matching semantics of the documentation (C12).       *)
(* Patterns and subjects are sequences of 1-character strings.               *)
EXTENDS Chars

(* whole-string wildcard match; `many` stands for any run, `one` for exactly one character; case-insensitive *)
RECURSIVE WildMatch(_, _, _, _)
WildMatch(p, s, many, one) ==
  IF p = <<>> THEN s = <<>>
  ELSE IF p[1] = many THEN \E k \in 0 .. Len(s) : WildMatch(Tail(p), SubSeq(s, k + 1, Len(s)), many, one)
  ELSE IF s = <<>> THEN FALSE
  ELSE IF p[1] = one THEN WildMatch(Tail(p), Tail(s), many, one)
  ELSE ToLowerC(p[1]) = ToLowerC(s[1]) /\ WildMatch(Tail(p), Tail(s), many, one)

GlobMatch(p, s) == WildMatch(p, s, "*", "?")
LikeMatch(p, s) == WildMatch(p, s, "%", "_")
IsGlobPattern(p) == HasChar(p, "*") \/ HasChar(p, "?")

(* `=` on text: a wildcard pattern when the literal has * or ?, else plain equality *)
TextEq(lit, s) == IF IsGlobPattern(lit) THEN GlobMatch(lit, s) ELSE lit = s
TextExact(lit, s) == lit = s
=============================================================================
