------------------------------- MODULE Chars --------------------------------
(* Prop layer: text as sequences of 1-character strings (TLC strings are    *)
(* atomic: they can be concatenated and compared but not inspected).        *)
EXTENDS Integers, Sequences, TLC

UpperL == <<"A","B","C","D","E","F","G","H","I","J","K","L","M","N","O","P","Q","R","S","T","U","V","W","X","Y","Z">>
LowerL == <<"a","b","c","d","e","f","g","h","i","j","k","l","m","n","o","p","q","r","s","t","u","v","w","x","y","z">>
DigitL == <<"0","1","2","3","4","5","6","7","8","9">>

(* a few non-ASCII simple case pairs (the generators use only these beyond ASCII) *)
UpperX == UpperL \o <<"É", "Ż", "Ó", "Ł", "Ć">>
LowerX == LowerL \o <<"é", "ż", "ó", "ł", "ć">>
IsUpperC(c) == \E i \in 1 .. Len(UpperX) : UpperX[i] = c
IsLowerC(c) == \E i \in 1 .. Len(LowerX) : LowerX[i] = c
IsDigitC(c) == \E i \in 1 .. 10 : DigitL[i] = c
ToLowerC(c) == IF IsUpperC(c) THEN LowerX[CHOOSE i \in 1 .. Len(UpperX) : UpperX[i] = c] ELSE c
ToUpperC(c) == IF IsLowerC(c) THEN UpperX[CHOOSE i \in 1 .. Len(LowerX) : LowerX[i] = c] ELSE c
LowerSeq(s) == [i \in 1 .. Len(s) |-> ToLowerC(s[i])]
UpperSeq(s) == [i \in 1 .. Len(s) |-> ToUpperC(s[i])]
EqCI(a, b) == LowerSeq(a) = LowerSeq(b)

RECURSIVE Str(_)
Str(cs) == IF cs = <<>> THEN "" ELSE Head(cs) \o Str(Tail(cs))

IsPrefixC(p, s) == Len(p) <= Len(s) /\ SubSeq(s, 1, Len(p)) = p
IsSuffixC(p, s) == Len(p) <= Len(s) /\ SubSeq(s, Len(s) - Len(p) + 1, Len(s)) = p
ContainsC(s, sub) == \E i \in 1 .. (Len(s) - Len(sub) + 1) : SubSeq(s, i, i + Len(sub) - 1) = sub
HasChar(s, c) == \E i \in 1 .. Len(s) : s[i] = c
LastIndexOf(s, c) == IF HasChar(s, c) THEN CHOOSE i \in 1 .. Len(s) : s[i] = c /\ \A j \in i + 1 .. Len(s) : s[j] # c ELSE 0

DigitVal(c) == (CHOOSE i \in 1 .. 10 : DigitL[i] = c) - 1
RECURSIVE NatOfDigits(_)
NatOfDigits(ds) == IF ds = <<>> THEN 0 ELSE NatOfDigits(SubSeq(ds, 1, Len(ds) - 1)) * 10 + DigitVal(ds[Len(ds)])
AllDigits(s) == s # <<>> /\ \A i \in 1 .. Len(s) : IsDigitC(s[i])

RECURSIVE DigitsOfNat(_)
DigitsOfNat(n) == IF n < 10 THEN <<DigitL[n + 1]>> ELSE DigitsOfNat(n \div 10) \o <<DigitL[(n % 10) + 1]>>

Pad2(n) == IF n < 10 THEN "0" \o ToString(n) ELSE ToString(n)
Pad4(n) == IF n < 10 THEN "000" \o ToString(n) ELSE IF n < 100 THEN "00" \o ToString(n)
           ELSE IF n < 1000 THEN "0" \o ToString(n) ELSE ToString(n)

(* code-point order on the characters the generators use (ASCII order) *)
AsciiL == <<" ","!","\"","#","$","%","&","'","(",")","*","+",",","-",".","/",
            "0","1","2","3","4","5","6","7","8","9",":",";","<","=",">","?","@",
            "A","B","C","D","E","F","G","H","I","J","K","L","M","N","O","P","Q","R","S","T","U","V","W","X","Y","Z",
            "[","\\","]","^","_","`",
            "a","b","c","d","e","f","g","h","i","j","k","l","m","n","o","p","q","r","s","t","u","v","w","x","y","z",
            "{","|","}","~">>
Code(c) == IF \E i \in 1 .. Len(AsciiL) : AsciiL[i] = c THEN 31 + (CHOOSE i \in 1 .. Len(AsciiL) : AsciiL[i] = c) ELSE 1000
RECURSIVE LexLeq(_, _)
LexLeq(a, b) == IF a = <<>> THEN TRUE ELSE IF b = <<>> THEN FALSE
                ELSE IF Code(a[1]) < Code(b[1]) THEN TRUE ELSE IF Code(a[1]) > Code(b[1]) THEN FALSE
                ELSE LexLeq(Tail(a), Tail(b))
=============================================================================
