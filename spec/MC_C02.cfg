SPECIFICATION Spec
INVARIANT Emit
