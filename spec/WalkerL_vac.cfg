SPECIFICATION Spec
CONSTANTS
  MaxN = 3
  MaxLinks = 1
  Extra = 0
INVARIANTS NoLinkToRootTaken
