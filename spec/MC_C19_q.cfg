SPECIFICATION Spec
CONSTANTS
  MaxTruncate = 520
  TruncStep = 3
  MaxFlip = 120
INVARIANT Emit
