------------------------------- MODULE MC_C05 -------------------------------
(* Binding layer, scenario generator for C05 (ORDER BY).  State = a key list *)
(* under construction (column, direction, spelling), the select-list style   *)
(* and the optional WHERE.  Every complete choice is one scenario with two   *)
(* runs: the query without and with ORDER BY.                                *)
EXTENDS WorldC05, WorldRnd, Lang, Json, FiniteSets

CONSTANTS MaxKeys, KeyCols,
          WorldSel      \* which trees: 0 = the fixed world W5, s > 0 = the pseudo-random tree WorldRnd!RndWorld(s)

VARIABLES keys, sel, wh, ws, phase
vars == <<keys, sel, wh, ws, phase>>

Init == keys = <<>> /\ sel = "path" /\ wh = FALSE /\ ws \in WorldSel /\ phase = "keys"

(* dir: "asc" (implicit), "ASC" (explicit `asc`), "desc" *)
AddKey == /\ phase = "keys" /\ Len(keys) < MaxKeys
          /\ \E c \in KeyCols, d \in {"asc", "ASC", "desc"} :
               \* a column may be repeated (by name or position): redundant, but the directions must still line up
               /\ keys' = Append(keys, [col |-> c, dir |-> d])
          /\ UNCHANGED <<sel, wh, ws, phase>>
Finish == /\ phase = "keys" /\ keys # <<>>
          \* keys not selected / selected / selected and referred to by position / only the keys selected (rows may then be
          \* equal texts of different entries: the ordered output is still a permutation of the unordered one)
          /\ sel' \in {"path", "keys", "pos", "keysonly"}
          /\ wh' \in BOOLEAN
          /\ phase' = "done"
          /\ UNCHANGED <<keys, ws>>
Next == AddKey \/ Finish
Spec == Init /\ [][Next]_vars

RECURSIVE KeyCols2(_)
KeyCols2(i) == IF i > Len(keys) THEN "" ELSE ", " \o keys[i].col \o KeyCols2(i + 1)
RECURSIVE KeyCols3(_)
KeyCols3(i) == IF i > Len(keys) THEN "" ELSE (IF i > 1 THEN ", " ELSE "") \o keys[i].col \o KeyCols3(i + 1)
SelectText == IF sel = "path" THEN "path" ELSE IF sel = "keysonly" THEN KeyCols3(1) ELSE "path" \o KeyCols2(1)
DirText(d) == IF d = "desc" THEN " desc" ELSE IF d = "ASC" THEN " asc" ELSE ""
RECURSIVE OrderText(_)
OrderText(i) == IF i > Len(keys) THEN ""
                ELSE (IF i > 1 THEN ", " ELSE "") \o (IF sel = "pos" THEN ToString(i + 1) ELSE keys[i].col)
                     \o DirText(keys[i].dir) \o OrderText(i + 1)
WhereAtom == A1("size", "gt", IntL(2), "")
WhereText == IF wh THEN " where " \o CondText(WhereAtom) ELSE ""
NCols == IF sel = "path" THEN 1 ELSE IF sel = "keysonly" THEN Len(keys) ELSE 1 + Len(keys)

WKey == IF ws = 0 THEN "W5" ELSE "R" \o ToString(ws)
RECURSIVE KeysClass(_)
KeysClass(i) == IF i > Len(keys) THEN "" ELSE (IF i > 1 THEN "," ELSE "") \o keys[i].col \o KeysClass(i + 1)
Scenario == [prop |-> "C05", class |-> (IF ws = 0 THEN "" ELSE "rnd/") \o "keys=" \o KeysClass(1) \o "/" \o sel, world |-> WKey, sel |-> sel,
             keys |-> [i \in 1 .. Len(keys) |-> [col |-> keys[i].col, desc |-> (keys[i].dir = "desc")]],
             formula |-> IF wh THEN [f |-> "atom", a |-> WhereAtom] ELSE [f |-> "atom", a |-> A1("size", "gte", IntL(0), "")],
             \* (date keys are sorted under a clock that says 29 February: the comparison must not depend on today's date)
             \* (and, when no key takes a date apart, in a zone with daylight saving time: a time in the repeated hour is a time like any other)
             env |-> [tz |-> IF keys[1].col = "modified" /\ \A i \in 1 .. Len(keys) : keys[i].col \notin {"day(modified)", "dow(modified)", "year(modified)"}
                             THEN "EST5EDT,M3.2.0,M11.1.0" ELSE "UTC",
                      cwd |-> 0, fake_epoch |-> IF keys[1].col = "modified" THEN 1456747200 ELSE 0 - 1],
             runs |-> << [tag |-> "plain", ncols |-> NCols,
                          argv |-> << "select " \o SelectText \o " from '.'" \o WhereText \o " into list" >>],
                         [tag |-> "ord", ncols |-> NCols,
                          argv |-> << "select " \o SelectText \o " from '.'" \o WhereText \o " order by " \o OrderText(1) \o " into list" >>] >>]
EmitWorld == (keys = <<>>) => PrintT(<<"WORLD", ToJson([key |-> WKey, world |-> IF ws = 0 THEN W5 ELSE RndWorld(ws)])>>)
Emit == phase = "done" => PrintT(<<"REPLAY", ToJson(Scenario)>>)
=============================================================================
