------------------------------- MODULE MC_C01b ------------------------------
(* Binding layer, scenario generator for C01: names that are not text.  On   *)
(* Linux a file name is any sequence of bytes without `/` and NUL; the names *)
(* here are given as bytes (the driver creates them as such): directories    *)
(* whose names differ only in a byte that is not valid UTF-8, next to one    *)
(* with a valid multi-byte name, each holding entries.  Rows are identified  *)
(* by inode, so what the names look like when printed does not matter.       *)
EXTENDS World, TLC, Json

VARIABLES win, root, phase
vars == <<win, root, phase>>

B(i, p, k, bytes) == [id |-> i, parent |-> p, kind |-> k, name |-> bytes, target |-> -3, tstyle |-> "rel"]
Wb == [nodes |-> << B(1, 0, "dir", <<97, 255>>), B(2, 0, "dir", <<97, 254>>), B(3, 0, "dir", <<97, 195, 169>>), B(4, 0, "file", <<255, 102>>),
                    B(5, 1, "file", <<102, 49>>), B(6, 2, "file", <<102, 49>>), B(7, 3, "file", <<102, 50>>), B(8, 1, "dir", <<192, 128>>),
                    B(9, 2, "dir", <<192, 129>>), B(10, 8, "file", <<120>>), B(11, 9, "file", <<120>>),
                    \* names that differ only in the case of a letter
                    B(12, 0, "dir", <<82, 101, 112>>), B(13, 0, "dir", <<114, 101, 112>>), B(14, 12, "file", <<110>>), B(15, 13, "file", <<110>>),
                    B(16, 13, "dir", <<81>>), B(17, 16, "file", <<122>>) >>]

Init == win = <<0, 0>> /\ root = "" /\ phase = "start"
(* `~` is the user's home directory (here: the top of the tree, while the working directory is a sub-directory of it) *)
Choose == /\ phase = "start" /\ win' \in {<<0, 0>>, <<1, 2>>, <<2, 3>>, <<0, 1>>} /\ root' \in {"'.'", "'@ROOT@'", "~", "'~'", "~/", "~/rep"} /\ phase' = "done"
Spec == Init /\ [][Choose]_vars

WindowText == (IF win[1] = 0 THEN "" ELSE " mindepth " \o ToString(win[1])) \o (IF win[2] = 0 THEN "" ELSE " maxdepth " \o ToString(win[2]))
Query(m) == "select inode, path from " \o root \o WindowText \o (IF m = "dfs" THEN " dfs" ELSE "") \o " into list"
Scenario == [prop |-> "C01", class |-> (IF root \in {"'.'", "'@ROOT@'"} THEN "names-as-bytes" ELSE "home-root") \o (IF win[1] = 0 THEN "/min0" ELSE "/minN") \o (IF win[2] = 0 THEN "/max0" ELSE "/maxN"),
             world |-> Wb, roots |-> IF root = "~/rep" THEN <<13>> ELSE <<0>>, min |-> win[1], max |-> win[2],
             env |-> IF root \in {"~", "'~'", "~/", "~/rep"} THEN [tz |-> "UTC", cwd |-> 12, home |-> 0] ELSE [tz |-> "UTC", cwd |-> 0],
             runs |-> << [tag |-> "bfs", ncols |-> 2, argv |-> <<Query("bfs")>>], [tag |-> "dfs", ncols |-> 2, argv |-> <<Query("dfs")>>] >>]
Emit == phase = "done" => PrintT(<<"REPLAY", ToJson(Scenario)>>)
=============================================================================
