------------------------------- MODULE MC_C01b ------------------------------
(* Binding layer, scenario generator for C01: names that are not text.  On   *)
(* Linux a file name is any sequence of bytes without `/` and NUL; the names *)
(* here are given as bytes (the driver creates them as such): directories    *)
(* whose names differ only in a byte that is not valid UTF-8, next to one    *)
(* with a valid multi-byte name, each holding entries.  Rows are identified  *)
(* by inode, so what the names look like when printed does not matter.       *)
EXTENDS World, TLC, Json

VARIABLES win, root, phase
vars == <<win, root, phase>>

B(i, p, k, bytes) == [id |-> i, parent |-> p, kind |-> k, name |-> bytes, target |-> -3, tstyle |-> "rel"]
Wb == [nodes |-> << B(1, 0, "dir", <<97, 255>>), B(2, 0, "dir", <<97, 254>>), B(3, 0, "dir", <<97, 195, 169>>), B(4, 0, "file", <<255, 102>>),
                    B(5, 1, "file", <<102, 49>>), B(6, 2, "file", <<102, 49>>), B(7, 3, "file", <<102, 50>>), B(8, 1, "dir", <<192, 128>>),
                    B(9, 2, "dir", <<192, 129>>), B(10, 8, "file", <<120>>), B(11, 9, "file", <<120>>) >>]

Init == win = <<0, 0>> /\ root = "" /\ phase = "start"
Choose == /\ phase = "start" /\ win' \in {<<0, 0>>, <<1, 2>>, <<2, 3>>, <<0, 1>>} /\ root' \in {"'.'", "'@ROOT@'"} /\ phase' = "done"
Spec == Init /\ [][Choose]_vars

WindowText == (IF win[1] = 0 THEN "" ELSE " mindepth " \o ToString(win[1])) \o (IF win[2] = 0 THEN "" ELSE " maxdepth " \o ToString(win[2]))
Query(m) == "select inode, path from " \o root \o WindowText \o (IF m = "dfs" THEN " dfs" ELSE "") \o " into list"
Scenario == [prop |-> "C01", class |-> "names-as-bytes" \o (IF win[1] = 0 THEN "/min0" ELSE "/minN") \o (IF win[2] = 0 THEN "/max0" ELSE "/maxN"),
             world |-> Wb, roots |-> <<0>>, min |-> win[1], max |-> win[2],
             env |-> [tz |-> "UTC", cwd |-> 0],
             runs |-> << [tag |-> "bfs", ncols |-> 2, argv |-> <<Query("bfs")>>], [tag |-> "dfs", ncols |-> 2, argv |-> <<Query("dfs")>>] >>]
Emit == phase = "done" => PrintT(<<"REPLAY", ToJson(Scenario)>>)
=============================================================================
