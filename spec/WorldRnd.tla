------------------------------ MODULE WorldRnd ------------------------------
(* Pseudo-random trees for the thorough tiers ("all trees" beyond the fixed  *)
(* worlds): tree number s is a function of s alone, so a replay file names   *)
(* its world by a number.  The draws come from a linear congruential         *)
(* sequence x' = (75 x + 74) mod 65537 (every product stays below 2^31).     *)
(* Each value pool holds the boundary values the properties care about       *)
(* (digit-count boundaries, unit boundaries, day and hour edges, names that  *)
(* differ only in case or extension, multi-byte characters).                 *)
EXTENDS WorldC02, Sequences

Lcg(x) == (75 * x + 74) % 65537
RECURSIVE Stream(_, _)
Stream(x, n) == IF n = 0 THEN <<>> ELSE <<Lcg(x)>> \o Stream(Lcg(x), n - 1)
Pick(pool, v) == pool[(v % Len(pool)) + 1]

SizePool == <<0, 1, 9, 10, 11, 99, 100, 101, 999, 1000, 1001, 1023, 1024, 1025, 4095, 4096, 65535, 65536, 7, 12>>
LinePool == <<0, 0, 1, 2, 3, 9, 10, 11>>
UidPool  == <<0, 0, 1000, 1000, 65534, 1>>
ModePool == <<420, 384, 493, 292, 436, 511, 2541, 1517, 448, 256>>
TimePool == <<0, 1, 53999, 54000, 54001, 54059, 54060, 57599, 57600, 86399, 86400, 86401, 172799, 172800, 0 - 1, 0 - 86400, 2678400, 31536000>>
StemPool == << <<"a">>, <<"b","b">>, <<"A">>, <<"z","z","z">>, <<"1","0">>, <<"9">>, <<"r","é">>, <<"x","-","y">>, <<"l","o","g">>, <<"s","i","z","e">>,
               <<"n","a","m","e",".","o","l","d">>, <<".","h">>, <<"t","x","t">>, <<"a","_","b">>, <<"q","%">>, <<"m","+","n">> >>
ExtPool  == << <<>>, <<".","t","x","t">>, <<".","l","o","g">>, <<".","T","X","T">>, <<".","b">>, <<".","t","a","r",".","g","z">>, <<>>, <<".","j","p","g">> >>
IdChars  == <<"c","d","e","f","g","h","i","j","k","l","m","n","o","p">>

(* tree s: two directories (nodes 1, 2; 2 inside 1) and NF files spread over the top, node 1 and node 2 *)
NF == 10
RndWorld(s) ==
  LET st == Stream(s * 131 + 7, NF * 8)
      D(k, i) == st[(i - 1) * 8 + k]
      File(i) == LET sz == Pick(SizePool, D(1, i))  nl == Pick(LinePool, D(2, i))
                     lines == IF nl > sz THEN sz ELSE nl
                     \* (a unique first character keeps names distinct inside a directory)
                     nm == <<IdChars[i]>> \o Pick(StemPool, D(3, i)) \o Pick(ExtPool, D(4, i))
                 IN N(i + 2, Pick(<<0, 0, 1, 1, 2>>, D(5, i)), "file", nm, Runs(sz - lines, lines), Pick(ModePool, D(6, i)),
                      Pick(UidPool, D(7, i)), Pick(UidPool, D(7, i) \div 7), T0 + Pick(TimePool, D(8, i)), 0, -3)
  IN [nodes |-> << N(1, 0, "dir", <<"d","i","r","1">>, <<>>, 493, 0, 0, T0 + 5, 0, -3),
                   N(2, 1, "dir", <<"D","2",".","d">>, <<>>, 448, 1000, 0, T0 + 86405, 0, -3) >>
                \o [i \in 1 .. NF |-> File(i)]]
SizeOfNode(n) == IF n.content = <<>> THEN 0 ELSE IF Len(n.content) = 1 THEN n.content[1].count ELSE n.content[1].count + n.content[2].count
LinesOfNode(n) == IF n.content = <<>> THEN 0 ELSE IF n.content[Len(n.content)].byte = 10 THEN n.content[Len(n.content)].count ELSE 0
=============================================================================
