------------------------------- MODULE MC_C18 -------------------------------
(* Binding layer, scenario generator for C18 (following symlinks).           *)
(* A fixed skeleton (search root r with two sub-trees, a sibling tree `out`  *)
(* outside the root) is decorated with one or two symbolic links: position x *)
(* target (directory inside / outside / above the root, ancestor, the root   *)
(* itself, a file, another link, nothing) x absolute or link-relative text;  *)
(* x root spelling x bfs/dfs.  Two runs: with and without `symlinks`.        *)
EXTENDS World, TLC, Json

CONSTANTS MaxLinks

VARIABLES links, spell, dfs, win, two, mix, phase
vars == <<links, spell, dfs, win, two, mix, phase>>

Nd(i, p, k, nm) == [id |-> i, parent |-> p, kind |-> k, name |-> nm, target |-> -3, tstyle |-> "abs"]
Skeleton == << Nd(1, 0, "dir", "r"), Nd(2, 1, "dir", "a"), Nd(3, 2, "file", "f1"), Nd(4, 1, "dir", "b"), Nd(5, 4, "dir", "c"),
               Nd(6, 5, "file", "f2"), Nd(7, 0, "dir", "out"), Nd(8, 7, "file", "o1"), Nd(9, 7, "dir", "od"), Nd(10, 9, "file", "o2"),
               Nd(11, 1, "file", "f0"),
               \* (deeper levels of the outside tree: for depth windows that cut behind a link)
               Nd(12, 9, "dir", "oe"), Nd(13, 12, "file", "o3"), Nd(14, 12, "dir", "og"), Nd(15, 14, "file", "o4") >>
NS == Len(Skeleton)
LinkNode(j) == [id |-> NS + j, parent |-> links[j].at, kind |-> "symlink", name |-> "l" \o ToString(j),
                target |-> links[j].to, tstyle |-> links[j].style]
W == [nodes |-> Skeleton \o [j \in 1 .. Len(links) |-> LinkNode(j)]]

Positions == {1, 2, 5}
(* targets: node ids; 0 = the directory above the search root; -1 = dangling; 100 + j = link j (chains, mutual pairs) *)
Targets == {0, 1, 2, 4, 5, 7, 9, 3, 8, -1, 12}
Init == links = <<>> /\ spell = "" /\ dfs = FALSE /\ win = "" /\ two = FALSE /\ mix = "both" /\ phase = "links"
AddLink == /\ phase = "links" /\ Len(links) < MaxLinks /\ Len(links) < 2
           \* (a second link may sit in the outside tree when the first one leads there: a link reached through a link, whose
           \*  relative target is relative to the real directory it is in, not to the path it was reached by)
           /\ \E at \in Positions \cup (IF Len(links) = 1 /\ links[1].to \in {7, 9} THEN {7, 9} ELSE {}),
                 to \in Targets \cup (IF Len(links) = 1 THEN {NS + 1} ELSE {}), st \in {"abs", "rel"} :
                links' = Append(links, [at |-> at, to |-> to, style |-> st])
           /\ UNCHANGED <<spell, dfs, win, two, mix, phase>>
(* a first link pointing at the second one (chain / mutual pair) *)
AddPair == /\ phase = "links" /\ links = <<>> /\ MaxLinks >= 2
           \* (a second link outside the root, at 7, is reachable only through the first one: a genuine chain)
           /\ \E at1 \in {2, 5}, at2 \in {1, 2, 7}, to2 \in {2, 4, 7, 9, NS + 1, -1}, st \in {"abs", "rel"} :
                links' = << [at |-> at1, to |-> NS + 2, style |-> st], [at |-> at2, to |-> to2, style |-> st] >>
           /\ UNCHANGED <<spell, dfs, win, two, mix, phase>>
(* win: a depth window that excludes no level (one link only) - it must change nothing, wherever the link leads.            *)
(* two: two roots, r/a and r/b, both with the option (links in both sub-trees): a real directory reached from both is still *)
(* listed once per query.                                                                                                  *)
(* three links: l1 -> l2 (a link in another directory than its target) -> od, and inside od a relative link `..`: its target *)
(* is the parent of the real directory (out), not the parent of the path the walk came by                                  *)
AddTriple == /\ phase = "links" /\ links = <<>> /\ MaxLinks >= 2
             /\ \E at1 \in {2, 5}, at2 \in {1, 2}, st1 \in {"abs", "rel"} :
                  links' = << [at |-> at1, to |-> NS + 2, style |-> st1], [at |-> at2, to |-> 9, style |-> "rel"], [at |-> 9, to |-> 7, style |-> "rel"] >>
             /\ UNCHANGED <<spell, dfs, win, two, mix, phase>>
Finish == /\ phase = "links" /\ links # <<>>
          /\ spell' \in {"dot", "rel", "abs"} /\ dfs' \in BOOLEAN
          \* (and, for one link, windows that cut: what lies behind the link is counted from the link on)
          /\ win' \in (IF Len(links) = 1 THEN {"", " maxdepth 9", " mindepth 1", " maxdepth 2", " maxdepth 3", " mindepth 3", " mindepth 2 maxdepth 3"} ELSE {""})
          /\ two' \in (IF Len(links) = 2 /\ links[1].at = 2 /\ links[2].at = 5 /\ spell' # "dot" THEN BOOLEAN ELSE {FALSE})
          \* mix: with two roots, which of them carry the option (a real directory is still listed once per query)
          /\ mix' \in (IF two' THEN {"both", "first", "second"} ELSE {"both"})
          /\ phase' = "done" /\ UNCHANGED links
Next == AddLink \/ AddPair \/ AddTriple \/ Finish
Spec == Init /\ [][Next]_vars

RootText == CASE spell = "dot" -> "'.'" [] spell = "rel" -> "'r'" [] spell = "abs" -> "'@N1@'"
RootA == IF spell = "rel" THEN "'r/a'" ELSE "'@N2@'"
RootB == IF spell = "rel" THEN "'r/b'" ELSE "'@N4@'"
Opts(opt) == opt \o win \o (IF dfs THEN " dfs" ELSE "")
OptA(opt) == IF mix = "second" THEN "" ELSE opt
OptB(opt) == IF mix = "first" THEN "" ELSE opt
Q(opt) == "select inode, path from " \o (IF two THEN RootA \o Opts(OptA(opt)) \o ", " \o RootB \o Opts(OptB(opt)) ELSE RootText \o Opts(opt)) \o " into list"
TargetClass(t) == CASE t = -1 -> "dangling" [] t = 0 -> "above-root" [] t = 1 -> "root" [] t \in {7, 9, 12} -> "outside" [] t \in {3, 8} -> "file"
                    [] t > NS -> "link" [] OTHER -> "inside"
RECURSIVE LinksClass(_)
LinksClass(j) == IF j > Len(links) THEN ""
                 ELSE (IF j > 1 THEN "+" ELSE "") \o TargetClass(links[j].to)
                      \o (IF links[j].to >= 0 /\ links[j].to <= NS /\ Below(W, links[j].to, NS + j) THEN "(ancestor)" ELSE "")
                      \o "/" \o links[j].style \o LinksClass(j + 1)
Scenario == [prop |-> "C18", class |-> LinksClass(1) \o "/" \o spell \o (IF win \in {" maxdepth 9", " mindepth 1"} THEN "/window" ELSE IF win # "" THEN "/cutting-window" ELSE "") \o (IF two THEN "/two-roots" \o (IF mix = "both" THEN "" ELSE "/option-on-" \o mix) ELSE ""),
             min |-> (CASE win = " mindepth 3" -> 3 [] win = " mindepth 2 maxdepth 3" -> 2 [] OTHER -> 0),
             max |-> (CASE win = " maxdepth 2" -> 2 [] win \in {" maxdepth 3", " mindepth 2 maxdepth 3"} -> 3 [] OTHER -> 0),
             world |-> W, root |-> 1, roots |-> IF two THEN <<2, 4>> ELSE <<1>>, followed |-> IF ~two THEN <<1>> ELSE IF mix = "first" THEN <<2>> ELSE IF mix = "second" THEN <<4>> ELSE <<2, 4>>,
             env |-> [tz |-> "UTC", cwd |-> IF spell = "dot" THEN 1 ELSE 0],
             runs |-> << [tag |-> "follow", ncols |-> 2, timeout |-> 10, argv |-> << Q(" symlinks") >>],
                         [tag |-> "plain", ncols |-> 2, timeout |-> 10, argv |-> << Q("") >>] >>]
Emit == phase = "done" => PrintT(<<"REPLAY", ToJson(Scenario)>>)
=============================================================================
