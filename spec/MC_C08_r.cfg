SPECIFICATION Spec
CONSTANTS
  WorldSel = {1, 2}
INVARIANTS EmitWorld Emit
