------------------------------- MODULE SizeMech -----------------------------
(* Mech layer: util::parse_filesize (src/util/mod.rs) - how the text of a    *)
(* size literal becomes a number of bytes.  The text (characters) is lower-  *)
(* cased, blanks are dropped, then the endings are tried in the order of the *)
(* code: k, kb, kib, m, mb, mib, g, gb, gib, t, tb, tib, b, none; what       *)
(* stands before the ending is read as a decimal number, multiplied and      *)
(* rounded to the byte (for `b` and none a whole number is taken as it is).  *)
(* Result [ok, v] with v a BigNat; ok = FALSE models None.  Numbers are      *)
(* digits with at most one dot (the model abstains from exponents and signs).*)
EXTENDS BigNat, Chars, FiniteSets

Strip(cs) == SelectSeq(LowerSeq(cs), LAMBDA c : c # " ")
EndsWith(s, e) == Len(s) > Len(e) /\ SubSeq(s, Len(s) - Len(e) + 1, Len(s)) = e          \* `length > n && string.ends_with(..)`
(* a decimal number: digits [. digits], at least one digit in all: [ok, num, scale] with value num / 10^scale *)
Dec(cs) ==
  LET dots == { i \in 1 .. Len(cs) : cs[i] = "." }
      dot == IF dots = {} THEN 0 ELSE CHOOSE i \in dots : TRUE
      ip == IF dot = 0 THEN cs ELSE SubSeq(cs, 1, dot - 1)
      fp == IF dot = 0 THEN <<>> ELSE SubSeq(cs, dot + 1, Len(cs))
      ok == Cardinality(dots) <= 1 /\ (\A i \in 1 .. Len(ip) : IsDigitC(ip[i])) /\ (\A i \in 1 .. Len(fp) : IsDigitC(fp[i])) /\ Len(ip) + Len(fp) >= 1
  IN IF ok THEN [ok |-> TRUE, num |-> FromDigits([i \in 1 .. Len(ip) + Len(fp) |-> DigitVal((ip \o fp)[i])]), scale |-> Len(fp)]
     ELSE [ok |-> FALSE, num |-> <<>>, scale |-> 0]
(* round(num * mult / 10^scale), halves away from zero *)
RoundDiv(a, k) == LET RECURSIVE Q(_, _) Q(x, j) == IF j = 0 THEN x ELSE Q(DivSmall(x, 10), j - 1) IN
                  IF k = 0 THEN a ELSE Q(Add(a, MulSmall(Pow10(k - 1), 5)), k)
Scaled(cs, mult) == LET d == Dec(cs) IN IF d.ok THEN [ok |-> TRUE, v |-> RoundDiv(Mul(d.num, mult), d.scale)] ELSE [ok |-> FALSE, v |-> <<>>]
Endings == << <<<<"k">>, 1024, 1>>, <<<<"k","b">>, 1000, 1>>, <<<<"k","i","b">>, 1024, 1>>, <<<<"m">>, 1024, 2>>, <<<<"m","b">>, 1000, 2>>, <<<<"m","i","b">>, 1024, 2>>,
              <<<<"g">>, 1024, 3>>, <<<<"g","b">>, 1000, 3>>, <<<<"g","i","b">>, 1024, 3>>, <<<<"t">>, 1024, 4>>, <<<<"t","b">>, 1000, 4>>, <<<<"t","i","b">>, 1024, 4>> >>
RECURSIVE TryEndings(_, _)
TryEndings(s, i) ==
  IF i > Len(Endings) THEN
     (IF EndsWith(s, <<"b">>) THEN LET body == SubSeq(s, 1, Len(s) - 1) IN
                                    IF AllDigits(body) THEN [ok |-> TRUE, v |-> FromDigits([j \in 1 .. Len(body) |-> DigitVal(body[j])])] ELSE Scaled(body, <<1>>)
      ELSE IF AllDigits(s) THEN [ok |-> TRUE, v |-> FromDigits([j \in 1 .. Len(s) |-> DigitVal(s[j])])] ELSE [ok |-> FALSE, v |-> <<>>])
  ELSE IF EndsWith(s, Endings[i][1]) THEN Scaled(SubSeq(s, 1, Len(s) - Len(Endings[i][1])), Pow(Endings[i][2], Endings[i][3]))
  ELSE TryEndings(s, i + 1)
ParseFilesize(cs) == TryEndings(Strip(cs), 1)
=============================================================================
