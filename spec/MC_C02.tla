------------------------------- MODULE MC_C02 -------------------------------
(* Binding layer, scenario generator for C02: every atomic condition         *)
(* `column OP literal` over the always-available columns of world W2, with   *)
(* literals drawn from the attribute values present in the tree, their       *)
(* neighbours and a few others.  One TLC state per atom.                     *)
EXTENDS WorldC02, Lang, Json, FiniteSets, TLC

VARIABLES atom, phase
NoAtom == [col |-> "", op |-> ""]

CmpOps == {"eq", "ne", "gt", "gte", "lt", "lte", "eeq", "ene"}
OrdOps == {"eq", "ne", "gt", "gte", "lt", "lte"}

IntLits(col) ==
  CASE col = "size" -> { IntL(v) : v \in {-2, -1, 0, 1, 8, 9, 10, 11, 12, 100, 1022, 1023, 1024, 1025, 1026, 2048, 2049, 4096} }
                       \cup { SizeL(1024, "1k"), SizeL(1000, "1kb"), SizeL(1024, "1kib"), SizeL(2048, "2k"), SizeL(1024, "1K"), SizeL(10, "10b"),
                              SizeL(1000000, "1mb"), SizeL(1048576, "1mib"), SizeL(1048576, "1m"), SizeL(1000000, "1MB"), SizeL(1000000, "1000kb") }
    [] col = "uid" -> { IntL(v) : v \in {-1, 0, 1, 999, 1000, 1001} }
    [] col = "gid" -> { IntL(v) : v \in {0, 999, 1000, 1001, 2000} }
    [] col = "hardlinks" -> { IntL(v) : v \in {-1, 0, 1, 2, 3} }
    [] col = "line_count" -> { IntL(v) : v \in {0, 1, 2, 3, 4, 5} }
    [] col = "length(name)" -> { IntL(v) : v \in {2, 3, 4, 5, 6, 7, 8, 9} }

IntCols == {"size", "uid", "gid", "hardlinks", "line_count", "length(name)"}
DecAtoms == { A1(col, op, l, "int/" \o op \o "/fraction") : op \in CmpOps, col \in {"size", "length(name)", "line_count"},
                                                          l \in { DecL(3, 2, "1.5"), DecL(5, 2, "2.5"), DecL(1, 2, "0.5"), DecL(20, 2, "10.0"), DecL(19, 2, "9.5"), DecL(2047, 2, "1023.5") } }
IntAtomSet == DecAtoms \cup UNION { { A1(col, op, l, "int/" \o op) : op \in CmpOps, l \in IntLits(col) } : col \in IntCols }
BetweenAtoms == { A("size", "between", IntL(9), IntL(11), "int/between"), A("size", "between", IntL(10), IntL(10), "int/between"),
                  A("size", "between", IntL(10), IntL(1023), "int/between"), A("size", "between", IntL(1024), IntL(2048), "int/between"),
                  A("size", "between", IntL(12), IntL(9), "int/between"), A("size", "between", SizeL(1024, "1k"), SizeL(2048, "2k"), "int/between"),
                  A("hardlinks", "between", IntL(1), IntL(2), "int/between"), A("hardlinks", "between", IntL(2), IntL(3), "int/between"),
                  A("line_count", "between", IntL(1), IntL(3), "int/between"), A("uid", "between", IntL(1), IntL(1000), "int/between"),
                  A("length(name)", "between", IntL(4), IntL(5), "int/between"),
                  \* (the postfix negation: entries on either bound are inside the interval and therefore not returned)
                  A("size", "notbetween", IntL(9), IntL(11), "int/notbetween"), A("size", "notbetween", IntL(10), IntL(10), "int/notbetween"),
                  A("size", "notbetween", IntL(10), IntL(1023), "int/notbetween"), A("size", "notbetween", IntL(11), IntL(1024), "int/notbetween"),
                  A("size", "notbetween", SizeL(1024, "1k"), SizeL(2048, "2k"), "int/notbetween"),
                  A("hardlinks", "notbetween", IntL(1), IntL(2), "int/notbetween"), A("length(name)", "notbetween", IntL(4), IntL(5), "int/notbetween") }

(* W2x: W2 plus a name with two 2-byte characters (6 characters, 8 bytes) and sizes on and between 10^6 and 2^20 (sparse files) *)
Big(i, nm, sz, szn) == N(i, 0, "file", nm, <<>>, 420, 0, 0, T0 + 90000 + i, 0, -3) @@ [bigsize |-> sz, bign |-> szn]     \* (bign: the same size as a number, for the Mech check)
W2x == [nodes |-> W2.nodes \o << N(15, 0, "file", <<"r","é","ż",".","m","d">>, Runs(5, 1), 420, 0, 0, T0 + 90000, 0, -3),
                                  Big(16, <<"m","1">>, "1000000", 1000000), Big(17, <<"m","2">>, "1020000", 1020000), Big(18, <<"m","3">>, "1048576", 1048576) >>]
Names == { W2.nodes[i].namec : i \in 1 .. Len(W2.nodes) }
Exts == { <<"t","x","t">>, <<"l","o","g">>, <<"b","i","n">>, <<>>, <<"t","x">>, <<"z","i","p">> }
TextLits(col) ==
  CASE col = "name" -> { TextL(c) : c \in (Names \ {<<"s","i","z","e">>, <<"n","a","m","e">>, <<"b","i","n">>}) \cup {<<"n","o","n","e",".","x">>, <<"a",".","t","x">>} }
    [] col = "ext" -> { TextL(c) : c \in (Exts \ {<<"b","i","n">>, <<"l","o","g">>, <<>>}) }
    [] col = "dir" -> { TextL(<<".">>), TextL(<<".","/","s","u","b">>), TextL(<<"s","u","b">>) }
    [] col = "path" -> { TextL(<<".","/","a",".","t","x","t">>), TextL(<<".","/","s","u","b","/","d","e","e","p",".","t","x","t">>), TextL(<<"a",".","t","x","t">>) }
    [] col = "mode" -> { TextL(<<"-","r","w","-","r","-","-","r","-","-">>), TextL(<<"d","r","w","x","r","-","x","r","-","x">>),
                         TextL(<<"-","r","w","s","r","-","x","r","-","x">>), TextL(<<"l","r","w","x","r","w","x","r","w","x">>) }
TextCols == {"name", "ext", "dir", "path", "mode"}
TextAtoms == UNION { { A1(col, op, l, "text/" \o op \o "/plain") : op \in {"eq", "ne", "eeq", "ene", "like", "notlike"}, l \in TextLits(col) } : col \in TextCols }

(* literals that spell a column or a function: quoted, hence text (the statement's examples) *)
KeywordAtoms == { A1("name", op, TextL(<<"s","i","z","e">>), "text/" \o op \o "/quoted-column") : op \in {"eq", "ne", "eeq"} }
           \cup { A1("name", op, TextL(<<"n","a","m","e">>), "text/" \o op \o "/quoted-column") : op \in {"eq", "ne", "eeq"} }
           \cup { A1("name", op, TextL(<<"b","i","n">>), "text/" \o op \o "/quoted-function") : op \in {"eq", "ne"} }
           \cup { A1("ext", op, TextL(<<"b","i","n">>), "text/" \o op \o "/quoted-function") : op \in {"eq", "ne"} }
           \cup { A1("ext", op, TextL(<<"l","o","g">>), "text/" \o op \o "/quoted-function") : op \in {"eq", "ne", "eeq", "like"} }
           \cup { A1("ext", "eq", TextL(<<"s","i","z","e">>), "text/eq/quoted-column") }
           \cup { A1("name", "eeq", TextL(<<"?",".","t","x","t">>), "text/eeq/globchars") }
           \cup { A1("name", "ene", TextL(<<"*">>), "text/ene/globchars") }

PatAtoms ==
  { A1("name", op, TextL(p), "text/" \o op \o "/glob") : op \in {"eq", "ne"},
       p \in { <<"*",".","t","x","t">>, <<"?",".","l","o","g">>, <<"*">>, <<"e","*">>, <<"*","e","*">>, <<"?","?","?">>, <<"A",".","T","X","?">> } }
  \cup { A1("name", op, TextL(p), "text/" \o op \o "/likepat") : op \in {"like", "notlike"},
       p \in { <<"%",".","t","x","t">>, <<"_",".","l","o","g">>, <<"%">>, <<"e","%">>, <<"%","e","%">>, <<"_","_","_">>, <<"B",".","T","X","_">> } }
  \cup { A1("ext", op, TextL(<<"t","*">>), "text/" \o op \o "/glob") : op \in {"eq", "ne"} }
  \cup { A1("path", op, TextL(<<"*","/","s","u","b","/","*">>), "text/" \o op \o "/glob") : op \in {"eq", "ne"} }
  \cup { A1("name", op, RxL(c, FALSE, FALSE), "text/" \o op) : op \in {"rx", "notrx"}, c \in { <<"l","o">>, <<"t","x","t">>, <<"e">>, <<"z","z">> } }
  \cup { A1("name", op, RxL(<<"d">>, TRUE, FALSE), "text/" \o op) : op \in {"rx", "notrx"} }
  \cup { A1("name", op, RxL(<<"g">>, FALSE, TRUE), "text/" \o op) : op \in {"rx", "notrx"} }
  \cup { A1("name", op, RxL(<<"b","i","n">>, TRUE, TRUE), "text/" \o op) : op \in {"rx", "notrx"} }
  \cup { A1("ext", op, RxL(<<"o">>, FALSE, FALSE), "text/" \o op) : op \in {"rx", "notrx"} }

BoolCols == {"is_dir", "is_file", "is_symlink", "is_pipe", "is_char", "is_block", "is_socket", "is_hidden",
             "user_read", "user_write", "user_exec", "user_all", "group_read", "group_write", "group_exec", "group_all",
             "other_read", "other_write", "other_exec", "other_all", "suid", "sgid"}
BoolLits == { BoolL(TRUE, "true"), BoolL(FALSE, "false"), BoolL(TRUE, "1"), BoolL(FALSE, "0"), BoolL(TRUE, "yes"), BoolL(FALSE, "no") }
BoolAtoms == { A1(col, op, l, "bool/" \o op) : col \in BoolCols, op \in {"eq", "ne"}, l \in BoolLits }
        \cup { A1(col, "istrue", BoolL(TRUE, ""), "bool/short") : col \in BoolCols }

Day(y, m, d) == DateL(Epoch(y, m, d, 0, 0, 0, 0), Epoch(y, m, d, 23, 59, 59, 0), DateText(y, m, d))
DateLits == { Day(2017, 5, 1), Day(2017, 5, 2), Day(2017, 4, 30),
              DateL(T0 + 54000, T0 + 57599, "2017-05-01 15"), DateL(T0 + 54000, T0 + 54059, "2017-05-01 15:00"),
              DateL(T0 + 54000, T0 + 54000, "2017-05-01 15:00:00"), DateL(T0 + 54060, T0 + 54060, "2017-05-01 15:01:00"),
              DateL(T0 + 86399, T0 + 86399, "2017-05-01 23:59:59"),
              \* the documented free-form spelling, read the UK way: day/month/year
              DateL(T0, T0 + 86399, "01/05/2017"), DateL(T0 + 86400, T0 + 172799, "02/05/2017") }
DateAtoms == { A1("modified", op, l, "date/" \o op) : op \in OrdOps, l \in DateLits }

ColPairs == { <<"size", "hardlinks">>, <<"uid", "gid">>, <<"size", "line_count">>, <<"length(name)", "hardlinks">>,
              <<"line_count", "hardlinks">>, <<"gid", "size">>, <<"size", "size">>,
              \* the right-hand side derives from a column (its value differs from entry to entry)
              <<"size", "length(name)">>, <<"size", "hardlinks + 1">>, <<"uid", "length(name) * 2">>, <<"line_count", "length(name)">> }
ColAtoms == { A1(p[1], op, ColL(p[2]), "colcol/" \o op) : p \in ColPairs, op \in OrdOps }
       \cup { A1("name", op, ColL("ext"), "colcol/text/" \o op) : op \in {"eeq", "ene"} }
       \cup { A1("is_dir", op, ColL("user_exec"), "colcol/bool/" \o op) : op \in {"eq", "ne"} }

(* every documented alias of every operator, on a value that lies on the boundary (size 10) resp. on a name *)
NumAliases == { <<"eq", "==">>, <<"eq", "eq">>, <<"ne", "<>">>, <<"ne", "ne">>, <<"gt", "gt">>, <<"gte", "gte">>, <<"gte", "ge">>, <<"lt", "lt">>,
                <<"lte", "lte">>, <<"lte", "le">>, <<"eeq", "eeq">>, <<"ene", "ene">> }
TextAliases == { <<"rx", "~=">>, <<"rx", "regexp">>, <<"rx", "rx">>, <<"notrx", "!~=">>, <<"notrx", "notrx">> }
AliasAtoms == { A1("size", p[1], IntL(10), "alias/" \o p[2]) @@ [spell |-> p[2]] : p \in NumAliases }
         \cup { A1("hardlinks", p[1], IntL(2), "alias/" \o p[2]) @@ [spell |-> p[2]] : p \in NumAliases }
         \cup { A1("name", p[1], RxL(<<"t","x","t">>, FALSE, TRUE), "alias/" \o p[2]) @@ [spell |-> p[2]] : p \in TextAliases }
         \cup { A1("name", "notlike", TextL(<<"%",".","t","x","t">>), "alias/notlike") @@ [spell |-> "notlike"] }
Atoms == IntAtomSet \cup BetweenAtoms \cup TextAtoms \cup KeywordAtoms \cup PatAtoms \cup BoolAtoms \cup DateAtoms \cup ColAtoms \cup AliasAtoms

Init == atom = NoAtom /\ phase = "start"
Next == phase = "start" /\ atom' \in Atoms /\ phase' = "done"
Spec == Init /\ [][Next]_<<atom, phase>>

Scenario == [prop |-> "C02", class |-> atom.class, world |-> "W2x", formula |-> [f |-> "atom", a |-> atom],
             env |-> [tz |-> "UTC", cwd |-> 0],
             runs |-> << [tag |-> "q", ncols |-> 1,
                          argv |-> << "select path from '.' where " \o CondText(atom) \o " into list" >>] >>]
EmitWorld == (phase = "start") => PrintT(<<"WORLD", ToJson([key |-> "W2x", world |-> W2x])>>)
Emit == phase = "done" => PrintT(<<"REPLAY", ToJson(Scenario)>>)
=============================================================================
