SPECIFICATION Spec
CONSTANTS
  MaxLen = 4
  MaxPath = 5
  Alphabet = {"*", "?", "a", "/", "!"}
  PathAlphabet = {"a", "b", "/"}
INVARIANTS HgAgree DockerAgree FoldAgree RxAgree
CHECK_DEADLOCK FALSE
