------------------------------- MODULE WalkerL ------------------------------
(* Mech layer: Searcher::visit_dir with the `symlinks` root option           *)
(* (src/searcher.rs).  Walker.tla models the walk without following links,   *)
(* with several roots and LIMIT; this module adds what following needs:      *)
(*                                                                           *)
(*   - an entry that is a link is entered when its target (through any chain *)
(*     of links: `target.is_dir()`) is a directory;                          *)
(*   - ok_to_visit_dir: visited_inodes holds the inode of every entry that   *)
(*     was accepted for a descent (the link's own inode for a link);         *)
(*   - visit_dir begins with `visited_dirs.insert(canonical_path)`: an       *)
(*     activation for a real directory that has been entered before returns  *)
(*     at once (no entry loop, no `leave`);                                  *)
(*   - the level of a directory's entries is handed down: 1 for the root,    *)
(*     one more for every directory or link target entered from it (the     *)
(*     queue of the breadth-first mode holds it next to the path).          *)
(*                                                                           *)
(* One root, no LIMIT (those are Walker's).  TLC checks, for every world     *)
(* with links (to files, directories, ancestors, each other, themselves,     *)
(* nothing), every root, window and mode: termination, every real directory  *)
(* entered at most once, and - for the unrestricted window - that the rows   *)
(* are exactly Prop's World!Behind (following) / World!Listed (not).         *)
EXTENDS World, TLC

CONSTANTS MaxN, MaxLinks, Extra

VARIABLES w, root, win, dfs, follow,
          stack,    \* activations of visit_dir that run their entry loop, innermost last
          queue,    \* dir_queue: <<entry (node id), level of its entries>> waiting to be entered
          visited,  \* visited_inodes
          vdirs,    \* visited_dirs (real directories)
          entered,  \* history: real directories whose entry loop was started, in order
          out, pc
vars == <<w, root, win, dfs, follow, stack, queue, visited, vdirs, entered, out, pc>>

MkWorld(n, par, kd, tg) == [nodes |-> [i \in 1 .. n |->
                              [id |-> i, parent |-> par[i], kind |-> kd[i], name |-> "x", target |-> IF kd[i] = "symlink" THEN tg[i] ELSE 0]]]
ValidShape(n, par, kd, tg) == /\ \A i \in 1 .. n : par[i] < i /\ (par[i] # 0 => kd[par[i]] = "dir")
                              /\ \A i \in 2 .. n : par[i] >= par[i - 1]
                              /\ \A i \in 1 .. n : kd[i] # "symlink" => tg[i] = 0
                              /\ Cardinality({ i \in 1 .. n : kd[i] = "symlink" }) \in 1 .. MaxLinks
WorldsN(n) == { MkWorld(n, x[1], x[2], x[3]) :
                x \in { y \in [1 .. n -> 0 .. n - 1] \X [1 .. n -> {"dir", "file", "symlink"}] \X [1 .. n -> -1 .. n] :
                        ValidShape(n, y[1], y[2], y[3]) } }
Worlds == UNION { WorldsN(n) : n \in 1 .. MaxN }

Res(n) == Resolve(w, n, 8)

Init ==
  /\ w \in Worlds
  /\ root \in {0} \cup { d \in NodeIds(w) : Kind(w, d) = "dir" }
  /\ win \in (0 .. MaxDepth(w) + Extra) \X (0 .. MaxDepth(w) + Extra)
  /\ dfs \in BOOLEAN /\ follow \in BOOLEAN
  /\ stack = <<>> /\ queue = <<>> /\ visited = {} /\ vdirs = {} /\ entered = <<>> /\ out = <<>>
  /\ pc = "start"

Top == stack[Len(stack)]
Pop == SubSeq(stack, 1, Len(stack) - 1)
SetTop(f) == [stack EXCEPT ![Len(stack)] = f]
Frame(d, pq, depth) == [dir |-> d, depth |-> depth, unread |-> ChildrenOf(w, d), pq |-> pq, draining |-> FALSE]
(* the beginning of visit_dir for the path of node n (the root, a directory entry, or the first hop of a link): *)
(* refused(d) - the real directory has been entered before; otherwise a new activation on base *)
Refused(d) == d \in vdirs                      \* (recorded and checked with and without the option: roots may differ in it)
Activate(base, n, pq, depth) ==
  LET d == Res(n) IN
  /\ stack' = IF Refused(d) THEN base ELSE Append(base, Frame(d, pq, depth))
  /\ vdirs' = vdirs \cup {d}
  /\ entered' = IF Refused(d) THEN entered ELSE Append(entered, d)

Start ==
  /\ pc = "start"
  /\ visited' = {root}
  /\ Activate(<<>>, root, TRUE, 1)
  /\ pc' = "walk"
  /\ UNCHANGED <<w, root, win, dfs, follow, queue, out>>

(* one iteration of the entry loop of the innermost activation, for the entry e that readdir returns next; *)
(* how = what the code does about descending: "dfs" (calls visit_dir at once), "enqueue", "no" *)
PickOne(e, how) ==
  /\ pc = "walk" /\ stack # <<>> /\ ~Top.draining /\ e \in Top.unread
  /\ LET f == Top
         lvl == f.depth
         report == win[1] = 0 \/ lvl >= win[1]
         mayDescend == win[2] = 0 \/ lvl < win[2]
         islink == Kind(w, e) = "symlink"
         ok == Kind(w, e) = "dir" \/ (islink /\ Res(e) # -1)       \* `target.is_dir()` follows the whole chain
         cand == mayDescend /\ ok                                    \* ok_to_visit_dir is called
         go == cand /\ e \notin visited /\ (follow \/ ~islink)
         rest == SetTop([f EXCEPT !.unread = f.unread \ {e}])
     IN /\ out' = IF report THEN Append(out, e) ELSE out
        /\ visited' = IF cand THEN visited \cup {e} ELSE visited
        /\ how = IF ~go THEN "no" ELSE IF dfs THEN "dfs" ELSE "enqueue"
        /\ IF go /\ dfs
           THEN Activate(rest, e, FALSE, f.depth + 1) /\ queue' = queue
           ELSE /\ stack' = rest /\ UNCHANGED <<vdirs, entered>>
                /\ queue' = IF go THEN Append(queue, <<e, f.depth + 1>>) ELSE queue
  /\ UNCHANGED <<w, root, win, dfs, follow, pc>>

PickEntry == \E e \in UNION { f.unread : f \in { stack[k] : k \in 1 .. Len(stack) } } : \E how \in {"dfs", "enqueue", "no"} : PickOne(e, how)

EndOfDir ==
  /\ pc = "walk" /\ stack # <<>> /\ Top.unread = {} /\ ~Top.draining
  /\ IF ~dfs /\ Top.pq
     THEN stack' = SetTop([Top EXCEPT !.draining = TRUE])
     ELSE stack' = Pop
  /\ UNCHANGED <<w, root, win, dfs, follow, queue, visited, vdirs, entered, out, pc>>

Dequeue ==
  /\ pc = "walk" /\ stack # <<>> /\ Top.draining
  /\ IF queue # <<>>
     THEN /\ Activate(stack, Head(queue)[1], FALSE, Head(queue)[2])
          /\ queue' = Tail(queue)
     ELSE /\ stack' = Pop /\ UNCHANGED <<queue, vdirs, entered>>
  /\ UNCHANGED <<w, root, win, dfs, follow, visited, out, pc>>

(* the root's activation was refused or has returned *)
Finish ==
  /\ pc = "walk" /\ stack = <<>>
  /\ pc' = "done"
  /\ UNCHANGED <<w, root, win, dfs, follow, stack, queue, visited, vdirs, entered, out>>

Next == Start \/ PickEntry \/ EndOfDir \/ Dequeue \/ Finish
Spec == Init /\ [][Next]_vars /\ WF_vars(Next)

-----------------------------------------------------------------------------
(* Mech => Prop (C18) *)
Range(s) == { s[i] : i \in 1 .. Len(s) }
NeverTwice == \A i, j \in 1 .. Len(out) : i # j => out[i] # out[j]
EnteredOnce == \A i, j \in 1 .. Len(entered) : i # j => entered[i] # entered[j]
Unrestricted == win = <<0, 0>>
OnlyBehind == Range(out) \subseteq (IF follow THEN Behind(w, root) ELSE Listed(w, root, 0, 0))
ExactAtEnd == (pc = "done" /\ Unrestricted) => Range(out) = (IF follow THEN Behind(w, root) ELSE Listed(w, root, 0, 0))
(* without the option the window is Walker's: C01 *)
PlainAtEnd == (pc = "done" /\ ~follow) => Range(out) = Listed(w, root, win[1], win[2])
(* with the option and a window: every entry that each route reaches inside the window is listed, and nothing is listed that no route reaches inside it *)
WindowAtEnd == (pc = "done" /\ follow) =>
   /\ { n \in Behind(w, root) : DueInWindow(w, root, n, win[1], win[2], 8) } \subseteq Range(out)
   /\ Range(out) \subseteq { n \in Behind(w, root) : AdmissibleInWindow(w, root, n, win[1], win[2], 8) }
(* with the option and only a lower bound, every reachable directory is entered *)
EnteredAtEnd == (pc = "done" /\ follow /\ win[2] = 0) => Range(entered) = Reachable(w, root)
QueueOnlyInBfs == dfs => queue = <<>>
Terminates == <>(pc = "done")
(* vacuity guard, expected to FAIL: a link back to the root is accepted for a descent (and its activation then refused) *)
NoLinkToRootTaken == ~(pc = "done" /\ follow /\ \E e \in visited \ {root} : Kind(w, e) = "symlink" /\ Res(e) = root)
=============================================================================
