SPECIFICATION TSpec
CONSTANTS
  MaxEntries = 0
  Limits = {}
INVARIANT TraceInv
CHECK_DEADLOCK FALSE
