----------------------------- MODULE Judge_C19 ------------------------------
(* Binding layer, trace judge for C19.                                       *)
(*  members: rows(archives) = rows(no archives) + exactly one row per member *)
(*           of every readable archive with a configured extension, showing  *)
(*           `[archive path] member`, the uncompressed size, the directory   *)
(*           flag, the stored mode and the stored timestamp.                 *)
(*  query:   WHERE / ORDER BY / LIMIT treat member rows like ordinary rows:  *)
(*           the result is judged against the unrestricted archive listing.  *)
(*  corrupt: every ordinary row is present once, whatever else is printed    *)
(*           belongs to the damaged archive, status 0 or 1, no crash.        *)
EXTENDS Eval, TLC, Json, IOUtils

Rec == ndJsonDeserialize(IOEnv.OBS)
VARIABLE l

Stamp(d) == Pad4(d[1]) \o "-" \o Pad2(d[2]) \o "-" \o Pad2(d[3]) \o " " \o Pad2(d[4]) \o ":" \o Pad2(d[5]) \o ":" \o Pad2(d[6])
BoolText(b) == IF b THEN "true" ELSE "false"
Count(s, x) == Cardinality({ i \in 1 .. Len(s) : s[i] = x })
Range(s) == { s[i] : i \in 1 .. Len(s) }

Visible(w, d, mn) == { n \in NodeIds(w) : (d = 0 \/ LevelBelow(w, 0, n) <= d) /\ (mn = 0 \/ LevelBelow(w, 0, n) >= mn) }
(* (a stored mode without type bits is shown like a plain file's) *)
MemberMode(mode) == IF TypeNibble(mode) = 0 THEN <<"-">> \o Tail(ModeChars(mode)) ELSE ModeChars(mode)
MemberRows(w, d, mn) == UNION { { << "[./" \o RelPath(w, z) \o "] " \o w.nodes[z].zip[k].name, ToString(ContentLen(w.nodes[z].zip[k].content)),
                              BoolText(w.nodes[z].zip[k].isdir), Str(MemberMode(w.nodes[z].zip[k].mode)), Stamp(w.nodes[z].zip[k].dos),
                              BoolText(Bit(w.nodes[z].zip[k].mode, 2048)), BoolText(Bit(w.nodes[z].zip[k].mode, 1024)) >>
                            : k \in 1 .. Len(w.nodes[z].zip) }
                          : z \in { n \in Visible(w, d, mn) : w.nodes[n].iszip } }

Why(r) ==
  LET w == r.world  a == r.obs.arc  p == r.obs.plain IN
  IF a.timed_out \/ p.timed_out THEN "timeout" ELSE IF a.panic THEN "crash"
  ELSE IF r.kind = "members" THEN
     LET want == MemberRows(w, r.variant.depth, r.variant.mind)
         vis == Visible(w, r.variant.depth, r.variant.mind)
         extra == { a.rows[i] : i \in { j \in 1 .. Len(a.rows) : Count(p.rows, a.rows[j]) = 0 } } IN
     IF a.status # 0 THEN "status-" \o ToString(a.status)
     ELSE IF { p.rows[i][1] : i \in 1 .. Len(p.rows) } # { "./" \o RelPath(w, n) : n \in vis } \/ Len(p.rows) # Cardinality(vis) THEN "plain-run-wrong"
     ELSE IF \E x \in Range(p.rows) : Count(a.rows, x) # Count(p.rows, x) THEN "ordinary-rows-changed"
     ELSE IF want \ extra # {} THEN (IF \E x \in want \ extra : \E y \in extra : y[1] = x[1] THEN "wrong-member-columns" ELSE "member-missing")
     ELSE IF extra \ want # {} THEN "unexpected-member-row"
     ELSE IF Len(a.rows) # Len(p.rows) + Cardinality(want) THEN "member-listed-twice"
     ELSE "ok"
  ELSE IF r.kind = "query" THEN
     \* p = the unrestricted listing with archives (path, size); a = the same with WHERE / ORDER BY / LIMIT
     LET v == r.variant
         cand == IF v.wh THEN { x \in Range(p.rows) : x[2] \notin { <<"0">>, <<"1">>, <<"2">>, <<"3">>, <<"4">> } } ELSE Range(p.rows)
         M == Cardinality(cand)
         want == IF v.lim = 0 \/ v.lim > M THEN M ELSE v.lim
     IN IF a.status # 0 THEN "status-" \o ToString(a.status)
        ELSE IF Cardinality(Range(p.rows)) # Len(p.rows) THEN "listing-has-duplicates"
        ELSE IF Range(a.rows) \ cand # {} THEN "row-not-in-filtered-listing"
        ELSE IF Cardinality(Range(a.rows)) # Len(a.rows) THEN "duplicate-row"
        ELSE IF Len(a.rows) # want THEN (IF Len(a.rows) < want THEN "too-few-rows" ELSE "too-many-rows")
        ELSE "ok"           \* (order and top-N by size are judged numerically below, in SizeOrder)
  ELSE
     LET ord == { <<".", "/">> \o <<"a", ".", "t", "x", "t">>, <<".", "/", "b", ".", "t", "x", "t">>, <<".", "/", "c", ".", "z", "i", "p">>,
                  <<".", "/", "z", "z">>, <<".", "/", "z", "z", "/", "a", "f", "t", "e", "r", ".", "t", "x", "t">> }
         rows == [i \in 1 .. Len(a.rows) |-> a.rows[i][1]]
         pre == <<"[", ".", "/", "c", ".", "z", "i", "p", "]", " ">>
     IN IF a.status \notin {0, 1} THEN "status-" \o ToString(a.status)
        ELSE IF \E x \in ord : Count(rows, x) # 1 THEN "ordinary-row-lost-or-repeated"
        ELSE IF \E i \in 1 .. Len(rows) : rows[i] \notin ord /\ ~IsPrefixC(pre, rows[i]) THEN "foreign-row"
        ELSE "ok"

(* numeric order / top-N for the query kind, with sizes as digit strings compared by (length, text) *)
SizeLeq(x, y) == Len(x) < Len(y) \/ (Len(x) = Len(y) /\ LexLeq(x, y))
QueryOrderWhy(r) ==
  LET v == r.variant  a == r.obs.arc  p == r.obs.plain
      sz(row) == row[2]
      cand == IF v.wh THEN { x \in Range(p.rows) : x[2] \notin { <<"0">>, <<"1">>, <<"2">>, <<"3">>, <<"4">> } } ELSE Range(p.rows)
      Leq(x, y) == IF v.ord = "size+" THEN SizeLeq(sz(x), sz(y)) ELSE SizeLeq(sz(y), sz(x))
  IN IF v.ord = "none" THEN "ok"
     ELSE IF \E i \in 1 .. Len(a.rows) - 1 : ~Leq(a.rows[i], a.rows[i + 1]) THEN "not-sorted"
     ELSE IF \E x \in Range(a.rows), z \in cand \ Range(a.rows) : ~Leq(x, z) THEN "not-the-top-n"
     ELSE "ok"

Verdict(r) ==
  LET y0 == Why(r)
      y == IF y0 = "ok" /\ r.kind = "query" THEN QueryOrderWhy(r) ELSE y0
  IN [id |-> r.id, ok |-> (y = "ok"), class |-> r.class, why |-> y, key |-> "C19/" \o r.class \o "/" \o y,
      nontrivial |-> (Len(r.obs.arc.rows) > Len(r.world.nodes) \/ r.kind # "members")]

Init == l = 1
Next == /\ l <= Len(Rec)
        /\ PrintT(<<"VERDICT", ToJson(Verdict(Rec[l]))>>)
        /\ l' = l + 1
Spec == Init /\ [][Next]_l
Judged == PrintT(<<"JUDGED", ToJson([n |-> TLCGet("stats").diameter - 1])>>)
=============================================================================
