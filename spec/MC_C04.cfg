SPECIFICATION Spec
CONSTANTS
  PermStep = 1
  CapSet = {0, 7, 21, 31, 32, 40}
INVARIANTS EmitWorld Emit
