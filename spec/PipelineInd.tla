---------------------------- MODULE PipelineInd ----------------------------
(* Typed, count-level abstraction of Pipeline.tla for Apalache: the output   *)
(* is abstracted to (rows written, separators written, header, footer) and   *)
(* the walk to the number of entries still to be offered.  IndInv is an      *)
(* inductive invariant for unbounded numbers of entries and limits:          *)
(* separators = max(rows - 1, 0), no work after the limit, kept <= limit.    *)
(* Pipeline.tla refines this module (TLC checks Pipeline!RefinesInd), so the *)
(* unbounded result carries over to the token-level model that the recorded  *)
(* runs of the real code are validated against.                              *)
EXTENDS Integers

VARIABLES
  \* @type: Str;
  mode,
  \* @type: Int;
  limit,
  \* @type: Int;
  remaining,
  \* @type: Int;
  found,
  \* @type: Int;
  kept,
  \* @type: Int;
  raw,
  \* @type: Int;
  todo,
  \* @type: Int;
  rows,
  \* @type: Int;
  seps,
  \* @type: Bool;
  header,
  \* @type: Bool;
  footer,
  \* @type: Str;
  pc

vars == <<mode, limit, remaining, found, kept, raw, todo, rows, seps, header, footer, pc>>
Modes == {"stream", "ordered", "agg", "group"}
Buffered == mode # "stream"
Min(a, b) == IF a < b THEN a ELSE b
LimitReached == ~Buffered /\ limit > 0 /\ limit <= found
WalkOver == remaining = 0 \/ LimitReached

Init == /\ mode \in Modes /\ limit \in Nat /\ remaining \in Nat
        /\ found = 0 /\ kept = 0 /\ raw = 0 /\ todo = -1 /\ rows = 0 /\ seps = 0 /\ header = FALSE /\ footer = FALSE /\ pc = "init"

Header == /\ pc = "init" /\ header' = TRUE /\ pc' = "run"
          /\ UNCHANGED <<mode, limit, remaining, found, kept, raw, todo, rows, seps, footer>>
OfferNo == /\ pc = "run" /\ ~WalkOver /\ todo = -1 /\ remaining' = remaining - 1
           /\ UNCHANGED <<mode, limit, found, kept, raw, todo, rows, seps, header, footer, pc>>
OfferYes == /\ pc = "run" /\ ~WalkOver /\ todo = -1 /\ remaining' = remaining - 1 /\ found' = found + 1
            /\ IF ~Buffered
               THEN /\ rows' = rows + 1 /\ seps' = (IF found + 1 > 1 THEN seps + 1 ELSE seps) /\ UNCHANGED <<kept, raw>>
               ELSE /\ kept' = (IF limit = 0 THEN kept + 1 ELSE Min(kept + 1, limit))
                    /\ raw' = (IF mode \in {"agg", "group"} THEN raw + 1 ELSE raw)
                    /\ UNCHANGED <<rows, seps>>
            /\ UNCHANGED <<mode, limit, todo, header, footer, pc>>
Plan == /\ pc = "run" /\ WalkOver /\ todo = -1
        /\ \E parts \in 0 .. raw :
             /\ (IF raw = 0 THEN parts = 0 ELSE parts >= 1)
             /\ todo' = (IF mode = "stream" THEN 0 ELSE IF mode = "ordered" THEN kept ELSE IF mode = "agg" THEN 1
                         ELSE (IF limit = 0 THEN parts ELSE Min(parts, limit)))
        /\ pc' = "compute"
        /\ UNCHANGED <<mode, limit, remaining, found, kept, raw, rows, seps, header, footer>>
WriteRow == /\ pc = "compute" /\ todo > 0
            /\ rows' = rows + 1 /\ seps' = (IF rows = 0 THEN seps ELSE seps + 1) /\ todo' = todo - 1
            /\ UNCHANGED <<mode, limit, remaining, found, kept, raw, header, footer, pc>>
Footer == /\ pc = "compute" /\ todo = 0 /\ footer' = TRUE /\ pc' = "done"
          /\ UNCHANGED <<mode, limit, remaining, found, kept, raw, todo, rows, seps, header>>
Stutter == pc = "done" /\ UNCHANGED <<mode, limit, remaining, found, kept, raw, todo, rows, seps, header, footer, pc>>
Next == Header \/ OfferNo \/ OfferYes \/ Plan \/ WriteRow \/ Footer \/ Stutter

TypeOK == /\ mode \in Modes /\ limit \in Nat /\ remaining \in Nat /\ found \in Nat /\ kept \in Nat /\ raw \in Nat
          /\ todo \in Int /\ todo >= -1 /\ rows \in Nat /\ seps \in Nat /\ header \in BOOLEAN /\ footer \in BOOLEAN
          /\ pc \in {"init", "run", "compute", "done"}
(* the inductive invariant *)
IndInv ==
  /\ TypeOK
  /\ seps = (IF rows = 0 THEN 0 ELSE rows - 1)                              \* one separator between neighbouring rows
  /\ (header <=> pc # "init") /\ (footer <=> pc = "done")
  /\ (pc = "init" => rows = 0 /\ found = 0 /\ kept = 0 /\ raw = 0 /\ todo = -1)
  /\ (pc = "run" <=> (todo = -1 /\ pc # "init"))
  /\ (pc = "done" => todo = 0)
  /\ (mode = "stream" => rows = found /\ kept = 0 /\ raw = 0)
  /\ (mode = "stream" /\ pc \in {"compute", "done"} => todo = 0)
  /\ (pc \in {"compute", "done"} => todo >= 0)
  /\ (mode = "stream" /\ limit > 0 => found <= limit)                       \* no work after the limit
  /\ (mode # "stream" /\ pc \in {"init", "run"} => rows = 0)
  /\ (mode # "stream" => kept = (IF limit = 0 THEN found ELSE Min(found, limit)))
  /\ (mode \in {"agg", "group"} => raw = found) /\ (mode \in {"stream", "ordered"} => raw = 0)
  /\ (mode = "ordered" /\ pc \in {"compute", "done"} => rows + todo = kept)
  /\ (mode = "agg" /\ pc \in {"compute", "done"} => rows + todo = 1)
  /\ (mode = "group" /\ pc \in {"compute", "done"} => rows + todo <= found /\ (limit > 0 => rows + todo <= limit) /\ (found > 0 => rows + todo >= 1))
(* what the users rely on, implied by IndInv *)
Safety ==
  /\ (pc = "done" /\ mode \in {"stream", "ordered"} => rows = (IF limit = 0 THEN found ELSE Min(found, limit)))
  /\ (pc = "done" /\ mode = "agg" => rows = 1)
  /\ seps = (IF rows = 0 THEN 0 ELSE rows - 1)
=============================================================================
