------------------------------- MODULE MC_C20g ------------------------------
(* Binding layer, scenario generator for C20: several git repositories below *)
(* a search root that is not in a repository itself.  Every entry is judged  *)
(* by the rules of the repository it lies in (git's own verdict, recorded by *)
(* the driver with `git check-ignore` in that repository); what lies in no   *)
(* repository is never ignored.  The repositories have different rules, so   *)
(* rules carried over from one to the next show.                             *)
EXTENDS Integers, Sequences, TLC, Json

VARIABLES order, spell, mode, phase
vars == <<order, spell, mode, phase>>

Fl(i, p, nm, c) == [id |-> i, parent |-> p, kind |-> "file", name |-> nm, content |-> c]
Dr(i, p, nm) == [id |-> i, parent |-> p, kind |-> "dir", name |-> nm, content |-> ""]
(* order: which repository's name sorts first (the directory listing order is the file system's, not ours: both namings) *)
N1 == IF order = 1 THEN "alpha" ELSE "omega"
N2 == IF order = 1 THEN "omega" ELSE "alpha"
W == [gitinit |-> FALSE, gitrepos |-> <<1, 6>>,
      nodes |-> << Dr(1, 0, N1), Fl(2, 1, ".gitignore", "*.log\n"), Fl(3, 1, "a.log", "x"), Fl(4, 1, "keep.tmp", "x"), Dr(5, 1, "sub"),
                   Dr(6, 0, N2), Fl(7, 6, ".gitignore", "*.tmp\nout/\n"), Fl(8, 6, "b.log", "x"), Fl(9, 6, "b.tmp", "x"), Dr(10, 6, "out"), Fl(11, 10, "o.txt", "x"),
                   Dr(12, 0, "plain"), Fl(13, 12, "c.log", "x"), Fl(14, 12, "c.tmp", "x"), Fl(15, 5, "d.log", "x"), Fl(16, 5, "d.tmp", "x"),
                   Dr(17, 12, "nested"), Fl(18, 17, ".gitignore", "c.*\n"), Fl(19, 17, "c.txt", "x"), Fl(20, 0, "top.log", "x") >>]
(* (plain/nested holds a .gitignore but is no repository: its rules are nobody's) *)

Init == order = 0 /\ spell = "" /\ mode = "" /\ phase = "start"
Choose == /\ phase = "start" /\ order' \in {1, 2} /\ spell' \in {"dot", "abs"} /\ mode' \in {"", " bfs", " dfs"} /\ phase' = "done"
Spec == Init /\ [][Choose]_vars

Query == "select inode, path from " \o (IF spell = "dot" THEN "'.'" ELSE "'@ROOT@'") \o " gitignore" \o mode
         \o " where name != '.git' and path not like '%/.git/%' into list"
Scenario == [prop |-> "C20", class |-> "git/several-repositories/" \o spell \o (IF mode = "" THEN "" ELSE "/" \o mode), world |-> W, tool |-> "git",
             lines |-> <<>>, active |-> TRUE, root |-> 0, ctxs |-> <<>>,
             env |-> [tz |-> "UTC", cwd |-> 0, config |-> [debug |-> FALSE, gitignore |-> FALSE, hgignore |-> FALSE, dockerignore |-> FALSE]],
             runs |-> << [tag |-> "q", ncols |-> 2, argv |-> << Query >>] >>]
Emit == phase = "done" => PrintT(<<"REPLAY", ToJson(Scenario)>>)
=============================================================================
