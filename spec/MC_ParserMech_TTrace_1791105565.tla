---- MODULE MC_ParserMech_TTrace_1791105565 ----
EXTENDS Sequences, TLCExt, Toolbox, Naturals, TLC, MC_ParserMech

_expression ==
    LET MC_ParserMech_TEExpression == INSTANCE MC_ParserMech_TEExpression
    IN MC_ParserMech_TEExpression!expression
----

_trace ==
    LET MC_ParserMech_TETrace == INSTANCE MC_ParserMech_TETrace
    IN MC_ParserMech_TETrace!trace
----

_inv ==
    ~(
        TLCGet("level") = Len(_TETrace)
        /\
        ops = (0)
        /\
        tab = (1)
        /\
        toks = (<<"A">>)
        /\
        open = (0)
    )
----

_init ==
    /\ tab = _TETrace[1].tab
    /\ toks = _TETrace[1].toks
    /\ open = _TETrace[1].open
    /\ ops = _TETrace[1].ops
----

_next ==
    /\ \E i,j \in DOMAIN _TETrace:
        /\ \/ /\ j = i + 1
              /\ i = TLCGet("level")
        /\ tab  = _TETrace[i].tab
        /\ tab' = _TETrace[j].tab
        /\ toks  = _TETrace[i].toks
        /\ toks' = _TETrace[j].toks
        /\ open  = _TETrace[i].open
        /\ open' = _TETrace[j].open
        /\ ops  = _TETrace[i].ops
        /\ ops' = _TETrace[j].ops

\* Uncomment the ASSUME below to write the states of the error trace
\* to the given file in Json format. Note that you can pass any tuple
\* to `JsonSerialize`. For example, a sub-sequence of _TETrace.
    \* ASSUME
    \*     LET J == INSTANCE Json
    \*         IN J!JsonSerialize("MC_ParserMech_TTrace_1791105565.json", _TETrace)

=============================================================================

 Note that you can extract this module `MC_ParserMech_TEExpression`
  to a dedicated file to reuse `expression` (the module in the 
  dedicated `MC_ParserMech_TEExpression.tla` file takes precedence 
  over the module `MC_ParserMech_TEExpression` below).

---- MODULE MC_ParserMech_TEExpression ----
EXTENDS Sequences, TLCExt, Toolbox, Naturals, TLC, MC_ParserMech

expression == 
    [
        \* To hide variables of the `MC_ParserMech` spec from the error trace,
        \* remove the variables below.  The trace will be written in the order
        \* of the fields of this record.
        tab |-> tab
        ,toks |-> toks
        ,open |-> open
        ,ops |-> ops
        
        \* Put additional constant-, state-, and action-level expressions here:
        \* ,_stateNumber |-> _TEPosition
        \* ,_tabUnchanged |-> tab = tab'
        
        \* Format the `tab` variable as Json value.
        \* ,_tabJson |->
        \*     LET J == INSTANCE Json
        \*     IN J!ToJson(tab)
        
        \* Lastly, you may build expressions over arbitrary sets of states by
        \* leveraging the _TETrace operator.  For example, this is how to
        \* count the number of times a spec variable changed up to the current
        \* state in the trace.
        \* ,_tabModCount |->
        \*     LET F[s \in DOMAIN _TETrace] ==
        \*         IF s = 1 THEN 0
        \*         ELSE IF _TETrace[s].tab # _TETrace[s-1].tab
        \*             THEN 1 + F[s-1] ELSE F[s-1]
        \*     IN F[_TEPosition - 1]
    ]

=============================================================================



Parsing and semantic processing can take forever if the trace below is long.
 In this case, it is advised to uncomment the module below to deserialize the
 trace from a generated binary file.

\*
\*---- MODULE MC_ParserMech_TETrace ----
\*EXTENDS IOUtils, TLC, MC_ParserMech
\*
\*trace == IODeserialize("MC_ParserMech_TTrace_1791105565.bin", TRUE)
\*
\*=============================================================================
\*

---- MODULE MC_ParserMech_TETrace ----
EXTENDS TLC, MC_ParserMech

trace == 
    <<
    ([ops |-> 0,tab |-> 1,toks |-> <<>>,open |-> 1]),
    ([ops |-> 0,tab |-> 1,toks |-> <<"A">>,open |-> 0])
    >>
----


=============================================================================

---- CONFIG MC_ParserMech_TTrace_1791105565 ----
CONSTANTS
    MaxOps = 1
    Tables = { 1 , 2 , 3 }
    KnownWords <- MCKnown

INVARIANT
    _inv

CHECK_DEADLOCK
    \* CHECK_DEADLOCK off because of PROPERTY or INVARIANT above.
    FALSE

INIT
    _init

NEXT
    _next

CONSTANT
    _TETrace <- _trace

ALIAS
    _expression
=============================================================================
\* Generated on Sun Oct 04 09:19:27 UTC 2026