----------------------------- MODULE WorldC02 -------------------------------
(* The world family used by C02/C03/C15: one tree whose entries realise the  *)
(* attribute values the generated literals are drawn from, and their         *)
(* neighbours (sizes 0,9,10,11,1023,1024,1025; 0..3 newlines; owners 0,      *)
(* 1000, 2000; link counts 1,2; modes with/without each class; mtimes on     *)
(* both edges of the day/hour/minute/second intervals of the date literals). *)
EXTENDS Chars, Integers

T0 == 1493596800      \* 2017-05-01 00:00:00 UTC

Runs(xs, nl) == IF nl = 0 THEN << [byte |-> 120, count |-> xs] >>
                ELSE IF xs = 0 THEN << [byte |-> 10, count |-> nl] >>
                ELSE << [byte |-> 120, count |-> xs], [byte |-> 10, count |-> nl] >>

(* sub-second parts of some modification times: an entry time is the second it falls in *)
Ms(i) == CASE i = 5 -> 500 [] i = 8 -> 250 [] i = 11 -> 750 [] i = 14 -> 999 [] OTHER -> 0
N(i, p, k, nm, cont, md, u, g, mt, lt, tgt) ==
  [id |-> i, parent |-> p, kind |-> k, namec |-> nm, name |-> Str(nm), content |-> cont, mode |-> md,
   uid |-> u, gid |-> g, mtime |-> mt, mtime_ms |-> Ms(i), linkto |-> lt, target |-> tgt, tstyle |-> "rel"]

W2 == [nodes |-> <<
  N(1,  0, "dir",     <<"s","u","b">>,                 <<>>,           493, 0,    0,    T0 - 1,      0, -3),
  N(2,  0, "file",    <<"a",".","t","x","t">>,         <<>>,           420, 0,    0,    T0,          0, -3),
  N(3,  0, "file",    <<"b",".","t","x","t">>,         Runs(7, 2),     384, 1000, 1000, T0 + 1,      0, -3),
  N(4,  0, "file",    <<"c",".","l","o","g">>,         Runs(7, 3),     493, 0,    1000, T0 + 53999,  0, -3),
  N(5,  0, "file",    <<"d",".","l","o","g">>,         Runs(11, 0),    2541, 1000, 0,   T0 + 54000,  0, -3),
  N(6,  0, "file",    <<"s","i","z","e">>,             Runs(1023, 1),  416, 0,    2000, T0 + 54001,  0, -3),
  N(7,  0, "file",    <<"b","i","n">>,                 Runs(1023, 0),  420, 0,    0,    T0 + 54059,  0, -3),
  N(8,  0, "file",    <<"e",".","b","i","n">>,         Runs(1025, 0),  420, 0,    0,    T0 + 54060,  0, -3),
  N(9,  0, "file",    <<".","h","i","d">>,             Runs(99, 1),    420, 0,    0,    T0 + 57599,  0, -3),
  N(10, 0, "symlink", <<"l","n","k">>,                 <<>>,           511, 0,    0,    T0 + 57600,  0, 2),
  N(11, 1, "file",    <<"d","e","e","p",".","t","x","t">>, Runs(2044, 4), 292, 0, 0,    T0 + 86399,  0, -3),
  N(12, 0, "dir",     <<"e","m","p","t","y","d">>,     <<>>,           448, 0,    0,    T0 + 86400,  0, -3),
  N(13, 0, "file",    <<"n","a","m","e">>,             Runs(4, 1),     1517, 0,   0,    T0 + 86401,  0, -3),
  N(14, 1, "file",    <<"e","2",".","b","i","n">>,     Runs(1025, 0),  420, 0,    0,    T0 + 54060,  8, -3)
>>]
=============================================================================
