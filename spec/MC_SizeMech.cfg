SPECIFICATION Spec
CONSTANTS
  FmtPrecisions = {9}
  FmtUnits = {""}
INVARIANTS LitAgrees
CHECK_DEADLOCK FALSE
