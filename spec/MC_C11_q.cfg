SPECIFICATION Spec
CONSTANTS
  PartialSplits = FALSE
INVARIANTS EmitWorld Emit
