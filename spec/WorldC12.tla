----------------------------- MODULE WorldC12 -------------------------------
(* World for C12: one directory holding a file for every name of length 1..2 *)
(* over an alphabet with both letter cases, a digit, space and every regex   *)
(* metacharacter that can occur in a file name, and a line feed (`.` of a     *)
(* regular expression does not match it unless told to).                    *)
EXTENDS Chars, Integers

Alpha == <<"a", "B", "1", " ", ".", "+", "(", ")", "[", "]", "{", "}", "|", "^", "$", "-", ",", "'", "#", "~", "\n">>
NA == Len(Alpha)
NameAt(i) == IF i <= NA THEN (IF Alpha[i] = "." THEN <<"a", "a", "a">> ELSE <<Alpha[i]>>)
             ELSE LET x == Alpha[(i - NA - 1) \div NA + 1]  y == Alpha[((i - NA - 1) % NA) + 1]
                  IN IF x = "." /\ y = "." THEN <<"a", ".", "B">> ELSE <<x, y>>
(* two long names (80 and 81 characters) for patterns with many one-character wildcards *)
LongName(n) == [i \in 1 .. n |-> IF i = n THEN "B" ELSE "a"]
NShort == NA + NA * NA
NFiles == NShort + 2
W12 == [nodes |-> [i \in 1 .. NFiles |-> IF i > NShort THEN [id |-> i, parent |-> 0, kind |-> "file", namec |-> LongName(79 + i - NShort), name |-> Str(LongName(79 + i - NShort))] ELSE [id |-> i, parent |-> 0, kind |-> "file", namec |-> NameAt(i), name |-> Str(NameAt(i))]]]
=============================================================================
