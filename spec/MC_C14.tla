------------------------------- MODULE MC_C14 -------------------------------
(* Binding layer, scenario generator (and world) for C14.                    *)
(*  kind "lit": size OP <number><unit> for every unit spelling in every      *)
(*     letter case, numbers 1, 2, 1.5, 0.5, six operators; the world holds   *)
(*     sparse files of multiplier*n - 1, multiplier*n, multiplier*n + 1.     *)
(*  kind "fmt": FORMAT_SIZE(size, spec) for specifiers from the documented   *)
(*     grammar over a logarithmic size grid with +-1 neighbours; one run per *)
(*     size so that monotonicity can be judged across the grid.              *)
EXTENDS BigNat, Chars, Json, FiniteSets

CONSTANTS FmtPrecisions, FmtUnits

(* the documented unit table: name |-> <<base, exponent>> *)
Unit(u) == CASE u \in {"", "b"} -> <<1000, 0>> [] u \in {"k", "kib"} -> <<1024, 1>> [] u = "kb" -> <<1000, 1>>
             [] u \in {"m", "mib"} -> <<1024, 2>> [] u = "mb" -> <<1000, 2>> [] u \in {"g", "gib"} -> <<1024, 3>>
             [] u = "gb" -> <<1000, 3>> [] u \in {"t", "tib"} -> <<1024, 4>> [] u = "tb" -> <<1000, 4>>
Mult(u) == Pow(Unit(u)[1], Unit(u)[2])
Units == {"", "b", "k", "kb", "kib", "m", "mb", "mib", "g", "gb", "gib", "t", "tb", "tib"}
Numbers == { [txt |-> "1", num |-> 1, den |-> 1], [txt |-> "2", num |-> 2, den |-> 1],
             [txt |-> "1.5", num |-> 3, den |-> 2], [txt |-> "0.5", num |-> 1, den |-> 2],
             [txt |-> ".5", num |-> 1, den |-> 2], [txt |-> "1.50", num |-> 3, den |-> 2],       \* (other spellings of the same fractions)
             [txt |-> "2.0", num |-> 2, den |-> 1],
             [txt |-> "1.005", num |-> 201, den |-> 200], [txt |-> "2.675", num |-> 107, den |-> 40] }   \* (decimal fractions that binary floating point cannot hold exactly; with the decimal units the value is whole)                                              \* (a whole number written with a fraction: any unit, also `b` and none)
(* fractional numbers only with units whose multiplier is even; `b`/none take whole numbers *)
ValueOf(u, n) == DivSmall(MulSmall(Mult(u), n.num), n.den)
Allowed(u, n) == n.den = 1 \/ (n.den = 2 /\ Unit(u)[2] > 0) \/ (n.den > 2 /\ u \in {"kb", "mb", "gb", "tb"})

(* every letter-case variant of a unit, as strings *)
RECURSIVE CaseVariants(_)
CaseVariants(cs) == IF cs = <<>> THEN {""}
                    ELSE { x \o y : x \in {cs[1], ToUpperC(cs[1])}, y \in CaseVariants(Tail(cs)) }
UnitChars(u) == CASE u = "" -> <<>> [] u = "b" -> <<"b">> [] u = "k" -> <<"k">> [] u = "kb" -> <<"k","b">> [] u = "kib" -> <<"k","i","b">>
                  [] u = "m" -> <<"m">> [] u = "mb" -> <<"m","b">> [] u = "mib" -> <<"m","i","b">> [] u = "g" -> <<"g">> [] u = "gb" -> <<"g","b">>
                  [] u = "gib" -> <<"g","i","b">> [] u = "t" -> <<"t">> [] u = "tb" -> <<"t","b">> [] u = "tib" -> <<"t","i","b">>

(* the world: files around every literal value *)
LitValues == UNION { { ValueOf(u, n) : n \in { x \in Numbers : Allowed(u, x) } } : u \in Units }
FileSizes == UNION { { Sub(v, <<1>>), v, Add(v, <<1>>) } : v \in { x \in LitValues : x # <<>> } }
RECURSIVE SortBig(_)
SortBig(S) == IF S = {} THEN <<>> ELSE LET m == CHOOSE x \in S : \A y \in S : Leq(x, y) IN <<m>> \o SortBig(S \ {m})
Sizes == SortBig(FileSizes)
W14 == [nodes |-> [i \in 1 .. Len(Sizes) |->
          [id |-> i, parent |-> 0, kind |-> "file", name |-> "s" \o DecStr(Sizes[i]), bigsize |-> DecStr(Sizes[i])]]]

(* formatting grid *)
GridBase == { <<1>>, Pow(10, 3), Pow(2, 10), <<1536>>, Pow(10, 6), Pow(2, 20), FromInt(1678123), Pow(10, 9), Pow(2, 30),
              Pow(10, 12), Pow(2, 40), Pow(2, 50), FromInt(999999), FromInt(123456789) }
FmtSizes == SortBig({ <<>> } \cup UNION { { Sub(v, <<1>>), v, Add(v, <<1>>) } : v \in GridBase })

VARIABLES kind, unit, spelled, number, op, spec, phase
vars == <<kind, unit, spelled, number, op, spec, phase>>
NoNum == [txt |-> "", num |-> 0, den |-> 1]
NoSpec == [prec |-> 9, space |-> FALSE, flags |-> "", unit |-> ""]
Init == kind = "" /\ unit = "" /\ spelled = "" /\ number = NoNum /\ op = "" /\ spec = NoSpec /\ phase = "start"
ChooseLit == /\ phase = "start" /\ kind' = "lit"
             /\ unit' \in Units /\ number' \in { x \in Numbers : Allowed(unit', x) }
             /\ spelled' \in CaseVariants(UnitChars(unit'))
             /\ op' \in {"eq", "ne", "gt", "gte", "lt", "lte"}
             /\ spec' = NoSpec /\ phase' = "done"
ChooseFmt == /\ phase = "start" /\ kind' = "fmt"
             /\ spec' \in { [prec |-> p, space |-> sp, flags |-> f, unit |-> u] :
                            p \in FmtPrecisions, sp \in BOOLEAN, f \in {"", "c", "d", "s", "cs", "ds"}, u \in FmtUnits }
             \* the conventional flag with a decimal unit name is not defined by the documentation
             /\ ~(spec'.flags \in {"c", "cs"} /\ spec'.unit \in {"kb", "mb", "gb", "tb"})
             /\ unit' = "" /\ spelled' = "" /\ number' = NoNum /\ op' = "" /\ phase' = "done"
Next == ChooseLit \/ ChooseFmt
Spec == Init /\ [][Next]_vars

OpText(o) == CASE o = "eq" -> "=" [] o = "ne" -> "!=" [] o = "gt" -> ">" [] o = "gte" -> ">=" [] o = "lt" -> "<" [] o = "lte" -> "<="
SpecText == (IF spec.prec # 9 THEN "%." \o ToString(spec.prec) ELSE "") \o (IF spec.space THEN " " ELSE "") \o spec.flags \o spec.unit
LitScenario ==
  [prop |-> "C14", kind |-> "lit", world |-> "W14", class |-> "literal/unit=" \o unit \o (IF number.den = 1 THEN (IF number.txt = "2.0" THEN "/whole-with-fraction" ELSE "") ELSE "/fraction"),
   op |-> op, val |-> ValueOf(unit, number), spec |-> NoSpec, sizes |-> <<>>,
   env |-> [tz |-> "UTC", cwd |-> 0],
   runs |-> << [tag |-> "r1", ncols |-> 1, chars |-> FALSE,
                argv |-> << "select name from '.' where size " \o OpText(op) \o " " \o number.txt \o spelled \o " into list" >>] >>]
FmtScenario ==
  [prop |-> "C14", kind |-> "fmt", world |-> "W14",
   class |-> "format/" \o (IF spec.unit = "" THEN "auto" ELSE "fixed") \o (IF spec.flags = "" THEN "" ELSE "/" \o spec.flags),
   op |-> "", val |-> <<>>, spec |-> spec, sizes |-> FmtSizes,
   env |-> [tz |-> "UTC", cwd |-> 0],
   runs |-> [i \in 1 .. Len(FmtSizes) |->
               [tag |-> "r" \o ToString(i), ncols |-> 1, chars |-> TRUE,
                argv |-> << "select format_size(" \o DecStr(FmtSizes[i]) \o
                            (IF SpecText = "" THEN "" ELSE ", '" \o SpecText \o "'") \o ") into list" >>]]]
EmitWorld == (phase = "start") => PrintT(<<"WORLD", ToJson([key |-> "W14", world |-> W14])>>)
Emit == phase = "done" => PrintT(<<"REPLAY", ToJson(IF kind = "lit" THEN LitScenario ELSE FmtScenario)>>)
=============================================================================
