SPECIFICATION Spec
CONSTANTS
  MaxLen = 4
  Symbols = {"FROM", "WHERE", "size", "ab", "12", "date", " ", ",", "(", "=", "-", "*", "ORDER", "gte", "line_count"}
  KnownWords <- MCKnown
INVARIANTS SplitInvariance NoFuelExhaustion
