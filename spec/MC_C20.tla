------------------------------- MODULE MC_C20 -------------------------------
(* Binding layer, scenario generator for C20 (ignore files).  State: the     *)
(* tool, an ignore file of up to MaxLines lines drawn from the pattern forms *)
(* of the quantifier, the root spelling (., relative, absolute, a            *)
(* sub-directory of the repository given from the repository or as `.` from  *)
(* inside it) and the way the filter is switched on (root option, config     *)
(* default, config default overridden by `no...`).                           *)
EXTENDS Chars, Integers, Sequences, TLC, Json, FiniteSets

CONSTANTS MaxLines, Tools

VARIABLES tool, lines, spell, act, phase
vars == <<tool, lines, spell, act, phase>>

Lit(s) == s         \* literal characters of a glob, one token each
NoRx == [els |-> <<>>, astart |-> FALSE, aend |-> FALSE]
G(cs, glob, neg) == [text |-> Str(cs), chars |-> cs, glob |-> glob, neg |-> neg, rx |-> NoRx, blank |-> FALSE, isrx |-> FALSE]
R(text, els, as, ae) == [text |-> text, chars |-> <<>>, glob |-> <<>>, neg |-> FALSE, rx |-> [els |-> els, astart |-> as, aend |-> ae], blank |-> FALSE, isrx |-> TRUE]
El(c) == [ch |-> c, q |-> "1"]
Forms == [
  lit     |-> G(<<"b", ".", "l", "o", "g">>, <<"b", ".", "l", "o", "g">>, FALSE),
  star    |-> G(<<"*", ".", "l", "o", "g">>, <<"*", ".", "l", "o", "g">>, FALSE),
  dir     |-> G(<<"b", "u", "i", "l", "d">>, <<"b", "u", "i", "l", "d">>, FALSE),
  dirstar |-> G(<<"s", "r", "c", "/", "*", ".", "l", "o", "g">>, <<"s", "r", "c", "/", "*", ".", "l", "o", "g">>, FALSE),
  deep    |-> G(<<"*", "*", "/", "o", ".", "l", "o", "g">>, <<"**", "/", "o", ".", "l", "o", "g">>, FALSE),
  one     |-> G(<<"?", ".", "l", "o", "g">>, <<"?", ".", "l", "o", "g">>, FALSE),
  nested  |-> G(<<"s", "r", "c", "/", "g", "e", "n">>, <<"s", "r", "c", "/", "g", "e", "n">>, FALSE),
  \* a directory pattern written with a trailing slash (for hg and docker the slash changes nothing; git: directories only - git is the oracle)
  dirslash |-> G(<<"b", "u", "i", "l", "d", "/">>, <<"b", "u", "i", "l", "d">>, FALSE),
  nestedslash |-> G(<<"s", "r", "c", "/", "g", "e", "n", "/">>, <<"s", "r", "c", "/", "g", "e", "n">>, FALSE),
  \* a pattern that names the search root itself when the root is `src` (the ignore file sits in an ancestor of the root)
  srcdir  |-> G(<<"s", "r", "c">>, <<"s", "r", "c">>, FALSE),
  \* `?` where a kept path has its directory separator: it must not match
  qslash  |-> G(<<"s", "r", "c", "?", "y", ".", "r", "s">>, <<"s", "r", "c", "?", "y", ".", "r", "s">>, FALSE),
  neg     |-> G(<<"!", "k", "e", "e", "p", ".", "l", "o", "g">>, <<"k", "e", "e", "p", ".", "l", "o", "g">>, TRUE),
  \* a negated literal name that itself contains an exclamation mark: only the leading one negates
  negbang |-> G(<<"!", "k", "!", "p", ".", "l", "o", "g">>, <<"k", "!", "p", ".", "l", "o", "g">>, TRUE),
  comment |-> [G(<<"#", " ", "*", ".", "r", "s">>, <<>>, FALSE) EXCEPT !.blank = TRUE],
  blank   |-> [G(<<>>, <<>>, FALSE) EXCEPT !.blank = TRUE],
  rxend   |-> R("\\.log$", <<El("."), El("l"), El("o"), El("g")>>, FALSE, TRUE),
  rxstart |-> R("^build", <<El("b"), El("u"), El("i"), El("l"), El("d")>>, TRUE, FALSE),
  rxmid   |-> R("gen/o", <<El("g"), El("e"), El("n"), El("/"), El("o")>>, FALSE, FALSE) ]
GlobForms == {"lit", "star", "dir", "dirstar", "deep", "one", "nested", "dirslash", "nestedslash", "srcdir", "qslash", "comment", "blank"}
FormsOf(t) == CASE t = "git" -> GlobForms \cup {"neg", "negbang"} [] t = "docker" -> GlobForms \cup {"neg", "negbang"}
                [] t = "hgglob" -> GlobForms [] t = "hgrx" -> {"rxend", "rxstart", "rxmid", "comment", "blank"}

Init == tool = "" /\ lines = <<>> /\ spell = "" /\ act = "" /\ phase = "start"
ChooseTool == /\ phase = "start" /\ tool' \in Tools /\ phase' = "lines" /\ UNCHANGED <<lines, spell, act>>
AddLine == /\ phase = "lines" /\ Len(lines) < MaxLines
           /\ \E f \in FormsOf(tool) : lines' = Append(lines, f)
           /\ UNCHANGED <<tool, spell, act, phase>>
Finish == /\ phase = "lines" /\ lines # <<>>
          \* (outer: the search root is the directory above the git repository - the repository is discovered on the way down)
          \* (meta: the directory that holds the ignore file has a name made of characters that are special in patterns)
          /\ spell' \in {"dot", "rel", "abs", "sub", "subdot", "gen", "gendot", "meta", "metaabs"} \cup (IF tool = "git" THEN {"outer"} ELSE {})
          /\ act' \in {"option", "config", "override"}
          \* the spelling and the activation are varied one at a time
          /\ (spell' = "dot" \/ act' = "option")
          /\ phase' = "done" /\ UNCHANGED <<tool, lines>>
Next == ChooseTool \/ AddLine \/ Finish
Spec == Init /\ [][Next]_vars

FileName == CASE tool = "git" -> ".gitignore" [] tool = "docker" -> ".dockerignore" [] OTHER -> ".hgignore"
RECURSIVE Body(_)
Body(i) == IF i > Len(lines) THEN "" ELSE Forms[lines[i]].text \o "\n" \o Body(i + 1)
Content == (IF tool = "hgglob" THEN "syntax: glob\n" ELSE "") \o Body(1)
Fl(i, p, nm) == [id |-> i, parent |-> p, kind |-> "file", name |-> nm, content |-> "x"]
Dr(i, p, nm) == [id |-> i, parent |-> p, kind |-> "dir", name |-> nm, content |-> ""]
W == [gitinit |-> (tool = "git"), rootname |-> (IF spell \in {"meta", "metaabs"} THEN "c++ (1).[x]" ELSE "r"),
      nodes |-> << Fl(1, 0, "a.txt"), Fl(2, 0, "b.log"), Fl(3, 0, "keep.log"), Dr(4, 0, "src"), Fl(5, 4, "y.rs"), Fl(6, 4, "z.log"), Dr(7, 4, "gen"),
                   Fl(8, 7, "o.log"), Dr(9, 0, "build"), Fl(10, 9, "out.bin"), Fl(11, 0, "ab.logx"), Fl(12, 0, "o.log"), Fl(13, 4, "b.log"),
                   [Fl(14, 0, FileName) EXCEPT !.content = Content], Fl(15, 0, "k!p.log"),
                   \* a second `src` deeper in the tree (patterns with an inner slash: rooted for git and docker, not for hg);
                   \* a name in which a pattern's dot would have to stand for another character
                   Dr(16, 0, "pkg"), Dr(17, 16, "src"), Fl(18, 17, "q.log"), Fl(19, 0, "catalog"), Fl(20, 4, "yxrs") >>
                \o (IF tool \in {"hgglob", "hgrx"} THEN << Dr(21, 0, ".hg") >> ELSE <<>>)]

OptWord == CASE tool = "git" -> "gitignore" [] tool = "docker" -> "dockerignore" [] OTHER -> "hgignore"
RootText == CASE spell = "dot" -> "'.'" [] spell = "meta" -> "'.'" [] spell = "metaabs" -> "'@ROOT@'" [] spell = "rel" -> "'r'" [] spell = "abs" -> "'@ROOT@'" [] spell = "sub" -> "'src'" [] spell = "subdot" -> "'.'"
              [] spell = "gen" -> "'src/gen'" [] spell = "gendot" -> "'.'" [] spell = "outer" -> "'.'"
OptText == CASE act = "option" -> " " \o OptWord [] act = "config" -> "" [] act = "override" -> " no" \o OptWord
Query == "select inode, path from " \o RootText \o OptText
         \o " where name != '.git' and path not like '%/.git/%' and name != '.hg'" \o (IF spell = "outer" THEN " and path like './r/%'" ELSE "") \o " into list"
Cfg == IF act = "option" THEN [debug |-> FALSE, gitignore |-> FALSE, hgignore |-> FALSE, dockerignore |-> FALSE]
       ELSE [debug |-> FALSE, gitignore |-> (tool = "git"), hgignore |-> (tool \in {"hgglob", "hgrx"}), dockerignore |-> (tool = "docker")]
RECURSIVE LinesClass(_)
LinesClass(i) == IF i > Len(lines) THEN "" ELSE (IF i > 1 THEN "+" ELSE "") \o lines[i] \o LinesClass(i + 1)
Scenario == [prop |-> "C20", class |-> tool \o "/" \o LinesClass(1) \o "/" \o spell \o "/" \o act, world |-> W, tool |-> tool,
             lines |-> [i \in 1 .. Len(lines) |-> Forms[lines[i]]], active |-> (act # "override"), ctxs |-> <<>>,
             root |-> IF spell \in {"sub", "subdot"} THEN 4 ELSE IF spell \in {"gen", "gendot"} THEN 7 ELSE 0,
             env |-> [tz |-> "UTC", cwd |-> (CASE spell \in {"rel", "outer"} -> -1 [] spell = "subdot" -> 4 [] spell = "gendot" -> 7 [] OTHER -> 0), config |-> Cfg],
             runs |-> << [tag |-> "q", ncols |-> 2, argv |-> << Query >>] >>]
Emit == phase = "done" => PrintT(<<"REPLAY", ToJson(Scenario)>>)
=============================================================================
