-------------------------- MODULE MC_ConformsMech2 --------------------------
(* Mech => Prop for single comparisons (C02): every atom `column OP literal` *)
(* of MC_C02 over the columns the mechanism models cover, rendered as        *)
(* characters (TextChars), lexed, parsed and evaluated by Lexer / Parser /   *)
(* Conforms on every entry of world W2x that is not a link, must get the     *)
(* truth value Eval!HoldsAtom gives - wherever Prop defines one and the      *)
(* mechanism model does not abstain.  One TLC state per atom.                *)
EXTENDS MC_C02, WorldRnd, Conforms, Eval, TextChars

MCKnown2 == { CharsOf(x) : x \in {"name", "size", "uid", "gid", "ext", "dir", "path", "mode", "modified", "hardlinks", "line_count", "is_dir",
                                  "is_file", "is_symlink", "is_hidden"} } \cup { <<"l","e","n","g","t","h">> }
Prefix2 == <<"s","e","l","e","c","t"," ","p","a","t","h"," ","f","r","o","m"," ","'",".","'"," ","w","h","e","r","e"," ">>
Covered2 == {"name", "size", "uid", "gid", "ext", "modified", "is_dir", "is_file", "is_hidden"}
IntChars(v) == IF v < 0 THEN <<"-">> \o DigitsOfNat(0 - v) ELSE DigitsOfNat(v)
Q(c) == <<"'">> \o c \o <<"'">>
LitC(l) == CASE l.lk = "int" -> (IF l.text \in KnownTexts THEN CharsOf(l.text) ELSE IntChars(l.v))
             [] l.lk \in {"dec", "bool", "date"} -> CharsOf(l.text)
             [] l.lk = "text" -> Q(l.c)
             [] l.lk = "rx" -> Q((IF l.astart THEN <<"^">> ELSE <<>>) \o l.c \o (IF l.aend THEN <<"$">> ELSE <<>>))
             [] l.lk = "col" -> CharsOf(l.name)
Sp == <<" ">>
AtomC2(a) == IF a.op = "istrue" THEN CharsOf(a.col)
             ELSE IF a.op = "between" THEN CharsOf(a.col) \o Sp \o CharsOf("between") \o Sp \o LitC(a.lit) \o Sp \o CharsOf("and") \o Sp \o LitC(a.lit2)
             ELSE CharsOf(a.col) \o Sp \o CharsOf(OpText(a.op)) \o Sp \o LitC(a.lit)
Usable(a) == "spell" \notin DOMAIN a /\ a.col \in Covered2 /\ a.op # "notbetween" /\ (a.lit.lk = "col" => a.lit.name \in Covered2)
             /\ (a.lit.lk \in {"dec", "bool", "date"} => a.lit.text \in KnownTexts \/ a.lit.text = "")
(* the character rendering is the string rendering (checked for the atom of every state) *)
SameText2 == (phase = "done" /\ Usable(atom)) => Str(AtomC2(atom)) = CondText(atom)

W == W2x
IsBig(n) == "bign" \in DOMAIN W.nodes[n]
SizeN(n) == IF IsBig(n) THEN W.nodes[n].bign ELSE SizeOfNode(W.nodes[n])
Plain == { n \in 1 .. Len(W.nodes) : W.nodes[n].kind \in {"file", "dir"} }
Snap == [n \in 1 .. Len(W.nodes) |->
   [mode |-> (IF W.nodes[n].kind = "dir" THEN 16384 ELSE 32768) + W.nodes[n].mode, sizen |-> SizeN(n),
    uidn |-> W.nodes[n].uid, gidn |-> W.nodes[n].gid, nlinkn |-> 1, mtime |-> W.nodes[n].mtime]]
Rec2 == [world |-> W, snapshot |-> Snap]
EntryOf2(n) == [name |-> W.nodes[n].namec, ext |-> ExtC(W.nodes[n].namec), size |-> SizeN(n), uid |-> W.nodes[n].uid, gid |-> W.nodes[n].gid,
                isdir |-> (W.nodes[n].kind = "dir"), isfile |-> (W.nodes[n].kind = "file"), mtime |-> W.nodes[n].mtime]
AtomAgrees == (phase = "done" /\ Usable(atom)) =>
   LET ast == ParseWhere(LexAll(<<Prefix2 \o AtomC2(atom)>>)) IN
   ast.ok /\ \A n \in Plain :
      \* (the size of a directory is the file system's business: not in the synthetic snapshot)
      (atom.col = "size" /\ W.nodes[n].kind = "dir") \/ (atom.lit.lk = "col" /\ atom.lit.name = "size" /\ W.nodes[n].kind = "dir") \/
      LET c == ConformsR(ast.e, EntryOf2(n))  p == HoldsAtom(Rec2, n, atom) IN (c.ok /\ p # "U") => (c.b <=> (p = "T"))
=============================================================================
