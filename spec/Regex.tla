------------------------------- MODULE Regex --------------------------------
(* Prop layer: a regular-expression subset with textbook semantics, used for *)
(* `=~` / `!=~` (C12) and for hgignore `syntax: regexp` (C20).  A pattern is *)
(* [els, astart, aend]: a sequence of elements [ch, q] (ch = a literal       *)
(* character or "ANY"; q \in {"1", "*", "+", "?"}) with optional ^ and $     *)
(* anchors.  Search semantics: the pattern matches somewhere in the subject. *)
EXTENDS Chars

(* `.` stands for any character except a line feed (the textbook default of regular expressions) *)
ElMatches(el, c) == (el.ch = "ANY" /\ c # "\n") \/ el.ch = "ANYLF" \/ el.ch = c          \* ANYLF: `.` under the `s` flag

RECURSIVE MatchHere(_, _)
MatchHere(els, s) ==        \* set of k such that els matches the prefix of length k of s
  IF els = <<>> THEN {0}
  ELSE LET el == els[1] rest == Tail(els) IN
       LET run == CHOOSE m \in 0 .. Len(s) : (\A i \in 1 .. m : ElMatches(el, s[i])) /\ (m = Len(s) \/ ~ElMatches(el, s[m + 1]))
           \* ({2}: a counted repetition, exactly twice)
           lo == IF el.q = "{2}" THEN 2 ELSE IF el.q \in {"1", "+"} THEN 1 ELSE 0
           hi == IF el.q = "{2}" THEN (IF run >= 2 THEN 2 ELSE 0) ELSE IF el.q \in {"1", "?"} THEN (IF run >= 1 THEN 1 ELSE 0) ELSE run
       IN UNION { { k + j : j \in MatchHere(rest, SubSeq(s, k + 1, Len(s))) } : k \in lo .. hi }

RxMatch(p, s) ==
  \E st \in (IF p.astart THEN {0} ELSE 0 .. Len(s)) :
     \E k \in MatchHere(p.els, SubSeq(s, st + 1, Len(s))) : (~p.aend) \/ st + k = Len(s)

Meta == {".", "+", "*", "?", "(", ")", "[", "]", "{", "}", "|", "^", "$", "\\", "-", "#", "~", " ", "&"}
ElText(el) == (IF el.ch = "ANY" THEN "." ELSE IF el.ch \in Meta THEN "\\" \o el.ch ELSE el.ch)
              \o (IF el.q = "1" THEN "" ELSE el.q)
RECURSIVE ElsText(_)
ElsText(els) == IF els = <<>> THEN "" ELSE ElText(els[1]) \o ElsText(Tail(els))
RxText(p) == (IF p.astart THEN "^" ELSE "") \o ElsText(p.els) \o (IF p.aend THEN "$" ELSE "")
=============================================================================
