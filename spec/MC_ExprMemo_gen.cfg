SPECIFICATION Spec
CONSTANTS
  KnownWords <- MCKnownA
INVARIANTS EmitWorld EmitKey
