----------------------------- MODULE Judge_C06 ------------------------------
(* Binding layer, trace judge for C06: with M = rows of the unlimited run,   *)
(* the limited run has min(N, M) rows (all M for N = 0); unordered they are  *)
(* a sub-multiset of the unlimited rows; ordered they are sorted and no      *)
(* excluded row sorts strictly before an included one (ties at the cut are   *)
(* free) - which is exactly "the key sequence equals the first N keys of     *)
(* the fully sorted unlimited result".                                       *)
EXTENDS Order, TLC, Json, IOUtils, FiniteSets

Rec == ndJsonDeserialize(IOEnv.OBS)
VARIABLE l

Count(s, x) == Cardinality({ i \in 1 .. Len(s) : s[i] = x })
Range(s) == { s[i] : i \in 1 .. Len(s) }
Min(a, b) == IF a < b THEN a ELSE b

(* archives: rows are names (characters); ordered by name asc / desc; judged as texts *)
TLeq(a, b, desc) == IF desc THEN LexLeq(b, a) ELSE LexLeq(a, b)
VerdictArch(r) ==
  LET all == [i \in 1 .. Len(r.obs.all.rows) |-> r.obs.all.rows[i][1]]
      lim == [i \in 1 .. Len(r.obs.lim.rows) |-> r.obs.lim.rows[i][1]]
      M == Len(all)
      want == IF r.limit = 0 THEN M ELSE Min(r.limit, M)
      sub == \A x \in Range(lim) : Count(lim, x) <= Count(all, x)
      desc == r.keys # <<>> /\ r.keys[1].desc
      sorted == \A i \in 1 .. Len(lim) - 1 : TLeq(lim[i], lim[i + 1], desc)
      excluded == { v \in Range(all) : Count(all, v) > Count(lim, v) }
      topn == \A x \in Range(lim), v \in excluded : TLeq(x, v, desc)
      y == IF r.obs.lim.timed_out \/ r.obs.all.timed_out THEN "timeout"
           ELSE IF r.obs.lim.panic THEN "crash"
           ELSE IF Len(lim) # want THEN (IF Len(lim) < want THEN "too-few-rows" ELSE "too-many-rows")
           ELSE IF ~sub THEN "row-not-in-unlimited-result"
           ELSE IF r.keys # <<>> /\ ~sorted THEN "not-sorted"
           ELSE IF r.keys # <<>> /\ ~topn THEN "not-the-top-n"
           ELSE "ok"
  IN [id |-> r.id, ok |-> (y = "ok"), class |-> r.class, why |-> y, key |-> "C06/" \o r.class \o "/" \o y,
      nontrivial |-> (r.limit >= 1 /\ r.limit < M)]       \* (more rows than W5z has entries: members were listed)

VerdictPlain(r) ==
  LET w     == r.world
      nodes == NodeIds(w)
      paths == [n \in nodes |-> r.prefix \o RelPath(w, n)]
      IdOf(s) == IF \E n \in nodes : paths[n] = s THEN CHOOSE n \in nodes : paths[n] = s ELSE 0
      all   == r.obs.all.rows
      lim   == r.obs.lim.rows
      allIds == { IdOf(all[i][1]) : i \in 1 .. Len(all) }
      ids   == [i \in 1 .. Len(lim) |-> IdOf(lim[i][1])]
      M     == Len(all)
      want  == IF r.limit = 0 THEN M ELSE Min(r.limit, M)
      sub   == \A x \in Range(lim) : Count(lim, x) <= Count(all, x)
      sorted == \A i \in 1 .. Len(ids) - 1 : CmpKeys(r, ids[i], ids[i + 1], r.keys, 1) <= 0
      topn  == \A x \in Range(ids), z \in allIds \ Range(ids) : CmpKeys(r, x, z, r.keys, 1) <= 0
      y == IF r.obs.lim.timed_out \/ r.obs.all.timed_out THEN "timeout"
           ELSE IF r.obs.lim.panic THEN "crash"
           ELSE IF Len(lim) # want THEN (IF Len(lim) < want THEN "too-few-rows" ELSE "too-many-rows")
           ELSE IF ~sub THEN "row-not-in-unlimited-result"
           ELSE IF 0 \in allIds \/ \E i \in 1 .. Len(ids) : ids[i] = 0 THEN "unknown-row"
           ELSE IF r.keys # <<>> /\ ~sorted THEN "not-sorted"
           ELSE IF r.keys # <<>> /\ ~topn THEN "not-the-top-n"
           ELSE "ok"
  IN [id |-> r.id, ok |-> (y = "ok"), class |-> r.class, why |-> y,
      key |-> "C06/" \o r.class \o "/" \o y,
      nontrivial |-> (r.limit >= 1 /\ r.limit < M)]

Verdict(r) == IF r.arch THEN VerdictArch(r) ELSE VerdictPlain(r)

Init == l = 1
Next == /\ l <= Len(Rec)
        /\ PrintT(<<"VERDICT", ToJson(Verdict(Rec[l]))>>)
        /\ l' = l + 1
Spec == Init /\ [][Next]_l
Judged == PrintT(<<"JUDGED", ToJson([n |-> TLCGet("stats").diameter - 1])>>)
=============================================================================
