SPECIFICATION Spec
CONSTANTS
  Seeds = {1, 2, 3}
INVARIANTS EmitWorld Emit
