---------------------------- MODULE Trace_Walker ----------------------------
(* Binding layer, white-box trace validation of the traversal mechanism.     *)
(* The real Searcher::visit_dir, built with --cfg fselect_verif, logs one    *)
(* event per Mech action (src/verif.rs):                                     *)
(*    root     a search root is started            <-> Walker!NextRoot       *)
(*    entry    one iteration of the entry loop     <-> Walker!PickOne(e)     *)
(*             (inode of the entry, whether it was reported, how it was      *)
(*             scheduled: "dfs" = entered at once, "enqueue", "no")          *)
(*    break    the loop stopped at LIMIT           <-> Walker!LimitBreak     *)
(*    leave    the entry loop of a directory ended <-> Walker!EndOfDir       *)
(*    dequeue  the queue head is entered           <-> Walker!Dequeue        *)
(*    drained  the queue is empty                  <-> Walker!Dequeue        *)
(*    done     all roots searched                  <-> Walker!NextRoot       *)
(* A recorded run is accepted iff every event is explained by the Walker     *)
(* action of the same name taken in the model state reached so far, with the *)
(* logged fields equal to the model's values.  The readdir order - the only  *)
(* nondeterminism of the model - is resolved by the logged inode.  Several   *)
(* runs are validated by one TLC process: TRACEOK <id> is printed when a run *)
(* has been consumed completely and the model is in its final state.         *)
EXTENDS Walker, Json, IOUtils

Runs == ndJsonDeserialize(IOEnv.TRACES)
VARIABLES ti, tl          \* index of the run, index of the next event of that run
tvars == <<w, roots, win, dfs, limit, ri, stack, queue, visited, found, out, pc, ti, tl>>

Events(i) == Runs[i].events
NodeOf(i, ino) == IF ino = Runs[i].rootino THEN 0
                  ELSE IF \E n \in 1 .. Len(Runs[i].snapshot) : Runs[i].snapshot[n].ino = ino
                       THEN CHOOSE n \in 1 .. Len(Runs[i].snapshot) : Runs[i].snapshot[n].ino = ino ELSE -1

(* hard links share an inode number: among the unread entries of the directory being listed that carry the logged inode the *)
(* least one is taken (they are interchangeable for the walk: links to directories do not exist)                             *)
EntryOf(i, ino) == LET c == { n \in Top.unread : Runs[i].snapshot[n].ino = ino } IN
                   IF c = {} THEN -1 ELSE CHOOSE n \in c : \A m \in c : n <= m

Load(i) == /\ w' = Runs[i].world /\ roots' = Runs[i].roots /\ win' = <<Runs[i].min, Runs[i].max>>
           /\ dfs' = Runs[i].dfs /\ limit' = Runs[i].limit
           /\ ri' = 0 /\ stack' = <<>> /\ queue' = <<>> /\ visited' = {} /\ found' = 0 /\ out' = <<>> /\ pc' = "roots"

TInit == /\ ti = 1 /\ tl = 1
         /\ w = Runs[1].world /\ roots = Runs[1].roots /\ win = <<Runs[1].min, Runs[1].max>> /\ dfs = Runs[1].dfs /\ limit = Runs[1].limit
         /\ ri = 0 /\ stack = <<>> /\ queue = <<>> /\ visited = {} /\ found = 0 /\ out = <<>> /\ pc = "roots"

Step(ev) ==
  \/ ev.ev = "root" /\ ri < Len(roots) /\ NextRoot /\ roots[ri + 1] = NodeOf(ti, ev.ino)
  \/ /\ ev.ev = "entry" /\ stack # <<>> /\ EntryOf(ti, ev.ino) # -1 /\ PickOne(EntryOf(ti, ev.ino))
     /\ (Len(out') > Len(out)) = ev.reported
     /\ ev.descend = (IF Len(stack') > Len(stack) THEN "dfs" ELSE IF Len(queue') > Len(queue) THEN "enqueue" ELSE "no")
  \/ ev.ev = "break" /\ LimitBreak
  \/ ev.ev = "leave" /\ stack # <<>> /\ Top.dir = NodeOf(ti, ev.ino) /\ EndOfDir
  \/ ev.ev = "dequeue" /\ queue # <<>> /\ Head(queue)[1] = NodeOf(ti, ev.ino) /\ Dequeue
  \/ ev.ev = "drained" /\ queue = <<>> /\ Dequeue
  \/ ev.ev = "done" /\ ri = Len(roots) /\ NextRoot

TNext ==
  \/ /\ ti <= Len(Runs) /\ tl <= Len(Events(ti))
     /\ Step(Events(ti)[tl]) /\ tl' = tl + 1 /\ ti' = ti
  \/ /\ ti <= Len(Runs) /\ tl > Len(Events(ti)) /\ pc = "done"
     /\ PrintT(<<"TRACEOK", ToJson([id |-> Runs[ti].id, events |-> Len(Events(ti)), rows |-> Len(out)])>>)
     /\ ti' = ti + 1 /\ tl' = 1
     /\ IF ti < Len(Runs) THEN Load(ti + 1)
        ELSE UNCHANGED <<w, roots, win, dfs, limit, ri, stack, queue, visited, found, out, pc>>
TSpec == TInit /\ [][TNext]_tvars
(* the rows the model produced for the run must be exactly what Prop demands (the Walker invariants, re-checked on real runs) *)
TraceInv == NeverTwice /\ OnlyListed /\ ExactAtEnd /\ CountAtEnd /\ BfsMonotone /\ DfsContiguous
=============================================================================
