SPECIFICATION Spec
CONSTANTS
  MaxKeys = 3
  KeyCols = {"name", "ext", "size", "hardlinks", "modified", "length(name)", "size + 1", "is_dir", "uid", "dir"}
INVARIANTS EmitWorld Emit
