/* LD_PRELOAD shim used by the verification driver (environment control only).
 *
 *  VERIF_FAKE_EPOCH=<seconds>       clock_gettime(CLOCK_REALTIME), gettimeofday, time
 *                                   return this instant (frozen clock).
 *  VERIF_STDOUT_FAIL_AFTER=<bytes>  write(1, ..)/writev(1, ..) deliver exactly this
 *                                   many bytes in total, then fail with EPIPE (the
 *                                   process has SIGPIPE ignored, as Rust does).
 *  VERIF_STDOUT_LOG=<path>          append one line "<requested> <delivered|-1>" per
 *                                   write call on fd 1 (write-level trace).
 */
#define _GNU_SOURCE
#include <dlfcn.h>
#include <errno.h>
#include <stdio.h>
#include <stdlib.h>
#include <string.h>
#include <sys/time.h>
#include <sys/uio.h>
#include <time.h>
#include <unistd.h>
#include <fcntl.h>

static long long fake_epoch = -1;
static long long fail_after = -1;
static long long delivered = 0;
static int log_fd = -1;
static int inited = 0;

static ssize_t (*real_write)(int, const void *, size_t);
static int (*real_clock_gettime)(clockid_t, struct timespec *);

static void init(void) {
    if (inited) return;
    inited = 1;
    real_write = dlsym(RTLD_NEXT, "write");
    real_clock_gettime = dlsym(RTLD_NEXT, "clock_gettime");
    const char *e = getenv("VERIF_FAKE_EPOCH");
    if (e && *e) fake_epoch = atoll(e);
    const char *f = getenv("VERIF_STDOUT_FAIL_AFTER");
    if (f && *f) fail_after = atoll(f);
    const char *l = getenv("VERIF_STDOUT_LOG");
    if (l && *l) log_fd = open(l, O_WRONLY | O_CREAT | O_APPEND, 0644);
}

static void logw(size_t req, long long res) {
    if (log_fd < 0) return;
    char b[64];
    int n = snprintf(b, sizeof b, "%zu %lld\n", req, res);
    real_write(log_fd, b, n);
}

int clock_gettime(clockid_t clk, struct timespec *ts) {
    init();
    if (fake_epoch >= 0 && clk == CLOCK_REALTIME) {
        ts->tv_sec = (time_t)fake_epoch;
        ts->tv_nsec = 0;
        return 0;
    }
    return real_clock_gettime(clk, ts);
}

int gettimeofday(struct timeval *tv, void *tz) {
    init();
    (void)tz;
    if (fake_epoch >= 0) {
        tv->tv_sec = (time_t)fake_epoch; tv->tv_usec = 0;
        return 0;
    }
    struct timespec ts;
    real_clock_gettime(CLOCK_REALTIME, &ts);
    tv->tv_sec = ts.tv_sec; tv->tv_usec = ts.tv_nsec / 1000;
    return 0;
}

time_t time(time_t *t) {
    init();
    time_t r;
    if (fake_epoch >= 0) r = (time_t)fake_epoch;
    else { struct timespec ts; real_clock_gettime(CLOCK_REALTIME, &ts); r = ts.tv_sec; }
    if (t) *t = r;
    return r;
}

ssize_t write(int fd, const void *buf, size_t n) {
    init();
    if (fd != 1 || fail_after < 0) {
        ssize_t r = real_write(fd, buf, n);
        if (fd == 1) logw(n, r);
        return r;
    }
    long long room = fail_after - delivered;
    if (room <= 0) { logw(n, -1); errno = EPIPE; return -1; }
    size_t m = n;
    if ((long long)m > room) m = (size_t)room;
    ssize_t r = real_write(fd, buf, m);
    if (r > 0) delivered += r;
    logw(n, r);
    return r;
}

ssize_t writev(int fd, const struct iovec *iov, int cnt) {
    init();
    if (fd != 1) {
        static ssize_t (*real_writev)(int, const struct iovec *, int);
        if (!real_writev) real_writev = dlsym(RTLD_NEXT, "writev");
        return real_writev(fd, iov, cnt);
    }
    ssize_t total = 0;
    for (int i = 0; i < cnt; i++) {
        if (iov[i].iov_len == 0) continue;
        ssize_t r = write(fd, iov[i].iov_base, iov[i].iov_len);
        if (r < 0) return total > 0 ? total : -1;
        total += r;
        if ((size_t)r < iov[i].iov_len) break;
    }
    return total;
}
