#!/bin/bash
# usage: tools/verify_seed.sh <src dir with patch.diff demo.sh meta.json> <seed id e.g. C01-m1>
# Confirms in a scratch worktree of /repo HEAD: patch applies, builds, 137 tests pass, demo passes on HEAD and fails on mutant.
# On success copies the seed to /verif/seeded/<id>/ and appends what was run to meta.json.
set -u
src=$1; id=$2
wt=/tmp/vs.$id
rm -rf $wt; git -C /repo worktree prune
git -C /repo worktree add -q --detach $wt HEAD || exit 2
trap "git -C /repo worktree remove --force $wt 2>/dev/null; rm -rf $wt /tmp/vs.$id.log" EXIT
cp -r /repo/target $wt/target 2>/dev/null
cd $wt
export CARGO_NET_OFFLINE=true
cargo build --offline -q 2>/dev/null || { echo "$id: HEAD build failed"; exit 2; }
cp target/debug/fselect /tmp/vs.$id.orig
if ! git apply --3way $src/patch.diff 2>/tmp/vs.$id.log; then
  if ! git apply $src/patch.diff 2>>/tmp/vs.$id.log; then echo "$id: PATCH DOES NOT APPLY"; cat /tmp/vs.$id.log | head -5; rm -f /tmp/vs.$id.orig; exit 3; fi
fi
git diff HEAD > /tmp/vs.$id.patch
cargo build --offline -q 2>/tmp/vs.$id.log || { echo "$id: mutant build failed"; tail -5 /tmp/vs.$id.log; rm -f /tmp/vs.$id.orig; exit 3; }
t=$(cargo test --offline 2>&1 | grep -E "^test result" | head -1)
echo "$id: tests: $t"
case "$t" in *"137 passed; 0 failed"*) ;; *) echo "$id: TESTS DO NOT PASS"; rm -f /tmp/vs.$id.orig; exit 3;; esac
bash $src/demo.sh /tmp/vs.$id.orig >/dev/null 2>&1; a=$?
bash $src/demo.sh $wt/target/debug/fselect >/dev/null 2>&1; b=$?
echo "$id: demo on HEAD=$a on mutant=$b"
rm -f /tmp/vs.$id.orig
if [ $a -eq 0 ] && [ $b -ne 0 ]; then
  mkdir -p /verif/seeded/$id
  cp /tmp/vs.$id.patch /verif/seeded/$id/patch.diff; cp $src/demo.sh /verif/seeded/$id/
  python3 - $src/meta.json /verif/seeded/$id/meta.json "$t" <<'PY'
import json,sys
m=json.load(open(sys.argv[1]))
m["verified"]={"tests":sys.argv[3],"demo_on_head":0,"demo_on_mutant":"nonzero","how":"tools/verify_seed.sh: scratch worktree of /repo HEAD, git apply, cargo build --offline, cargo test --offline, demo.sh on both binaries"}
json.dump(m,open(sys.argv[2],"w"),indent=1)
PY
  echo "$id: KEPT"
else
  echo "$id: NOT KEPT"
fi
rm -f /tmp/vs.$id.patch
