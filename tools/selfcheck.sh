#!/bin/bash
# Validates MANIFEST.json and every evidence file against the harness schemas, and that every TLA+ module parses (SANY).
cd /verif
python3 tools/mkmanifest.py >/dev/null
python3-vt - <<'PY'
import json, jsonschema, glob, sys
ok = True
try:
    jsonschema.validate(json.load(open('/verif/MANIFEST.json')), json.load(open('/root/.vp/MANIFEST.schema.json')))
    print("MANIFEST.json valid")
except Exception as e:
    ok = False; print("MANIFEST.json INVALID:", str(e)[:300])
sch = json.load(open('/root/.vp/EVIDENCE.schema.json'))
for f in sorted(glob.glob('/verif/evidence/*.json')):
    try:
        jsonschema.validate(json.load(open(f)), sch)
    except Exception as e:
        ok = False; print(f, "INVALID:", str(e)[:200])
print("evidence files:", len(glob.glob('/verif/evidence/*.json')))
sys.exit(0 if ok else 1)
PY
rc=$?
bad=0
for f in spec/*.tla; do
  m=$(basename $f .tla)
  out=$(cd spec && java -cp /opt/veriftools/tla/tla2tools.jar:/opt/veriftools/tla/CommunityModules-deps.jar -Djava.io.tmpdir=/verif/.build tla2sany.SANY $m.tla 2>&1)
  if echo "$out" | grep -q "Fatal errors\|\*\*\* Errors"; then echo "SANY: $m does not parse"; bad=$((bad+1)); fi
done
rm -rf /verif/.build/tlc-* 2>/dev/null
echo "modules that do not parse: $bad"
exit $(( rc + (bad > 0) ))
