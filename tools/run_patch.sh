#!/bin/bash
# usage: tools/run_patch.sh <patch file> <Cxx> [tier]  -- apply a patch in a scratch worktree of /repo HEAD and run one property's check against it
set -u
patch=$1; prop=$2; tier=${3:-quick}
wt=/tmp/rp.$$
git -C /repo worktree add -q --detach $wt HEAD || exit 2
trap "git -C /repo worktree remove --force $wt 2>/dev/null; rm -rf $wt $wt.build $wt.out" EXIT
git -C $wt apply $patch || { echo "patch does not apply"; exit 2; }
mkdir -p $wt.build; cp -r /verif/.build/target $wt.build/target 2>/dev/null
cd /verif && VERIF_REPO=$wt VERIF_BUILD=$wt.build VERIF_OUT=$wt.out ./vcheck "$prop" "$tier" 2>&1 | grep -E "VIOLATION|KNOWN|TOOL-ERROR|DRIFT|\[done\]" | cut -c1-260 | head -${LINES_MAX:-5}
