#!/usr/bin/env python3
"""Regenerates MANIFEST.json from the table below (single source of truth for the registered checks)."""
import json, os
V = os.path.dirname(os.path.dirname(os.path.abspath(__file__)))
props = [json.loads(l) for l in open(os.path.join(V, "properties.jsonl"))]

import importlib, sys
sys.path.insert(0, V)
CHECKS = {}
for p in props:
    try:
        m = importlib.import_module("driver.props." + p["id"].lower())
    except ModuleNotFoundError:
        continue
    if not hasattr(m, "MANIFEST"):
        continue
    c = dict(m.MANIFEST)
    c["category"] = m.LEVEL
    CHECKS[p["id"]] = c

import subprocess
HOOK_COMMITS = subprocess.run(["git", "-C", "/repo", "log", "--grep", "^verif hooks", "--format=%H"], capture_output=True, text=True).stdout.split()
checks = []
for pid, c in CHECKS.items():
    checks.append({
        "property_id": pid,
        "quick_cmd": "./vcheck %s quick" % pid,
        "thorough_cmd": "./vcheck %s thorough" % pid,
        "evidence_file": "/verif/evidence/%s.json" % pid,
        "replay_cmd_template": "./vcheck replay {path}",
        "engine": "tlc-replay-judge",
        "level_claimed": {"category": c["category"], "text": c["text"], "design_ref": c["design_ref"]},
        "level_note": c["note"],
        "technique": c["technique"],
    })
na = [{"property_id": p["id"], "reason": "check under construction in this session (no technique switch intended; see DESIGN.md §5)"}
      for p in props if p["id"] not in CHECKS]
m = {
 "version": 1,
 "setup_cmd": "./setup.sh",
 "hooks": {"guard": "fselect_verif", "enable": "RUSTFLAGS='--cfg fselect_verif --check-cfg cfg(fselect_verif)' cargo build --offline (done by driver/lib.py ensure_build into /verif/.build/target)",
           "baseline_off_cmd": "cd /repo && cargo test --workspace --no-fail-fast --offline",
           "source_commits": HOOK_COMMITS, "add_only": True},
 "engines": [{"name": "tlc-replay-judge", "path": "/verif/vcheck", "serves_properties": sorted(CHECKS),
              "kind_free_text": "TLC generates scenarios from MC_* specs, the driver replays them into the real fselect binary, TLC judges the recorded behaviours against the Prop-layer TLA+ modules (Judge_*); Mech-layer models are model-checked in the same run"}],
 "checks": checks,
 "not_applicable": na,
 "notes": "See DESIGN.md. Exit codes: 0 held, 1 VIOLATION line(s), 2 tool error.",
}
json.dump(m, open(os.path.join(V, "MANIFEST.json"), "w"), indent=1)
print("checks:", len(checks), "not_applicable:", len(na))
