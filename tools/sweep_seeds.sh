#!/bin/bash
# Re-verify every stored seed against /repo HEAD (scratch worktrees), then run each against its property's check
# (scratch worktree + own build/output dirs: /repo, /verif/.build and /verif/evidence are not touched).
# Writes /verif/seeded/SUMMARY.json.
cd /verif
ids=${*:-$(ls seeded | grep -E '^C[0-9]+-m[0-9]+$' | sort)}
mkdir -p /tmp/sweep
echo "$ids" | tr ' ' '\n' | xargs -P 3 -I{} bash -c 'rm -rf /tmp/sweep/{}; cp -r /verif/seeded/{} /tmp/sweep/{}; tools/verify_seed.sh /tmp/sweep/{} {}.chk > /tmp/sweep/{}.verify 2>&1; rm -rf /verif/seeded/{}.chk /tmp/sweep/{}
  if grep -q "KEPT" /tmp/sweep/{}.verify && ! grep -q "NOT KEPT" /tmp/sweep/{}.verify; then tools/run_seed.sh {} > /tmp/sweep/{}.run 2>&1; else echo "{}: STALE (does not verify against HEAD)" > /tmp/sweep/{}.run; fi
  tail -3 /tmp/sweep/{}.verify | head -1; head -1 /tmp/sweep/{}.run'
python3 - <<'PY'
import json,os,re
out=[]
for id in sorted(os.listdir('/verif/seeded')):
    if not re.match(r'^C\d+-m\d+$', id): continue
    v=open('/tmp/sweep/%s.verify'%id).read() if os.path.exists('/tmp/sweep/%s.verify'%id) else ''
    res=json.load(open('/verif/seeded/%s/result.json'%id)) if os.path.exists('/verif/seeded/%s/result.json'%id) else {}
    meta=json.load(open('/verif/seeded/%s/meta.json'%id))
    out.append({"seed":id,"property":id.split('-')[0],"verifies_against_head":("KEPT" in v and "NOT KEPT" not in v) if v else None,
                "detected_by_quick_check":res.get("detected"),"violation_classes":res.get("violation_classes"),
                "mech_drift_lines":res.get("mech_drift_lines"),"summary":meta.get("summary","")[:200]})
json.dump(out,open('/verif/seeded/SUMMARY.json','w'),indent=1)
print(sum(1 for o in out if o["detected_by_quick_check"]), "of", len(out), "detected;", [o["seed"] for o in out if not o["detected_by_quick_check"]])
PY
