#!/bin/bash
# Run every stored seed (or the ones named) against its property's quick check, in scratch worktrees with their own build /
# output directories (/repo, /verif/.build and /verif/evidence are not touched).  Writes /verif/seeded/SUMMARY.json.
#   VERIFY=1  also re-verify each seed first (applies to HEAD, 137 tests pass, its demo passes on HEAD and fails on the change)
#   PAR=n     seeds in parallel (default 3)
cd /verif
ids=${*:-$(ls seeded | grep -E '^C[0-9]+-m[0-9]+$' | sort)}
mkdir -p /tmp/sweep
one() {
  id=$1
  if [ -n "${VERIFY:-}" ]; then
    rm -rf /tmp/sweep/$id; cp -r /verif/seeded/$id /tmp/sweep/$id
    tools/verify_seed.sh /tmp/sweep/$id $id.chk > /tmp/sweep/$id.verify 2>&1
    rm -rf /verif/seeded/$id.chk /tmp/sweep/$id
  else
    echo "$id: KEPT (not re-verified in this sweep)" > /tmp/sweep/$id.verify
  fi
  if grep -q "KEPT" /tmp/sweep/$id.verify && ! grep -q "NOT KEPT" /tmp/sweep/$id.verify; then
    tools/run_seed.sh $id > /tmp/sweep/$id.run 2>&1
  else
    echo "$id: STALE (does not verify against HEAD)" > /tmp/sweep/$id.run
  fi
  head -1 /tmp/sweep/$id.run
}
export -f one
echo "$ids" | tr ' ' '\n' | xargs -P ${PAR:-3} -I{} bash -c 'one {}'
python3 - <<'PY'
import json,os,re
out=[]
for id in sorted(os.listdir('/verif/seeded')):
    if not re.match(r'^C\d+-m\d+$', id): continue
    v=open('/tmp/sweep/%s.verify'%id).read() if os.path.exists('/tmp/sweep/%s.verify'%id) else ''
    run=open('/tmp/sweep/%s.run'%id).read() if os.path.exists('/tmp/sweep/%s.run'%id) else ''
    res=json.load(open('/verif/seeded/%s/result.json'%id)) if os.path.exists('/verif/seeded/%s/result.json'%id) else {}
    meta=json.load(open('/verif/seeded/%s/meta.json'%id))
    out.append({"seed":id,"property":id.split('-')[0],
                "patch_applies_to_head": ("patch does not apply" not in run and "STALE" not in run) if run else None,
                "reverified_in_this_sweep": (None if "not re-verified" in v or not v else ("KEPT" in v and "NOT KEPT" not in v)),
                "detected_by_quick_check":res.get("detected"),"violation_classes":res.get("violation_classes"),
                "mech_drift_lines":res.get("mech_drift_lines"),"run_against_repo":res.get("repo_head"),"run_with_verif":res.get("verif_head"),
                "run_at":res.get("run_at"),"summary":meta.get("summary","")[:200]})
json.dump(out,open('/verif/seeded/SUMMARY.json','w'),indent=1)
print(sum(1 for o in out if o["detected_by_quick_check"]), "of", len(out), "detected;", [o["seed"] for o in out if not o["detected_by_quick_check"]])
PY
