#!/bin/bash
# Run every stored seed (or the ones named) against its property's quick check, in scratch worktrees with their own build /
# output directories (/repo, /verif/.build and /verif/evidence are not touched).  Writes /verif/seeded/SUMMARY.json.
#   VERIFY=1  also re-verify each seed first (applies to HEAD, 137 tests pass, its demo passes on HEAD and fails on the change)
#   PAR=n     seeds in parallel (default 3)
cd /verif
ids=${*:-$(ls seeded | grep -E '^C[0-9]+-m[0-9]+$' | sort)}
mkdir -p /tmp/sweep
one() {
  id=$1
  if [ -n "${VERIFY:-}" ]; then
    rm -rf /tmp/sweep/$id; cp -r /verif/seeded/$id /tmp/sweep/$id
    tools/verify_seed.sh /tmp/sweep/$id $id.chk > /tmp/sweep/$id.verify 2>&1
    rm -rf /verif/seeded/$id.chk /tmp/sweep/$id
  else
    echo "$id: KEPT (not re-verified in this sweep)" > /tmp/sweep/$id.verify
  fi
  if grep -q "KEPT" /tmp/sweep/$id.verify && ! grep -q "NOT KEPT" /tmp/sweep/$id.verify; then
    tools/run_seed.sh $id > /tmp/sweep/$id.run 2>&1
  else
    echo "$id: STALE (does not verify against HEAD)" > /tmp/sweep/$id.run
  fi
  head -1 /tmp/sweep/$id.run
}
export -f one
echo "$ids" | tr ' ' '\n' | xargs -P ${PAR:-3} -I{} bash -c 'one {}'
python3 /verif/tools/seed_summary.py
