#!/bin/bash
# usage: tools/mut.sh <Cxx> <file> <sed-expr> [tier]   -- apply a one-line mutant to /repo, run the check, restore.
set -u
prop=$1; file=$2; expr=$3; tier=${4:-quick}
cd /repo || exit 2
git diff --quiet || { echo "repo dirty"; exit 2; }
sed -i "$expr" "$file"
if git diff --quiet; then echo "MUTANT DID NOT APPLY"; exit 2; fi
git --no-pager diff --stat | tail -1
cd /verif && ./vcheck "$prop" "$tier" 2>&1 | grep -E "VIOLATION|KNOWN|TOOL-ERROR|\[done\]" | cut -c1-400 | head -${MUT_LINES:-6}
rc=${PIPESTATUS[0]}
git -C /repo checkout -- .
echo "check exit=$rc"
