#!/bin/bash
# usage: tools/mut.sh <Cxx> <file> <sed-expr> [tier]
# Applies a one-line mutant in a scratch worktree of /repo HEAD (never in /repo), runs the check against it with its own
# build / output directories, removes the scratch copies.
set -u
prop=$1; file=$2; expr=$3; tier=${4:-quick}
wt=/tmp/mut.$$
git -C /repo worktree add -q --detach $wt HEAD || exit 2
trap "git -C /repo worktree remove --force $wt 2>/dev/null; rm -rf $wt $wt.build $wt.out" EXIT
sed -i "$expr" "$wt/$file"
if git -C $wt diff --quiet; then echo "MUTANT DID NOT APPLY"; exit 2; fi
git -C $wt --no-pager diff | grep -E "^[-+][^-+]" | head -6
mkdir -p $wt.build; cp -r /verif/.build/target $wt.build/target 2>/dev/null
cd /verif && VERIF_REPO=$wt VERIF_BUILD=$wt.build VERIF_OUT=$wt.out ./vcheck "$prop" "$tier" 2>&1 | grep -E "VIOLATION|KNOWN|TOOL-ERROR|DRIFT|\[done\]" | cut -c1-300 | head -${MUT_LINES:-6}
echo "check exit=${PIPESTATUS[0]}"
