#!/usr/bin/env python3
"""usage: tools/record_fix.py <Cxx> <commit> <what failed> <key> [<key>...]  -- appends a `fixed:` entry to known_findings.json"""
import json, sys
prop, commit, what = sys.argv[1:4]
keys = sys.argv[4:]
p = '/verif/known_findings.json'
k = json.load(open(p))
k['findings'].append({"property": prop, "status": "fixed: " + commit, "keys": keys, "what": what,
                      "line": "fixed: property=%s %s %s" % (prop, commit, what)})
json.dump(k, open(p, 'w'), indent=1)
print(len(k['findings']), "entries")
