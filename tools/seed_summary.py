#!/usr/bin/env python3
"""Writes /verif/seeded/SUMMARY.json from the result.json of every stored seed (and the logs of the last sweep, if any)."""
import json,os,re
out=[]
for id in sorted(os.listdir('/verif/seeded')):
    if not re.match(r'^C\d+-m\d+$', id): continue
    v=open('/tmp/sweep/%s.verify'%id).read() if os.path.exists('/tmp/sweep/%s.verify'%id) else ''
    run=open('/tmp/sweep/%s.run'%id).read() if os.path.exists('/tmp/sweep/%s.run'%id) else ''
    res=json.load(open('/verif/seeded/%s/result.json'%id)) if os.path.exists('/verif/seeded/%s/result.json'%id) else {}
    meta=json.load(open('/verif/seeded/%s/meta.json'%id))
    out.append({"seed":id,"property":id.split('-')[0],
                "patch_applies_to_head": ("patch does not apply" not in run and "STALE" not in run) if run else None,
                "reverified_in_this_sweep": (None if "not re-verified" in v or not v else ("KEPT" in v and "NOT KEPT" not in v)),
                "detected_by_quick_check":res.get("detected"),"violation_classes":res.get("violation_classes"),
                "mech_drift_lines":res.get("mech_drift_lines"),"run_against_repo":res.get("repo_head"),"run_with_verif":res.get("verif_head"),
                "run_at":res.get("run_at"),"summary":meta.get("summary","")[:200]})
json.dump(out,open('/verif/seeded/SUMMARY.json','w'),indent=1)
print(sum(1 for o in out if o["detected_by_quick_check"]), "of", len(out), "detected;", [o["seed"] for o in out if not o["detected_by_quick_check"]])
