#!/bin/bash
# usage: tools/ingest_seeds.sh <id>...   -- verify each delivered change (/tmp/sa/out/<id>) and, when kept, run its property's check
cd /verif
for id in "$@"; do
  tools/verify_seed.sh /tmp/sa/out/$id $id 2>&1 | tail -3
  if [ -d seeded/$id ]; then tools/run_seed.sh $id 2>&1 | head -4; fi
done
