#!/bin/bash
# usage: tools/run_seed.sh <seed id e.g. C01-m1> [tier]  -- apply the seeded change to /repo, run its property's check, undo.
set -u
id=$1; tier=${2:-quick}; prop=${id%%-*}
d=/verif/seeded/$id
cd /repo || exit 2
git diff --quiet || { echo "repo dirty"; exit 2; }
git apply $d/patch.diff || { echo "$id: patch does not apply"; exit 2; }
cd /verif && out=$(./vcheck "$prop" "$tier" 2>&1); rc=$?
git -C /repo checkout -- .
nv=$(echo "$out" | grep -c "^VIOLATION")
echo "$id: check exit=$rc violations(classes)=$nv  $(echo "$out" | grep -E "TOOL-ERROR" | head -1)"
echo "$out" | grep "^VIOLATION" | head -2 | cut -c1-260
python3 - "$d" "$rc" "$nv" "$tier" <<'PY'
import json,sys
d,rc,nv,tier=sys.argv[1:]
json.dump({"check_exit":int(rc),"violation_classes":int(nv),"tier":tier,"detected":int(rc)==1},open(d+"/result.json","w"))
PY
