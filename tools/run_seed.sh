#!/bin/bash
# usage: tools/run_seed.sh <seed id e.g. C01-m1> [tier]
# Applies the seeded change in a scratch worktree of /repo HEAD (never in /repo itself), runs its property's check against that
# worktree with its own build and output directories, records seeded/<id>/result.json, removes the scratch copies.
set -u
id=$1; tier=${2:-quick}; prop=${id%%-*}
d=/verif/seeded/$id
wt=/tmp/rs.$id
rm -rf $wt $wt.build $wt.out $wt.verif
git -C /repo worktree add -q --detach $wt HEAD || exit 2
trap "git -C /repo worktree remove --force $wt 2>/dev/null; rm -rf $wt $wt.build $wt.out $wt.verif" EXIT
git -C $wt apply $d/patch.diff || { echo "$id: patch does not apply"; exit 2; }
mkdir -p $wt.build; cp -r /verif/.build/target $wt.build/target 2>/dev/null
# (the check runs from a private copy of the checking machinery: the specifications may be edited while a sweep is under way)
mkdir -p $wt.verif; cp -r /verif/spec /verif/driver /verif/vcheck /verif/known_findings.json /verif/shim $wt.verif/ 2>/dev/null
cd $wt.verif && out=$(VERIF_REPO=$wt VERIF_BUILD=$wt.build VERIF_OUT=$wt.out ./vcheck "$prop" "$tier" 2>&1); rc=$?
nv=$(echo "$out" | grep -c "^VIOLATION")
echo "$id: check exit=$rc violations(classes)=$nv  $(echo "$out" | grep -E "TOOL-ERROR" | head -1)"
echo "$out" | grep "^VIOLATION" | head -2 | cut -c1-260
echo "$out" | grep "^DRIFT" | head -2 | cut -c1-200
python3 - "$d" "$rc" "$nv" "$tier" "$(echo "$out" | grep -c '^DRIFT')" "$(git -C /repo rev-parse --short HEAD)" "$(git -C /verif rev-parse --short HEAD)" <<'PY'
import json,sys,time
d,rc,nv,tier,drift,repo,verif=sys.argv[1:]
json.dump({"check_exit":int(rc),"violation_classes":int(nv),"tier":tier,"detected":int(rc)==1,"mech_drift_lines":int(drift),
           "repo_head":repo,"verif_head":verif,"run_at":time.strftime("%Y-%m-%dT%H:%M:%SZ",time.gmtime())},open(d+"/result.json","w"))
PY
