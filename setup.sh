#!/bin/bash
# Run once after a fresh restore (offline): build fselect from /repo with hooks on, compile the shim, parse all specs.
set -e
cd "$(dirname "$0")"
export CARGO_NET_OFFLINE=true
python3 - <<'PY'
import sys
sys.path.insert(0, ".")
from driver import lib
lib.ensure_build()
print("binary:", lib.BIN)
PY
